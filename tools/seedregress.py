#!/usr/bin/env python3
# tools/seedregress.py [seed-id ...] — runs every seeded change against the check that is recorded as catching it, on a
# scratch worktree of /repo and a scratch copy of /verif (so /repo, /verif/evidence and /verif/replays stay untouched).
# The harness selection per seed comes from the catch table in DESIGN.md 0.6. Prints one line per seed.
import json, os, re, subprocess, sys, shutil
V = "/verif"
env = dict(os.environ, GOFLAGS="-mod=mod", GOPROXY="off", GOSUMDB="off", GOTOOLCHAIN="local")
def sh(cmd, cwd=None, timeout=1800):
    p = subprocess.run(cmd, shell=True, cwd=cwd, env=env, stdout=subprocess.PIPE, stderr=subprocess.STDOUT, text=True, timeout=timeout)
    return p.returncode, p.stdout
# seed -> harness regexp from the DESIGN table rows "| Cxx | C01-1, C01-2 (A, B), C01-3 (C) |"
sel = {}
for line in open(f"{V}/DESIGN.md"):
    m = re.match(r"\| (C\d\d) \| (C\d\d-\d+.*) \|\s*$", line)
    if not m:
        continue
    prop, body = m.group(1), m.group(2)
    for grp in re.finditer(r"((?:C\d\d-\d+(?:, )?)+)\s*(?:\(([^)]*)\))?", body):
        seeds = re.findall(r"C\d\d-\d+", grp.group(1))
        names = [n.strip() for n in (grp.group(2) or "").split(",") if re.match(r"^[A-Za-z0-9_ ]+$", n.strip())]
        names = [n.split()[0] for n in names if n]
        for s in seeds:
            sel[s] = names
want = sys.argv[1:] or sorted(os.listdir(f"{V}/seeded"))
wt, vc = "/tmp/rs_repo", "/tmp/rs_verif"
sh(f"git -C /repo worktree remove --force {wt}")
rc, o = sh(f"git -C /repo worktree add --detach {wt} HEAD"); assert rc == 0, o
shutil.rmtree(vc, ignore_errors=True)
sh(f"rsync -a --exclude .git --exclude seeded --exclude replays --exclude evidence {V}/ {vc}/ && mkdir -p {vc}/replays {vc}/evidence")
res = {}
try:
    for sid in want:
        d = os.environ.get("SEEDROOT", f"{V}/seeded") + f"/{sid}"
        if not os.path.exists(f"{d}/patch.diff"):
            continue
        meta = json.load(open(f"{d}/meta.json"))
        prop = sid.split("-")[0]
        rc, o = sh(f"git apply {d}/patch.diff", cwd=wt)
        if rc != 0:
            print(sid, "PATCH-DOES-NOT-APPLY"); sh("git checkout -- . && git clean -fdq", cwd=wt); continue
        only = ""
        if sel.get(sid) and not os.environ.get("SEEDREGRESS_FULL"):
            only = "-only 'H_%s_(%s)$'" % (prop, "|".join(sel[sid]))
        rc, o = sh(f"timeout 1500 {vc}/bin/gosym check {prop} quick -repo {wt} -verif {vc} {only} 2>/dev/null | grep -E '^(VIOLATION|INCONCLUSIVE|RESULT)' | cut -c1-160", timeout=1700)
        viol = [l for l in o.splitlines() if l.startswith("VIOLATION")]
        status = "caught" if viol else "NOT-CAUGHT"
        if "MISSED" in meta.get("check_result", ""):
            status += " (filed as missed)"
        print(sid, status, only, "|", (viol[0].split("replay=")[1].split("/")[-1] if viol else o.strip().replace("\n", " ; ")[-200:]), flush=True)
        sh("git checkout -- . && git clean -fdq", cwd=wt)
finally:
    sh(f"git -C /repo worktree remove --force {wt}")
    shutil.rmtree(vc, ignore_errors=True)
