#!/usr/bin/env python3
# Regenerates /verif/MANIFEST.json from the table below (kept in one place so it stays valid).
import json, os
V = os.path.dirname(os.path.dirname(os.path.abspath(__file__)))

TECH = "bounded symbolic execution of the real go/ssa code (own forking interpreter, gosym) with z3 deciding every path condition and assertion; counterexamples replayed natively"
NOTE = ("Trusted: go/ssa translation (x/tools v0.29.0), the engine's SSA semantics and intrinsics listed in the evidence, z3 5.1.0 (z3-new). "
        "Claim is bounded: every input inside the per-harness bounds recorded in the evidence; nothing outside them. ")

claimed = {
 "C07": dict(text="Bounded model checking of the two stores the chain state lives in, each with the crash point as a variable (a counter over the file operations of an in-memory file system, the k-th of which panics instead of happening), each followed by a reopen: "
                  "(a) the unspent-output store (lib/utxo: NewUnspentDb, CommitBlockTxs, UndoBlockTxs, Save / save with its writer goroutine, Close) over a tree of four blocks with a snapshot at G or at A: every session of 3 (thorough 4) operations from {connect, disconnect, snapshot}: "
                  "the store comes up at the tip of the last completed snapshot or of one begun later (exactly the last tip after a clean Close) holding the replay of that tip's chain, and bringing it to the session's final tip with the undo files found on disk gives that tip's replay; "
                  "(b) the block store (lib/chain BlockDB: BlockAdd, Idle, BlockTrusted / BlockInvalid, Close, LoadBlockIndex, BlockGet) holding two blocks: add, optional flush, optional flag change, add, optional flush, Close: every listed block is intact, completed writes and flags are kept, append order holds, and re-adding the missing blocks gives the complete store; (c) the block store's index and data file cut to a prefix each (case split over the cut points): exactly the complete records are listed, every listed block is returned intact or refused, never as other bytes, also after the next append and restart.",
             ref="6/C07", note=NOTE + "Component level only: the orchestration of the two stores by lib/chain (NewChainExt, ParseTillBlock, reorganisation on restart) is outside, and so is the agreement between the stores after a crash. "
                  "File system model: an in-memory map inside the harness; writes atomic and durable in program order (a process death; of the power-loss effects only prefix truncation of the block store's two files is covered: torn or reordered writes are outside). "
                  "Goroutines run on one schedule: queued at the go statement and run when the spawner waits for them (zzverif.LazyGo); snapshots are small enough to be written in one piece, so an aborted snapshot is outside. "
                  "Counterexamples are replayed natively by running the same session in a child process under gdb, killed at every entry to / return from an openat, write, pwrite64, renameat or unlinkat system call, and reopening the directory. "
                  "Two genuine defects are open known findings (undo files named by height alone: C07-undo-file-of-other-branch; index records beyond the end of a truncated data file: C07-index-beyond-data-file). "),
 "C16": dict(text="Bounded model checking of one step of the block store (lib/chain BlockDB) from an arbitrary well-formed on-disk state: two stored blocks with arbitrary trusted / invalid flags (index and data file built in the store's own format), "
                  "stored raw or as snappy streams longer than the block, then open + index walk, one block added, optionally flushed, optionally one of the three blocks marked trusted or invalid (the new one still queued or written), close and reopen, with a cache of 1 or 10 blocks and with or without data-file roll-over: "
                  "every block not marked invalid is read back byte-identical by its hash (from cache, queue or disk), the index walk lists exactly the non-invalid blocks with height, size, transaction count and trusted flag, and appending overwrites none of them.",
             ref="6/C16", note=NOTE + "Under the engine the files are an in-memory map inside the harness (os / *os.File functions replaced); native replays run the same steps on real files. "
                  "In the compressed variant snappy.Encode / Decode are the real code and their two assembly kernels are replaced by a one-literal encoder and a literal decoder (what the real encoder emits for these blocks). Outside: compressible blocks (snappy copy elements), gzip records, blocks beyond 82 bytes, more than two stored blocks, retention (files to keep / backup), longer histories, crashes (C07). "),
 "C19": dict(text="Bounded model checking of the embedded key-value store (lib/others/qdb) against an in-memory map with the crash point as a variable: every workload of 3 (thorough 4) operations from "
                  "{Put, Del, Sync, Defrag(force), Close+reopen} on two keys with arbitrary two-byte values, syncing on every change or on demand, from an empty store or from one holding a key written in an earlier session, forced defragmentation at 300 % or 10 %, run on a file map in which every create / write / remove is a possible crash point: "
                  "after every operation Get and Count agree with the map; after a clean Close or a crash before the k-th file operation (k arbitrary) a reopen succeeds and every key holds its last synced value or one written later, exactly the last one after a clean Close.",
             ref="6/C19", note=NOTE + "The file system is an in-memory map inside the harness (os / filepath / ioutil functions replaced; writes atomic and durable in program order; a crash loses nothing already written: torn writes and reordering by the operating system are outside). "
                  "Counterexamples are replayed natively by running the same workload in a child process under gdb, killed at every entry to / return from an openat, write or unlinkat system call, and reopening the directory in a second child. "
                  "Outside: values beyond 2 bytes, more than two keys, NO_CACHE / NO_BROWSE flags, volatile mode, other defragmentation thresholds, longer histories. "),
 "C17": dict(text="Bounded model checking of the inductive step of the per-address balance index (client/wallet TxNotifyAdd / TxNotifyDel, NewUTXO / all_del_utxos): from every index state in which one address holds 0..3 outputs "
                  "(list or map representation, arbitrary values at or above an arbitrary minimum) one UTXO notification - a two-output transaction with arbitrary scripts and values, or a removal with an arbitrary spent mask, "
                  "also of never-indexed outputs - leaves each address record equal to the projection of the changed set (members, count, total, no record for an empty address); and the link to the UTXO database: "
                  "connecting a change set (CommitBlockTxs: spend an arbitrary subset of a record's outputs, create a record) notifies exactly one deletion (full record and mask) and one addition and leaves the map equal to pre - spent + created; "
                  "disconnecting it (UndoBlockTxs, undo data through a file) notifies the removal of the created record and the re-addition of exactly the spent outputs and restores the map.",
             ref="6/C17", note=NOTE + "One inductive step from bounded pre-states built to satisfy the representation invariant; the address key (SipHash of the script payload) is computed for concrete addresses. "
                  "The undo file goes through an in-memory file map under the engine (native replays use real files). Outside: block histories (only single steps are decided), change sets with more than one spent and one created record, building the index from a populated set, the GetAllUnspent listing, more than 3 outputs per address, SipHash collisions between addresses. "),
 "C03": dict(text="Bounded model checking of the scalar range gate of ECDSA verification (acceptance implies r, s in [1, n-1]; DER signatures with R and S of 1..33 bytes; the curve computation replaced by a stub with arbitrary verdict and x coordinate) "
                  "and of signature serialisation (Signature.Bytes is strict minimal DER and parses back for every r, s in [1, 2^256)); public-key parsing for every length and prefix (accepted implies coordinates below p, on the curve, announced parity; valid uncompressed keys are accepted), "
                  "x-only keys, the BIP341 tweak check and the BIP340 gates (key, r < p, s < n, finite even-y nonce point), with field products / square root as uninterpreted functions and the double multiplication as an arbitrary point; the RFC 6979 nonce derivation (own HMAC-SHA256) against RFC 6979 3.2 / RFC 2104 for every key, digest, extra data and the first three candidates.",
             ref="6/C03", note=NOTE + "The group law itself (C08 L1-L3), the signers' use of the nonce and key recovery are outside this revision; the on-curve relation is decided over uninterpreted field products, so what is shown is that the checks are made, on top of the C08 field harnesses. "),
 "C14": dict(text="Bounded model checking (Int mode, HMAC-SHA512 / SHA-256 / RIPEMD-160 as injective ghost functions, public key as an uninterpreted function of the private key) of BIP32: CKDpriv for every key, chain code and index "
                  "(HMAC input layout hardened / normal, child = (IL + k) mod n zero-padded, chain code, depth, fingerprint, index), CKDpub (same HMAC input, tweak passed to the point addition, hardened indexes refused), "
                  "extended-key serialisation layout / checksum / parse-back, WIF export/import round trip; the key list of a type-4 wallet (make_wallet): i-th key = child B+i of the configured path with the matching label, out-of-range indexes refused.",
             ref="6/C14", note=NOTE + "Outside: type-3 key chain, BIP39, scrypt, seed handling, address listing; Base58 is bypassed here (C15). BIP32's 'IL >= n or child == 0 is invalid' rule is assumed away (probability < 2^-127). "),
 "C08": dict(text="Bounded model checking (Int mode: mathematical integers with explicit wrap-around, quotient variables, products abstracted to shared bounded variables) of the 5x52 field arithmetic against the ring Z/p: "
                  "Mul and Sqr for all operands of magnitude <= 8, Normalize for all limbs < 2^60 (canonical output, value preserved mod p), SetAdd / MulInt / Negate within their magnitude contracts, SetB32/GetB32 round trip and value; point serialisation (GetPublicKey, XY.Bytes) of coordinates in the non-normalised form SetXYZ leaves: canonical X/Y bytes and the parity of the canonical Y; the contracts between the group layer and the field layer (Double / Add / AddXY / affine helpers: operand magnitudes of Mul, Sqr, Negate, normalisation before Equals / IsZero / IsOdd / GetB32, output magnitudes inductive).",
             ref="6/C08", note=NOTE + "Most of these obligations are discharged by the engine's canonical linear forms and interval arithmetic before a query is needed (reported per assertion in the evidence as folded); the group law, scalar code and tables (L1-L3) are not yet covered. "),
 "C13": dict(text="Bounded model checking (Int mode) of the wallet's payment arithmetic: parse_spend + make_signed_tx on requests of one or two destinations with amount strings of several shapes (0.dddddddd, integers of 1..3 (thorough 8, 12) digits, D.d, DD.dddd, 'D.', '.dddddddd', 12+8 digits; all digits arbitrary), arbitrary fee below 1 BTC, -f and -useallinputs, two owned outputs of arbitrary value: "
                  "what is written pays every destination exactly the requested amount (the first minus the fee under -f, never wrapping), requests above all funds are refused, change = inputs - payment - fee to the change address, inputs are owned and only as many as needed; otherwise the tool exits before writing; the -msg OP_RETURN output for message lengths of every push class; sign_tx on one input of six output kinds under two wallet configurations: the digest handed to the signer is the right algorithm's (legacy / BIP143 / BIP341) for this input, script code and amount, the key is the wallet's, the signature lands where the output type requires, nothing but scriptSig / witness changes, foreign outputs are left unsigned (native replays run the real signers and the script interpreter).",
             ref="6/C13", note=NOTE + "sign_tx, write_tx_file and cleanExit are stubs under the engine (native replays use the real ones and read the written file back). The ECDSA / Schnorr signers are stubs under the engine (arbitrary r, s); multisig signing, -raw file handling and -batch are not covered. "),
 "C04": dict(text="Bounded model checking of block connection (commitTxs via ProcessBlockTransactions, with the context-free CheckTransaction rules in front as in PostCheckBlock) for a block of coinbase + 1..2 transactions (inputs may name the pre-state, the block's own coinbase and every transaction of the block: only an earlier one is spendable) "
                  "over a symbolic UTXO pre-state satisfying the representation invariant, arbitrary script verdicts, values compared as mathematical integers (Int mode): every input exists and is unspent, "
                  "no double spend, no spend of the block's own coinbase, coinbase maturity, money range of every output and total, inputs cover outputs, coinbase claim <= subsidy + fees; subsidy schedule for every height; BIP68 height locks (open known finding); legacy / P2SH / witness signature-operation counters equal Core's for every short script (open known finding behind OP_RETURN) and the 80000 cost limit with arbitrary counters; the change set produced for the UTXO database (deletion masks, undo records, added records) equals what the block spends and creates.",
             ref="6/C04", note=NOTE + "Outside: BIP68 time-based locks, blocks larger than the bound, the UTXO database commit itself. "),
 "C05": dict(text="Bounded model checking of header/structure rules, each against a transcription of Bitcoin Core's rule: median-time-past over 1..11 ancestors, PreCheckBlock acceptance (PoW verdict, required bits, "
                  "time-too-old / time-too-new with a symbolic clock, signed version gating, height/MTP bookkeeping), unknown-parent handling, verification-flag schedule, BIP34 height prefix for every uint32, "
                  "IsFinalTx, Merkle root and the CVE-2012-2459 mutation flag for up to 5 (8) symbolic leaves, compact-target decoding (SetCompact: negative, overflow, zero) for every 32-bit value, compact encoding (GetCompact) for every value up to 32 bytes, the hash <= target comparison, difficulty retargeting (four parent heights x six parent targets x arbitrary period timestamps) against pow.cpp, the BIP141 witness commitment rule and the coinbase rules (first and only coinbase, script length 2..100, BIP34 height push) of PostCheckBlock.",
             ref="6/C05", note=NOTE + "Testnet difficulty rules and the weight limit are not covered; PoW and required-bits are stubs with arbitrary results in PreCheckBlock. "),
 "C10": dict(text="Bounded model checking of the UTXO record codecs: serialize -> parse and single-output lookup round trips in the plain format for records of 1..2 (thorough 3) output slots and in the compressed format for records of 1..2 output slots (thorough: ten boundary amounts instead of four) "
                  "(each present or spent), scripts from eight families (arbitrary short, P2PKH/P2SH/compressed-P2PK templates with symbolic payload, same-length near misses, CompactSize-boundary lengths), symbolic txid/height/flags/values.",
             ref="6/C10", note=NOTE + "Outside: snapshot file I/O, uncompressed-key P2PK compression (curve arithmetic), more than 3 outputs. "),
 "C02": dict(text="Bounded model checking of the three signature-hash algorithms against reference preimages written from the original algorithm, BIP143 and BIP341/342: for every transaction "
                  "inside the shape bound with all field values, hash types, input index, script code, amounts, annex / leaf hash / code-separator position symbolic, the digest equals the reference "
                  "(hashes are ghost byte streams compared under an injectivity assumption); cache-order independence; no digest where the BIPs define none; signature removal from the script code (delSig) equals Core's FindAndDelete for every short script/signature and for signatures of every push-encoding class.",
             ref="6/C02", note=NOTE + "H-inj: SHA-256 treated as injective on the streams hashed along a path. ref_bip341 has no external vectors in this tree. "),
 "C18": dict(text="Bounded model checking of the peer-message handlers' parse/validate prefixes (message framing, version, inv, getdata, headers, getheaders/getblocks locators, getblocktxn, cmpctblock, blocktxn, addr, tx, pong, xauth, block) on every payload up to the "
                  "per-handler length from an arbitrary connection status: no escaping panic, no lock of the handler's lock set held at return, work proportional to the payload.",
             ref="6/C18", note=NOTE + "Senders, counters and deep callees (ProcessNewHeader, block store, mempool effects) are stubs with arbitrary results; listed per harness in the evidence. "),
 "C01": dict(text="Bounded model checking of the script interpreter's leaf predicates against transcriptions of Bitcoin Core's: script-number decode/encode, CastToBool, "
                  "BIP66 DER / low-S / hash-type gates, public-key encoding gates, minimal-push rule, opcode fetch, push-only, witness-program and P2SH templates, BIP112 CheckSequence; "
                  "every byte string up to the per-harness length bound, all flag subsets; one executed opcode of the real evalScript (about 80 opcodes: stack, arithmetic/comparison, reserved/disabled/unknown, hash, NOP, CLTV, CSV) "
                  "from an arbitrary stack of depth <= 4 against a reference step function (verdict and resulting stack); the BIP342 OP_SUCCESSx set; control flow (every script of up to 3 (4) opcodes over a 15-opcode alphabet with IF/NOTIF/ELSE/ENDIF, MINIMALIF, opcodes that fail unexecuted); "
                  "OP_CHECKSIG(VERIFY) and OP_CHECKMULTISIG(VERIFY) against interpreter.cpp with the ECDSA verdict an uninterpreted function (encoding gates, FindAndDelete/CONST_SCRIPTCODE, NULLFAIL, NULLDUMMY, operand limits, the key/signature matching walk); "
                  "VerifyTxScript orchestration (P2SH, native and nested witness programs, CLEANSTACK, SIGPUSHONLY, unexpected witness) and the witness-program dispatch (v0 key/script hash, taproot key/script path, annex, control-block sizes, leaf versions, upgradable versions) against VerifyScript / VerifyWitnessProgram.",
             ref="6/C01", note=NOTE + "The reference predicates and interpreters (ref_* in harness/lib/script) are hand transcriptions of Core's and are part of the trusted base. Where a harness uses uninterpreted verdicts (signature checks, witness script execution) it decides the composition around them, not the verdicts. The resource limits (201 opcodes, 1000 stack items, 520-byte pushes, 10000-byte scripts) are a concrete case split around each boundary. Tapscript execution (OP_SUCCESS, MINIMALIF, CHECKSIG/CHECKSIGADD with key types and validation weight) is decided for scripts of up to 2 (3) items with the Schnorr verdict uninterpreted. Outside: scripts longer than the bounds. "),
 "C15": dict(text="Bounded model checking of address coding: Base58 encode->decode for payloads of 0..3 and 25 bytes and decode->encode / alphabet refusal for strings of 1..2 characters; segwit address coding: encode->decode identity for every witness version / legal program length / program; refusal of illegal destinations; "
                  "decode->re-encode identity and BIP173/BIP350 rule conformance for every string of the tier's lengths, the v0 program-length rule at 42/44/46 characters (checksum reasoning by GF(2) elimination in the engine, everything else by z3).",
             ref="6/C15", note=NOTE + "The BCH checksum constraint is kept in solved form by the engine's GF(2) elimination; models are still produced and checked by the solver. "),
 "C09": dict(text="Bounded model checking of the wire codecs: CompactSize family over all uint64 / all byte strings up to 9 bytes; NewTx on every byte string up to 64 (thorough 84) bytes "
                  "(re-encoding identity, agreement with a transcription of Bitcoin Core's deserialiser in both directions, TxSize, sizes/weight, allocation monitor); NewBlock + BuildTxList on short blocks (header, transaction count, allocation) and the hashing path over two worker packs (txid, wtxid, coinbase marks, sizes, weight); "
                  "every path's assertions decided by z3 for all inputs of that path; counterexamples replayed on the native build.",
             ref="6/C09", note=NOTE),
}

na = {
 "C06": "the tip rule is decided by float64 work sums (MorePOW) over block-tree histories with blocks re-read from the disk store: floats and histories are outside this engine; only the single connect/disconnect step of the UTXO map (disconnecting restores what was spent and removes what was created) is decided, as part of C17's H_C17_Notifications (DESIGN.md 6/C06)",
 "C11": "quantifies over thread interleavings; the engine executes one sequential schedule (DESIGN.md 6/C11)",
 "C12": "invariant over histories of five mutually referencing global pointer maps and sorted lists whose ordering and replacement decisions are float64 fee-rate comparisons (SPW/SPB): a symbolic pre-state satisfying the pool's representation invariant cannot be built within this engine (pointer-rich heap, no symbolic floats), and enumerating concrete pools would not be solver-based checking (DESIGN.md 6/C12)",
 "C20": "the allocator hands out uintptr addresses inside mmap'ed pages and casts them to typed pointers; deciding it needs a raw-memory model (byte-addressed pages aliasing typed objects) that this go/ssa encoder does not have, and the routing arithmetic alone is not the property (DESIGN.md 0.3, 6/C20)",
}

checks = []
for pid in sorted(claimed):
    c = claimed[pid]
    checks.append({
        "property_id": pid,
        "quick_cmd": f"./check {pid} quick",
        "thorough_cmd": f"./check {pid} thorough",
        "evidence_file": f"/verif/evidence/{pid}.json",
        "replay_cmd_template": "cat {path}  # inputs of the counterexample; re-run: ./check " + pid + " quick",
        "engine": "gosym",
        "level_claimed": {"category": "model_checking", "text": c["text"], "design_ref": c["ref"]},
        "level_note": c["note"],
        "technique": TECH,
    })
m = {
 "version": 1,
 "setup_cmd": "./setup.sh",
 "hooks": {"guard": "verif", "enable": "harness files are injected with go/packages overlays and built with -tags=verif; nothing is written under /repo",
           "baseline_off_cmd": "cd /repo && GOFLAGS=-mod=mod go test -vet=off -count=1 ./...",
           "source_commits": [], "add_only": True},
 "engines": [{"name": "gosym", "path": "/verif/engine", "serves_properties": sorted(claimed),
              "kind_free_text": "forking symbolic interpreter over go/ssa emitting SMT-LIB2 to z3 (bit-vector and integer encodings), native replay of models"}],
 "checks": checks,
 "not_applicable": [{"property_id": k, "reason": v} for k, v in sorted(na.items()) if k not in claimed],
 "notes": "exit 0 = held within bounds; exit 1 + VIOLATION line = natively reproduced counterexample not listed in known_findings.json; exit 2 + INCONCLUSIVE = timeout/unwinding/unsupported (never reported as success).",
}
json.dump(m, open(os.path.join(V, "MANIFEST.json"), "w"), indent=1)
print("claimed:", sorted(claimed))
