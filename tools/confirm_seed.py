#!/usr/bin/env python3
# tools/confirm_seed.py <seed_out_dir> <seed_id> [caught_by]   — confirms a seeded change in a scratch worktree and files it under /verif/seeded/<seed_id>/
import json, os, re, shutil, subprocess, sys
out, sid = sys.argv[1], sys.argv[2]
caught = sys.argv[3] if len(sys.argv) > 3 else ""
env = dict(os.environ, GOFLAGS="-mod=mod", GOPROXY="off", GOSUMDB="off", GOTOOLCHAIN="local")
wt = "/tmp/wt_confirm"
def sh(cmd, cwd=None, timeout=1200):
    p = subprocess.run(cmd, shell=True, cwd=cwd, env=env, stdout=subprocess.PIPE, stderr=subprocess.STDOUT, text=True, timeout=timeout)
    return p.returncode, p.stdout
if os.path.exists(wt):
    sh(f"git -C /repo worktree remove --force {wt}")
rc, o = sh(f"git -C /repo worktree add --detach {wt} HEAD")
assert rc == 0, o
meta = json.load(open(os.path.join(out, "meta.json")))
cmd = meta["demo_cmd"]
m = re.search(r"-run\s+'?\^?([A-Za-z0-9_|]+)\$?'?", cmd)
pat = m.group(1)
pkg = re.findall(r"(\./[A-Za-z0-9_/]+)/?\s*$", cmd.strip())[0].rstrip("/")
res = {}
try:
    rc, o = sh(f"git apply {out}/patch.diff", cwd=wt)
    res["applies"] = rc == 0
    assert rc == 0, o
    rc, o = sh("go build ./lib/... ./wallet/... ./client/network/ 2>&1 | grep -v 'cgo\\|sipa\\|membind\\|secp256k1.h\\|include\\|compilation\\|\\^~\\|^#' ", cwd=wt)
    res["compiles"] = "error" not in o.lower() and ": undefined" not in o
    rc, o = sh("go test -vet=off -count=1 ./lib/... ./wallet/... 2>&1 | grep -E '^(ok|FAIL|---)' ", cwd=wt)
    fails = [l for l in o.splitlines() if l.startswith("--- FAIL") or (l.startswith("FAIL") and "build failed" not in l and l.strip() != "FAIL")]
    fails = [l for l in fails if "TestTaprootScritps" not in l and "lib/script" not in l.split("\t")[1:2]]
    res["existing_tests_pass_with_change"] = len([l for l in fails if l.startswith("--- FAIL")]) == 0
    res["existing_test_failures"] = fails
    shutil.copy(os.path.join(out, "demo_test.go"), os.path.join(wt, pkg, "zz_demo_test.go"))
    rc, o = sh(f"timeout 300 go test -vet=off -count=1 -run '{pat}' {pkg}/", cwd=wt)
    res["demo_fails_with_change"] = rc != 0
    res["demo_with_change_tail"] = o[-400:]
    sh("git checkout -- .", cwd=wt)
    rc, o = sh(f"timeout 300 go test -vet=off -count=1 -run '{pat}' {pkg}/", cwd=wt)
    res["demo_passes_without_change"] = rc == 0
finally:
    sh(f"git -C /repo worktree remove --force {wt}")
ok = all(res.get(k) for k in ("applies", "compiles", "existing_tests_pass_with_change", "demo_fails_with_change", "demo_passes_without_change"))
print(sid, "CONFIRMED" if ok else "NOT CONFIRMED", {k: v for k, v in res.items() if k not in ("demo_with_change_tail",)})
if ok:
    d = f"/verif/seeded/{sid}"
    os.makedirs(d, exist_ok=True)
    shutil.copy(os.path.join(out, "patch.diff"), d)
    shutil.copy(os.path.join(out, "demo_test.go"), d)
    meta["confirmed"] = res
    meta["demo_pkg_dir"] = pkg
    meta["what_i_ran"] = "tools/confirm_seed.py: scratch worktree of /repo HEAD; git apply; go build; go test ./lib/... ./wallet/... (same failures as baseline); demo fails with the change and passes without; then tools/seedtest.sh <patch> <property> against /repo"
    if caught:
        meta["check_result"] = caught
    json.dump(meta, open(os.path.join(d, "meta.json"), "w"), indent=1)
