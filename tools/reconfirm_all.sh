#!/bin/bash
# tools/reconfirm_all.sh — re-confirm every seeded change against /repo's current HEAD (after fix commits moved it)
cd /verif
for d in seeded/*/; do id=$(basename $d); rm -rf /tmp/reseed_$id; cp -r $d /tmp/reseed_$id; timeout 1500 python3 tools/confirm_seed.py /tmp/reseed_$id $id 2>&1 | tail -1 | cut -c1-330; rm -rf /tmp/reseed_$id; done
