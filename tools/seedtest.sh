#!/bin/bash
# tools/seedtest.sh <patch.diff> <property> [extra check args]  — applies a seeded change to /repo, runs the check, reverts.
P=$1; PROP=$2; shift 2
cd /repo || exit 9
if [ -n "$(git status --porcelain)" ]; then echo "repo not clean"; exit 9; fi
git apply "$P" || { echo "patch does not apply"; exit 9; }
cd /verif && timeout 1500 ./check $PROP quick "$@" 2>/dev/null | grep -E "^(VIOLATION|INCONCLUSIVE|RESULT|KNOWN)" | cut -c1-300
cd /repo && git checkout -- . && git status --porcelain | head -3
