#!/bin/bash
# Builds the symbolic engine from files on disk only (vendored x/tools v0.29.0).
set -e
cd "$(dirname "$0")/engine"
export GOFLAGS=-mod=vendor GOPROXY=off GOSUMDB=off GOTOOLCHAIN=local CGO_ENABLED=0
mkdir -p ../bin ../evidence ../replays
go build -o ../bin/gosym .
echo "gosym built: $(ls -la ../bin/gosym | awk '{print $5}') bytes"
