//go:build verif

package network

import (
	"time"
	"net"
	"crypto/cipher"
	"crypto/aes"
	"github.com/piotrnar/gocoin/lib/secp256k1"
	"github.com/piotrnar/gocoin/lib/others/qdb"
	"github.com/piotrnar/gocoin/lib/others/siphash"
	"os"
	"bytes"
	"errors"

	"github.com/piotrnar/gocoin/client/common"
	"github.com/piotrnar/gocoin/client/peersdb"
	"github.com/piotrnar/gocoin/client/txpool"
	"github.com/piotrnar/gocoin/lib/btc"
	"github.com/piotrnar/gocoin/lib/chain"
	"github.com/piotrnar/gocoin/lib/others/zzverif"
)

// h_conn builds a connection the way NewConnection does, with an arbitrary (symbolic) status.
func h_conn() *OneConnection {
	if common.BlockChain == nil {
		// a running node always has these; an empty chain object is enough for the parse prefixes
		common.BlockChain = new(chain.Chain)
		common.BlockChain.Blocks = new(chain.BlockDB)
	}
	ad := new(peersdb.PeerAddr)
	copy(ad.Ip4[:], zzverif.Bytes("peer.ip4", 4))
	c := NewConnection(ad)
	c.X.IsSpecial = zzverif.Bool("X.IsSpecial")
	c.X.VersionReceived = zzverif.Bool("X.VersionReceived")
	c.X.AllHeadersReceived = zzverif.Bool("X.AllHeadersReceived")
	c.X.Authorized = false
	c.X.Debug = false
	c.Node.Height = zzverif.U32("Node.Height")
	c.Node.Version = zzverif.U32("Node.Version")
	return c
}

// h_stubs replaces senders, counters and other global effects by no-ops (engine only).
func h_stubs() {
	zzverif.Replace("(*network.OneConnection).SendRawMsg", func(c *OneConnection, cmd string, pl []byte, encrypt bool) error {
		zzverif.Event("send:" + cmd)
		return nil
	})
	zzverif.Replace("common.CountSafe", func(k string) {})
	zzverif.Replace("common.CountSafeAdd", func(k string, v uint64) {})
	zzverif.Replace("common.CountSafePar", func(k string, v interface{}) {})
}

// h_locks_free asserts that none of the locks a handler touches is still held.
func h_locks_free(c *OneConnection, label string) {
	zzverif.Assert(label+".c.Mutex", !zzverif.MutexHeld(&c.Mutex))
	zzverif.Assert(label+".Mutex_net", !zzverif.MutexHeld(&Mutex_net))
	zzverif.Assert(label+".MutexRcv", !zzverif.MutexHeld(&MutexRcv))
	zzverif.Assert(label+".ExternalIpMutex", !zzverif.MutexHeld(&ExternalIpMutex))
	zzverif.Assert(label+".FriendsAccess", !zzverif.MutexHeld(&FriendsAccess))
	zzverif.Assert(label+".CounterMutex", !zzverif.MutexHeld(&common.CounterMutex))
}

// C18: "version" handler on every payload up to the tier's length, from an arbitrary connection status.
func H_C18_HandleVersion() {
	h_stubs()
	maxL := 92
	if zzverif.Tier() == 1 {
		maxL = 140
	}
	zzverif.Bound("version payload", "every byte string of length 0..maxL (92 quick / 140 thorough) and of length 345 (quick) / 200, 337, 345, 346, 600 (thorough)")
	c := h_conn()
	// every length up to maxL, plus a few long payloads (user agents beyond 253 and 256 bytes)
	long := []int{345}
	if zzverif.Tier() == 1 {
		long = []int{200, 337, 345, 346, 600}
	}
	li := zzverif.Len("L", 0, maxL+len(long))
	L := li
	if li > maxL {
		L = long[li-maxL-1]
	}
	pl := zzverif.Bytes("pl", L)
	panicked := zzverif.Panics(func() { c.HandleVersion(pl) })
	zzverif.Assert("C18.version.nopanic", !panicked)
	h_locks_free(c, "C18.version.unlocked")
	if c.X.VersionReceived && L >= 86 {
		zzverif.Reach("parsed-with-agent")
	}
}

// C18: "inv" handler.
func H_C18_ProcessInv() {
	h_stubs()
	zzverif.Replace("(*network.OneConnection).TxInvNotify", func(c *OneConnection, hash []byte) { zzverif.Event("txinv") })
	zzverif.Replace("(*network.OneConnection).ReceiveHeadersNow", func(c *OneConnection) {})
	c := h_conn()
	maxL := 80
	if zzverif.Tier() == 1 {
		maxL = 120
	}
	L := zzverif.Len("L", 0, maxL)
	pl := zzverif.Bytes("pl", L)
	panicked := zzverif.Panics(func() { c.ProcessInv(pl) })
	zzverif.Assert("C18.inv.nopanic", !panicked)
	h_locks_free(c, "C18.inv.unlocked")
	if len(c.InvDone.History) == 2 {
		zzverif.Reach("two-invs")
	}
}

// C18: block-locator payload parser (getheaders / getblocks).
func H_C18_Locators() {
	maxL := 110
	if zzverif.Tier() == 1 {
		maxL = 180
	}
	zzverif.AllocLimit(4096)
	L := zzverif.Len("L", 0, maxL)
	pl := zzverif.Bytes("pl", L)
	var hs []*btc.Uint256
	var stop *btc.Uint256
	var er error
	panicked := zzverif.Panics(func() { hs, stop, er = parseLocatorsPayload(pl) })
	zzverif.Assert("C18.locators.nopanic", !panicked)
	if er == nil {
		zzverif.Reach("parsed")
		zzverif.Assert("C18.locators.result", stop != nil && len(hs)*32 <= L)
		for _, h := range hs {
			zzverif.Assert("C18.locators.nonnil", h != nil)
		}
	}
}

// C18: "getdata": the length/count consistency gate and the inventory loop (responses stubbed).
func H_C18_GetData() {
	h_stubs()
	zzverif.Replace("(*network.OneConnection).SendingPaused", func(c *OneConnection) bool { return zzverif.Bool("paused") })
	zzverif.Replace("(*chain.BlockDB).BlockGetExt", func(db *chain.BlockDB, h *btc.Uint256) (*chain.BlckCachRec, bool, error) {
		return nil, false, errors.New("stub: block not stored")
	})
	c := h_conn()
	if zzverif.Bool("unfinished") {
		c.unfinished_getdata = new(bytes.Buffer)
	}
	maxL := 80
	if zzverif.Tier() == 1 {
		maxL = 120
	}
	L := zzverif.Len("L", 0, maxL)
	pl := zzverif.Bytes("pl", L)
	// only block/unknown inventory types here: the transaction branch reads the mempool (C12, outside)
	panicked := zzverif.Panics(func() { c.ProcessGetData(pl) })
	zzverif.Assert("C18.getdata.nopanic", !panicked)
	h_locks_free(c, "C18.getdata.unlocked")
	zzverif.Assert("C18.getdata.TxMutex", !zzverif.MutexHeld(&txpool.TxMutex))
	if len(c.InvDone.History) == 2 {
		zzverif.Reach("two-items")
	}
}

// C18: "headers": count / truncation handling with the per-header processing stubbed to an arbitrary verdict.
func H_C18_Headers() {
	h_stubs()
	zzverif.Replace("(*network.OneConnection).ProcessNewHeader", func(c *OneConnection, hdr []byte) (int, *OneBlockToGet) {
		zzverif.Event("hdr")
		return 3 + zzverif.Enum("hdr.status", 3), nil // OLD, ERROR, FATAL
	})
	c := h_conn()
	maxL := 170
	if zzverif.Tier() == 1 {
		maxL = 250
	}
	L := zzverif.Len("L", 0, maxL)
	pl := zzverif.Bytes("pl", L)
	panicked := zzverif.Panics(func() { c.HandleHeaders(pl) })
	zzverif.Assert("C18.headers.nopanic", !panicked)
	h_locks_free(c, "C18.headers.unlocked")
	zzverif.Assert("C18.headers.work", zzverif.EventCount("hdr")*81 <= L)
	if zzverif.EventCount("hdr") == 2 {
		zzverif.Reach("two-headers")
	}
}

// C18: "getblocktxn" on a cached block with two transactions.
func H_C18_GetBlockTxn() {
	h_stubs()
	blk := new(btc.Block)
	blk.Txs = []*btc.Tx{{Raw: []byte{1}}, {Raw: []byte{2}}}
	known := zzverif.Bool("block.known")
	zzverif.Replace("network.GetchBlockForBIP152", func(h *btc.Uint256) *chain.BlckCachRec {
		if known {
			return &chain.BlckCachRec{Block: blk}
		}
		return nil
	})
	c := h_conn()
	c.Node.SendCmpctVer = 2
	maxL := 60
	L := zzverif.Len("L", 0, maxL)
	pl := zzverif.Bytes("pl", L)
	if !zzverif.Symbolic() && known && L >= 32 {
		// native realiser of the stubbed block lookup: a real block store holding a block of two transactions, asked for by its hash
		dir, _ := os.MkdirTemp("", "zzverif_c18_")
		defer os.RemoveAll(dir)
		db := chain.NewBlockDBExt(dir, nil)
		tx := func(lock byte) []byte {
			t := []byte{1, 0, 0, 0, 1}
			t = append(t, make([]byte, 36)...)
			t = append(t, 0, 0xff, 0xff, 0xff, 0xff, 1)
			t = append(t, make([]byte, 8)...)
			return append(t, 0, lock, 0, 0, 0)
		}
		raw := append(make([]byte, 80), 2)
		raw = append(append(raw, tx(1)...), tx(2)...)
		if bl, er := btc.NewBlock(raw); er == nil && bl.BuildTxList() == nil {
			old := common.BlockChain.Blocks
			common.BlockChain.Blocks = db
			defer func() { common.BlockChain.Blocks = old }()
			db.BlockAdd(1, bl)
			copy(pl[:32], bl.Hash.Hash[:])
		}
	}
	panicked := zzverif.Panics(func() { c.ProcessGetBlockTxn(pl) })
	zzverif.Assert("C18.getblocktxn.nopanic", !panicked)
	h_locks_free(c, "C18.getblocktxn.unlocked")
	if zzverif.EventCount("send:blocktxn") == 1 {
		zzverif.Reach("answered")
	}
}

// C18: "cmpctblock": short-id list, prefilled transactions (differentially encoded indexes) and the
// mempool matching loop, with the header verdict stubbed to "new block to get" and an empty mempool.
func H_C18_CmpctBlock() {
	h_stubs()
	b2g := new(OneBlockToGet)
	b2g.Block = new(btc.Block)
	b2g.Block.Raw = make([]byte, 80)
	b2g.Block.Hash = btc.NewUint256(make([]byte, 32))
	zzverif.Replace("(*network.OneConnection).ProcessNewHeader", func(c *OneConnection, hdr []byte) (int, *OneBlockToGet) {
		if zzverif.Bool("hdr.rejected") {
			return 4 + zzverif.Enum("hdr.status", 2), nil
		}
		return PH_STATUS_NEW, b2g
	})
	// the "all transactions known" tail (block assembly and PostCheckBlock) is outside this harness
	zzverif.Replace("(*network.CmpctBlockCollector).Assemble", func(col *CmpctBlockCollector) []byte { zzverif.Assume(false); return nil })
	common.CFG.Net.MaxBlockAtOnce = 10
	c := h_conn()
	c.Node.SendCmpctVer = 2
	zzverif.LoopBound("btc.TxSize", 1)
	zzverif.LoopBound("(*network.OneConnection).ProcessCmpctBlock", 2+zzverif.Tier())
	zzverif.Bound("cmpctblock shape", "short ids + prefilled transactions <= 2 (quick) / 3 (thorough); prefilled transactions with <= 1 input/output")
	maxL := 114
	if zzverif.Tier() == 1 {
		maxL = 170
	}
	zzverif.AllocLimit(1 << 18)
	L := zzverif.Len("L", 0, maxL)
	pl := zzverif.Bytes("pl", L)
	cmd := &BCmsg{cmd: "cmpctblock", pl: pl}
	if !zzverif.Symbolic() && L >= 80 {
		// native replay: realise the stubbed header verdict through the real tables
		bl, _ := btc.NewBlock(pl[:80])
		if zzverif.Bool("hdr.rejected") {
			DiscardedBlocks[bl.Hash.BIdx()] = true
		} else {
			BlocksToGet[bl.Hash.BIdx()] = b2g
		}
	}
	panicked := zzverif.Panics(func() { c.ProcessCmpctBlock(cmd) })
	zzverif.Assert("C18.cmpctblock.nopanic", !panicked)
	h_locks_free(c, "C18.cmpctblock.unlocked")
	zzverif.Assert("C18.cmpctblock.TxMutex", !zzverif.MutexHeld(&txpool.TxMutex))
	if zzverif.EventCount("send:getblocktxn") == 1 {
		zzverif.Reach("asked-for-missing")
	}
}

// C18: "blocktxn": the reply to our getblocktxn for a compact block with one transaction missing. Payload = the
// block hash we asked for + every byte string of the length bound. The short-id function is a stub with the two
// possible outcomes (the delivered transaction is / is not the missing one).
func H_C18_BlockTxn() {
	h_stubs()
	var hash [32]byte
	for i := range hash {
		hash[i] = 0x11
	}
	const sid = 0x0000123456789abc
	col := &CmpctBlockCollector{Header: make([]byte, 80), Sid2idx: map[uint64]int{sid: 1}, K0: 1, K1: 2, Missing: 1}
	known := []byte{1, 0, 0, 0, 1}
	known = append(known, make([]byte, 36)...)
	known = append(known, 1, 0x51, 0xff, 0xff, 0xff, 0xff, 1, 0, 0, 0, 0, 0, 0, 0, 0, 1, 0x51, 0, 0, 0, 0)
	col.Txs = []interface{}{known, uint64(sid)}
	c := h_conn()
	idx := btc.NewUint256(hash[:]).BIdx()
	if zzverif.Bool("no-compact-block-collector") {
		c.GetBlockInProgress[idx] = &oneBlockDl{hash: btc.NewUint256(hash[:])} // the block was asked for with a plain getdata
	} else {
		c.GetBlockInProgress[idx] = &oneBlockDl{hash: btc.NewUint256(hash[:]), col: col}
	}
	b2g := new(OneBlockToGet)
	b2g.Block, _ = btc.NewBlock(make([]byte, 80))
	b2g.Block.Hash = btc.NewUint256(hash[:])
	BlocksToGet[idx] = b2g
	defer delete(BlocksToGet, idx)
	delete(ReceivedBlocks, idx)
	sidKnown := zzverif.Bool("short-id.known")
	maxR := 64
	zzverif.LoopBound("btc.TxSize", 1)
	zzverif.Bound("blocktxn payload", "our block hash + every byte string of 0..64 bytes (count + at most one transaction of <= 1 input/output)")
	R := zzverif.Len("rest", 0, maxR)
	pl := append(append([]byte{}, hash[:]...), zzverif.Bytes("rest", R)...)
	if zzverif.Symbolic() {
		zzverif.Stub("siphash.Hash: the missing transaction's short id or another value; (*chain.Chain).PostCheckBlock: refuses")
		zzverif.Replace("siphash.Hash", func(k0, k1 uint64, p []byte) uint64 {
			if sidKnown {
				return sid
			}
			return sid ^ 1
		})
		zzverif.Replace("(*chain.Chain).PostCheckBlock", func(ch *chain.Chain, bl *btc.Block) error { return errors.New("stub") })
		zzverif.Replace("os.WriteFile", func(name string, data []byte, perm os.FileMode) error { return nil })
	} else {
		// native realiser: the short id of the delivered transaction under the real siphash; work in a scratch directory
		// (a refused assembled block is dumped to <hash>.bin in the current directory)
		dir, _ := os.MkdirTemp("", "zzverif_c18_")
		old, _ := os.Getwd()
		os.Chdir(dir)
		defer func() { os.Chdir(old); os.RemoveAll(dir) }()
		if cnt, n := btc.VLen(pl[32:]); n > 0 && cnt >= 0 && 32+n < len(pl) && sidKnown {
			if sz := btc.TxSize(pl[32+n:]); sz > 0 {
				var h btc.Uint256
				h.Calc(pl[32+n : 32+n+sz])
				delete(col.Sid2idx, sid)
				col.Sid2idx[siphash.Hash(col.K0, col.K1, h.Hash[:])&0xffffffffffff] = 1
			}
		}
	}
	cmd := &BCmsg{cmd: "blocktxn", pl: pl}
	panicked := zzverif.Panics(func() { c.ProcessBlockTxn(cmd) })
	zzverif.Assert("C18.blocktxn.nopanic", !panicked)
	h_locks_free(c, "C18.blocktxn.unlocked")
	if _, still := col.Txs[1].(uint64); !still {
		zzverif.Reach("filled")
	}
}

// h_all_locks_free: the handler's named locks plus (under the engine) every other mutex of any package.
func h_all_locks_free(c *OneConnection, label string) {
	h_locks_free(c, label)
	zzverif.Assert(label+".TxMutex", !zzverif.MutexHeld(&txpool.TxMutex))
	free := zzverif.MutexesHeld() == 0
	if !zzverif.Symbolic() {
		// natively: the mutexes of other packages that cannot be named are probed through their Lock functions
		done := make(chan bool, 1)
		go func() { peersdb.Lock(); peersdb.Unlock(); done <- true }()
		select {
		case <-done:
		case <-time.After(300 * time.Millisecond):
			free = false
		}
	}
	zzverif.Assert(label+".any-mutex", free)
}

// C18: "addr": count + 30-byte records; the peers database is a stub (arbitrary size, record present or not).
func H_C18_Addr() {
	h_stubs()
	c := h_conn()
	cnt := int(zzverif.Range64("peerdb.count", 100000))
	if zzverif.Symbolic() {
		zzverif.Stub("(*qdb.DB).Count / Get / Put: arbitrary size, arbitrary known record or none, no effect (natively: a real store filled with that many records)")
		zzverif.Replace("(*qdb.DB).Count", func(db *qdb.DB) int { return cnt })
		zzverif.Replace("(*qdb.DB).Get", func(db *qdb.DB, k qdb.KeyType) []byte {
			if zzverif.Bool("peerdb.has") {
				return zzverif.Bytes("peerdb.rec", 30)
			}
			return nil
		})
		zzverif.Replace("(*qdb.DB).Put", func(db *qdb.DB, k qdb.KeyType, v []byte) {})
	} else {
		dir, _ := os.MkdirTemp("", "zzverif_c18_")
		defer os.RemoveAll(dir)
		old := peersdb.PeerDB
		var db *qdb.DB
		qdb.NewDBExt(&db, &qdb.NewDBOpts{Dir: dir + "/peers3", Volatile: true})
		peersdb.PeerDB = db
		defer func() { peersdb.PeerDB = old }()
		// native realiser of the stubbed size: that many records (in memory: the store is opened volatile)
		rec := make([]byte, 30)
		for i := 0; i < cnt; i++ {
			peersdb.PeerDB.Put(qdb.KeyType(uint64(i)|1<<62), rec)
		}
	}
	maxL := 35 + 29*zzverif.Tier()
	zzverif.Bound("addr payload", "every byte string of 0..35 and of 61 bytes (quick) / 0..64 bytes (thorough): count + up to 2 records")
	L := zzverif.Len("L", 0, maxL+1-zzverif.Tier())
	if L == maxL+1 {
		L = 61
	}
	pl := zzverif.Bytes("pl", L)
	panicked := zzverif.Panics(func() { c.ParseAddr(pl) })
	zzverif.Assert("C18.addr.nopanic", !panicked)
	h_all_locks_free(c, "C18.addr.unlocked")
	zzverif.Assert("C18.addr.work", zzverif.EventCount("send:addr") == 0)
	if L >= 61 {
		zzverif.Reach("two-records")
	}
}

// C18: "pong" for every payload of 0..16 bytes against an arbitrary ping in progress.
func H_C18_Pong() {
	h_stubs()
	c := h_conn()
	if zzverif.Bool("ping.in-progress") {
		c.PingInProgress = zzverif.Bytes("ping.nonce", 8)
	}
	c.X.GetHeadersInProgress = zzverif.Bool("X.GetHeadersInProgress")
	c.X.PingSentCnt = zzverif.U64("X.PingSentCnt")
	c.X.GetHeadersSentAtPingCnt = zzverif.U64("X.GetHeadersSentAtPingCnt")
	L := zzverif.Len("L", 0, 16)
	pl := zzverif.Bytes("pl", L)
	panicked := zzverif.Panics(func() { c.HandlePong(pl) })
	zzverif.Assert("C18.pong.nopanic", !panicked)
	if c.PingInProgress == nil {
		zzverif.Reach("ping-cleared")
	}
	h_all_locks_free(c, "C18.pong.unlocked")
	zzverif.Assert("C18.pong.history-index", c.X.PingHistoryIdx >= 0 && c.X.PingHistoryIdx < PingHistoryLength)
}

// C18: "tx": every payload up to the bound; the mempool's need-this-transaction verdict is arbitrary.
func H_C18_Tx() {
	h_stubs()
	c := h_conn()
	zzverif.LoopBound("btc.NewTx", 1)
	zzverif.LoopBound("btc.NewTxIn", 2)
	zzverif.LoopBound("btc.NewTxOut", 2)
	if zzverif.Symbolic() {
		zzverif.Stub("txpool.NeedThisTxExt: arbitrary verdict, callback run when wanted")
		zzverif.Replace("txpool.NeedThisTxExt", func(id *btc.Uint256, cb func()) int {
			w := zzverif.Enum("need-tx", 5)
			if w == 0 && cb != nil {
				txpool.TxMutex.Lock()
				cb()
				txpool.TxMutex.Unlock()
			}
			return w
		})
	}
	maxL := 70 + 40*zzverif.Tier()
	zzverif.AllocLimit(1 << 16)
	zzverif.Bound("tx payload", "every byte string of 0..70 (110) bytes; transactions of <= 1 input / 1 output")
	L := zzverif.Len("L", 0, maxL)
	pl := zzverif.Bytes("pl", L)
	cmd := &BCmsg{cmd: "tx", pl: pl}
	panicked := zzverif.Panics(func() { c.ParseTxNet(cmd) })
	zzverif.Assert("C18.tx.nopanic", !panicked)
	h_all_locks_free(c, "C18.tx.unlocked")
	// drain what the handler queued (native runs share the channel)
	for len(NetTxs) > 0 {
		<-NetTxs
		zzverif.Reach("queued")
	}
}

// C18: "xauth": 33-byte key + DER signature + optional last-block fields, every payload up to the bound. The ECDH
// multiplication and the signature verdict are arbitrary; one authorised key is configured.
func H_C18_XAuth() {
	h_stubs()
	c := h_conn()
	c.X.AuthMsgGot = zzverif.Bool("X.AuthMsgGot")
	key := append([]byte{2}, bytes.Repeat([]byte{0x33}, 32)...)
	oldKeys := AuthPubkeys
	AuthPubkeys = [][]byte{key}
	defer func() { AuthPubkeys = oldKeys }()
	if common.Last.Block == nil {
		common.Last.Block = new(chain.BlockTreeNode)
	}
	if zzverif.Symbolic() {
		zzverif.Stub("secp256k1.Multiply, (*secp256k1.XY).ParsePubkey, (*secp256k1.Signature).Verify: arbitrary verdicts; common.ApplyLTB: no effect")
		zzverif.Replace("secp256k1.Multiply", func(xy, k, out []byte) bool { return zzverif.Bool("ecdh.ok") })
		zzverif.Replace("(*secp256k1.XY).ParsePubkey", func(p *secp256k1.XY, b []byte) bool { return true })
		zzverif.Replace("(*secp256k1.Signature).Verify", func(s *secp256k1.Signature, k *secp256k1.XY, m *secp256k1.Number) bool {
			return zzverif.Bool("sig.ok")
		})
		zzverif.Replace("common.ApplyLTB", func(h *btc.Uint256, height uint32) {})
	}
	maxL := 33 + 10 + 40*zzverif.Tier()
	zzverif.Bound("xauth payload", "every byte string of 0..43 (83) bytes and the configured key followed by every string of 0..46 bytes (signatures with 1-byte R and S, then hash and height)")
	var pl []byte
	if zzverif.Bool("known-key") {
		R := zzverif.Len("rest", 0, 46)
		pl = append(append([]byte{}, key...), zzverif.Bytes("rest", R)...)
	} else {
		L := zzverif.Len("L", 0, maxL)
		pl = zzverif.Bytes("pl", L)
	}
	panicked := zzverif.Panics(func() { c.AuthRvcd(pl) })
	zzverif.Assert("C18.xauth.nopanic", !panicked)
	h_all_locks_free(c, "C18.xauth.unlocked")
	zzverif.Assert("C18.xauth.cfg-lock", !zzverif.MutexHeld(&common.Last.Mutex))
	if c.X.Authorized {
		zzverif.Reach("authorised")
	}
}

// C18: "block": lock discipline and bookkeeping of the block receiver on every payload of 0..120 bytes, with the
// header verdict and the block check arbitrary (what PostCheckBlock decides is C05/C09's subject).
func H_C18_NetBlock() {
	h_stubs()
	c := h_conn()
	b2g := new(OneBlockToGet)
	b2g.Block, _ = btc.NewBlock(make([]byte, 80))
	b2g.BlockTreeNode = new(chain.BlockTreeNode)
	if !zzverif.Symbolic() {
		return // the stubbed header and block verdicts have no native counterpart
	}
	zzverif.Stub("(*OneConnection).ProcessNewHeader, (*chain.Chain).PostCheckBlock: arbitrary verdicts; DeleteBranch, queueNewBlock: no effect")
	zzverif.Replace("(*network.OneConnection).ProcessNewHeader", func(c *OneConnection, hdr []byte) (int, *OneBlockToGet) {
		if zzverif.Bool("hdr.rejected") {
			return 4 + zzverif.Enum("hdr.status", 2), nil
		}
		return PH_STATUS_NEW, b2g
	})
	zzverif.Replace("(*chain.Chain).PostCheckBlock", func(ch *chain.Chain, bl *btc.Block) error {
		switch zzverif.Enum("postcheck", 3) {
		case 0:
			return nil
		case 1:
			return errors.New("RPC_Result:bad-witness-nonce-size")
		}
		return errors.New("bad block")
	})
	zzverif.Replace("(*chain.Chain).DeleteBranch", func(ch *chain.Chain, n *chain.BlockTreeNode, cb func(*btc.Uint256)) {})
	zzverif.Replace("network.queueNewBlock", func(b *BlockRcvd) { zzverif.Event("queued") })
	zzverif.Replace("(*btc.Block).MerkleRootMatch", func(bl *btc.Block) bool { return zzverif.Bool("merkle.match") })
	L := zzverif.Len("L", 0, 120)
	if L > 4 && L < 96 {
		zzverif.Assume(false) // short payloads are refused by length alone: a few of them are enough
	}
	pl := zzverif.Bytes("pl", L)
	cmd := &BCmsg{cmd: "block", pl: pl, trusted: zzverif.Bool("trusted")}
	panicked := zzverif.Panics(func() { c.netBlockReceived(cmd) })
	zzverif.Assert("C18.block.nopanic", !panicked)
	h_all_locks_free(c, "C18.block.unlocked")
	if zzverif.EventCount("queued") == 1 {
		zzverif.Reach("queued")
	}
}

// C18: message framing (FetchMessage): a 24-byte header with our magic, a command from a case split, a length
// field from a case split that includes the "encrypted" bit and over-size values, an arbitrary checksum verdict,
// followed by an arbitrary payload of up to 64 bytes. The socket delivers whatever each read asks for.
func H_C18_Framing() {
	h_stubs()
	c := h_conn()
	cmds := []string{"version", "inv", "block", "zzunknown", ""}
	cmd := cmds[zzverif.Enum("cmd", len(cmds))]
	lens := []uint32{0, 1, 33, 64, 0x80000000, 0x80000001, 0x80000040, 1800010, 4000001, 0x7fffffff, 0xffffffff}
	lenField := lens[zzverif.Enum("length-field", len(lens))]
	zzverif.Bound("framing", "commands version/inv/block/unknown/empty; length fields 0, 1, 33, 64, 0x80000000, 0x80000001, 0x80000040, 1800010, 4000001, 0x7fffffff, 0xffffffff; payload bytes arbitrary (at most 64 delivered); checksum right or wrong; with and without an encryption context")
	plen := int(lenField & 0x7fffffff)
	if plen > 64 {
		plen = 64
	}
	payload := zzverif.Bytes("payload", plen)
	sum := btc.Sha2Sum(payload)
	if !zzverif.Bool("checksum.ok") {
		sum[0] ^= 1
	}
	if zzverif.Bool("has-aes-context") {
		blk, _ := aes.NewCipher(make([]byte, 32))
		gcm, _ := cipher.NewGCM(blk)
		c.aesData = &aesData{Block: blk, AEAD: gcm, nonceSize: gcm.NonceSize()}
	}
	wire := append([]byte{}, common.Magic[:]...)
	var cmdb [12]byte
	copy(cmdb[:], cmd)
	wire = append(wire, cmdb[:]...)
	wire = append(wire, byte(lenField), byte(lenField>>8), byte(lenField>>16), byte(lenField>>24))
	wire = append(wire, sum[:4]...)
	wire = append(wire, payload...)
	if zzverif.Symbolic() {
		zzverif.Stub("common.SockRead delivers the next bytes of the wire image, as many as asked for; (*OneConnection).Decrypt: arbitrary failure or the ciphertext as plaintext")
		pos := 0
		zzverif.Replace("common.SockRead", func(con net.Conn, b []byte) (int, error) {
			n := copy(b, wire[pos:])
			pos += n
			return n, nil
		})
		zzverif.Replace("(*network.OneConnection).Decrypt", func(c *OneConnection, ct []byte) ([]byte, error) {
			if zzverif.Bool("decrypt.fails") {
				return nil, errors.New("stub")
			}
			return ct, nil
		})
	} else {
		a, b := net.Pipe()
		c.Conn = a
		done := make(chan bool)
		go func() { b.Write(wire); <-done; b.Close() }()
		defer func() { close(done); a.Close() }()
	}
	zzverif.AllocLimit(4 << 20)
	var got *BCmsg
	panicked := zzverif.Panics(func() {
		for i := 0; i < 3 && got == nil; i++ {
			got, _ = c.FetchMessage()
		}
	})
	zzverif.Assert("C18.framing.nopanic", !panicked)
	h_all_locks_free(c, "C18.framing.unlocked")
	if got != nil {
		zzverif.Reach("message")
		zzverif.Assert("C18.framing.command", got.cmd == cmd)
		zzverif.Assert("C18.framing.length", int(lenField&0x7fffffff) == plen)
		zzverif.Assert("C18.framing.trusted-only-if-authorised", !got.trusted || c.X.Authorized)
	}
}
