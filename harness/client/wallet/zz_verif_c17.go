//go:build verif

package wallet

import (
	"encoding/binary"

	"github.com/piotrnar/gocoin/client/common"
	"github.com/piotrnar/gocoin/lib/others/zzverif"
	"github.com/piotrnar/gocoin/lib/utxo"
)

type h_out struct {
	inp   OneAllAddrInp
	value uint64
}

func h_inp(tx byte, vout uint32) (r OneAllAddrInp) {
	r[0] = tx
	binary.LittleEndian.PutUint32(r[utxo.UtxoIdxLen:], vout)
	return
}

func h_txid(tx byte) (id [32]byte) {
	id[0] = tx
	return
}

// h_check_projection: the index record of one address equals the expected set of outputs and their sum
func h_check_projection(label string, idx int, script []byte, want []h_out) {
	_, uidx := Script2Idx(script)
	rec := allBalances[idx][uidx]
	if len(want) == 0 {
		zzverif.Assert(label+".no-record-when-empty", rec == nil)
		return
	}
	zzverif.Assert(label+".record-exists", rec != nil)
	zzverif.Assert(label+".count", rec.Count() == len(want))
	var sum uint64
	for _, w := range want {
		sum += w.value
		found := false
		rec.Browse(func(v *OneAllAddrInp) {
			if *v == w.inp {
				found = true
			}
		})
		zzverif.Assert(label+".member", found)
	}
	zzverif.Assert(label+".value", rec.Value == sum)
}

// C17 (inductive step): from every index state in which address A has 0..3 outputs (list or map representation,
// arbitrary values at or above the minimum) and address B none, one UTXO notification - a new transaction with two
// outputs of arbitrary scripts/values, or the removal of outputs of an indexed or an unindexed transaction - leaves
// the index equal to the projection of the changed set: members, count, total, and no record for an empty address.
func H_C17_IndexStep() {
	zzverif.IntMode()
	zzverif.Bound("index state", "address A (P2PKH) with 0..3 outputs of distinct transactions in list or map representation, address B (P2WSH) without record, UseMapCnt 3; one notification (add of a 2-output transaction / delete with an arbitrary spent mask); values and the minimum value arbitrary below 21e14")
	minval := zzverif.Range64("min-value", 2100000000000000)
	if zzverif.Symbolic() {
		zzverif.Replace("common.AllBalMinVal", func() uint64 { return minval })
	} else {
		common.CFG.AllBalances.MinValue = minval
		common.ApplyBalMinVal()
	}
	scrA := append(append([]byte{0x76, 0xa9, 0x14}, make([]byte, 20)...), 0x88, 0xac)
	scrA[3] = 0xAA
	scrB := append([]byte{0x00, 0x20}, make([]byte, 32)...)
	scrB[2] = 0xBB
	scrN := []byte{0x51}
	for i := range allBalances {
		allBalances[i] = make(map[OneAddrIndex]*OneAllAddrBal)
	}
	useMapCnt = 3

	// ---- pre-state
	k := zzverif.Len("A.outputs", 0, 3)
	var pre []h_out
	for i := 0; i < k; i++ {
		v := zzverif.Range64("A.value", 2100000000000000)
		zzverif.Assume(v >= minval)
		pre = append(pre, h_out{h_inp(byte(i+1), 0), v})
	}
	if k > 0 {
		_, uidx := Script2Idx(scrA)
		rec := &OneAllAddrBal{}
		asMap := k >= useMapCnt || zzverif.Bool("A.as-map")
		if asMap {
			rec.unspMap = make(map[OneAllAddrInp]struct{})
		}
		for _, o := range pre {
			rec.Value += o.value
			if asMap {
				rec.unspMap[o.inp] = struct{}{}
			} else {
				rec.unsp = append(rec.unsp, o.inp)
			}
		}
		allBalances[IDX_P2KH][uidx] = rec
	}
	wantA := append([]h_out{}, pre...)
	var wantB []h_out

	// ---- one notification
	scripts := [][]byte{scrA, scrB, scrN}
	if zzverif.Bool("op.add") {
		tx := &utxo.UtxoRec{TxID: h_txid(9), Outs: make([]*utxo.UtxoTxOut, 2)}
		for vout := 0; vout < 2; vout++ {
			if vout == 1 && zzverif.Bool("out1.spent") {
				continue
			}
			which := zzverif.Enum("out.script", 3)
			val := zzverif.Range64("out.value", 2100000000000000)
			tx.Outs[vout] = &utxo.UtxoTxOut{Value: val, PKScr: scripts[which]}
			if val >= minval {
				switch which {
				case 0:
					wantA = append(wantA, h_out{h_inp(9, uint32(vout)), val})
				case 1:
					wantB = append(wantB, h_out{h_inp(9, uint32(vout)), val})
				}
			}
		}
		TxNotifyAdd(tx)
		zzverif.Reach("added")
	} else {
		// remove: transaction #1 (indexed under A when k >= 1) or transaction #7 paying B (never indexed), with an arbitrary mask
		which := zzverif.Enum("del.tx", 2)
		mask := zzverif.Bool("del.mask")
		if which == 0 && k >= 1 {
			tx := &utxo.UtxoRec{TxID: h_txid(1), Outs: []*utxo.UtxoTxOut{{Value: pre[0].value, PKScr: scrA}}}
			TxNotifyDel(tx, []bool{mask})
			if mask {
				wantA = wantA[1:]
			}
			zzverif.Reach("deleted")
		} else {
			// below the minimum value such an output was never indexed and its removal must not touch anything
			val := zzverif.Range64("out.value", 2100000000000000)
			zzverif.Assume(val < minval)
			tx := &utxo.UtxoRec{TxID: h_txid(7), Outs: []*utxo.UtxoTxOut{{Value: val, PKScr: scrB}}}
			TxNotifyDel(tx, []bool{mask})
		}
	}
	h_check_projection("C17.index.A", IDX_P2KH, scrA, wantA)
	h_check_projection("C17.index.B", IDX_P2WSH, scrB, wantB)
}
