//go:build verif

package main

import (
	"bytes"
	"encoding/hex"
	"os"

	"github.com/piotrnar/gocoin/lib/btc"
	"github.com/piotrnar/gocoin/lib/others/zzverif"
)

const h_max_money = 21000000 * 100000000

func h_flags() {
	f, t := false, true
	_ = t
	sfalse := func() *bool { b := false; return &b }
	verbose, prompt, useallinputs, subfee = sfalse(), sfalse(), sfalse(), sfalse()
	_ = f
	emp := ""
	message, change, batch = &emp, new(string), new(string)
	seq := -3
	sequence = &seq
	var lt, tv uint = 0, 2
	lock_time, tx_version = &lt, &tv
	apply2bal = false
	testnet, litecoin = false, false
}

// h_digits returns n arbitrary decimal digits and their value.
func h_digits(name string, n int) (string, uint64) {
	d := zzverif.Bytes(name, n)
	var v uint64
	for i := range d {
		zzverif.Assume(d[i] >= '0')
		zzverif.Assume(d[i] <= '9')
		v = v*10 + uint64(d[i]-'0') // n <= 12: no wrap
	}
	return string(d), v
}

// h_amount returns an arbitrary amount string of one of the shapes the wallet accepts, with the amount it denotes
// in satoshi. whole is the integer part (in BTC), for the range check.
func h_amount() (str string, sat uint64, whole uint64) {
	shapes := [][2]int{{-1, 8}} // {integer digits (-1: a literal "0"), fractional digits (-1: no decimal point)}
	for _, ni := range []int{1, 2, 3} {
		shapes = append(shapes, [2]int{ni, -1})
	}
	shapes = append(shapes, [2]int{1, 1}, [2]int{2, 4}, [2]int{1, 0})
	if zzverif.Tier() > 0 {
		shapes = append(shapes, [2]int{8, -1}, [2]int{12, -1}, [2]int{3, 8}, [2]int{12, 8}, [2]int{0, 8}, [2]int{2, 7})
	}
	zzverif.Bound("amount strings", "\"0.\"+8 digits; 1..3 digit integers; D.d, DD.dddd, \"D.\"; thorough adds 8 and 12 digit integers, DDD.dddddddd, 12+8 digits, \".dddddddd\", DD.ddddddd")
	sh := shapes[zzverif.Enum("amount-shape", len(shapes))]
	switch {
	case sh[0] < 0:
		str = "0"
	case sh[0] > 0:
		str, whole = h_digits("int-digits", sh[0])
	}
	if sh[1] >= 0 {
		str += "."
		f, fv := h_digits("frac-digits", sh[1])
		str += f
		for k := sh[1]; k < 8; k++ {
			fv *= 10
		}
		sat = fv
	}
	if whole <= 42000000 {
		sat += whole * 100000000
	}
	return
}

// C13: payment amounts. One or two requested payments "addr=amount" (amount strings of several shapes with arbitrary
// digits), an arbitrary fee, optional -f (fee subtracted from the first amount only) and -useallinputs, two owned
// unspent outputs of arbitrary value. If a transaction is written it pays every destination exactly what was asked
// (the first minus the fee under -f, never wrapping), sends inputs - payments - fee to the change address, and
// outputs + fee == inputs. Otherwise nothing is written.
func H_C13_Amounts() {
	zzverif.IntMode()
	h_flags()
	*subfee = zzverif.Bool("subfee")
	*useallinputs = zzverif.Bool("useallinputs")
	curFee = zzverif.Range64("fee", 100000000)
	dest := "1BitcoinEaterAddressDontSendf59kuE"
	dest2 := "1111111111111111111114oLvT2"
	chg := "1CounterpartyXXXXXXXXXXXXXXXUWLpVr"
	nd := 1 + zzverif.Enum("destinations-1", 2)
	var asked, whole, asked2 uint64
	var s string
	if nd == 1 {
		var am string
		am, asked, whole = h_amount()
		s = dest + "=" + am
	} else {
		d1, v1 := h_digits("digits", 8)
		d2, v2 := h_digits("digits2", 8)
		asked, asked2 = v1, v2
		s = dest + "=0." + d1 + "," + dest2 + "=0." + d2
	}
	send = &s
	*change = chg
	// -msg: an arbitrary message of a length from each push-encoding class (none, direct push, PUSHDATA1)
	ml := []int{0, 1, 75, 76, 77}[zzverif.Enum("msg-len", 5)]
	msg := string(zzverif.Bytes("msg", ml))
	message = &msg

	// two owned outputs
	var ids [2][32]byte
	ids[0][0], ids[1][0] = 0xA1, 0xB2
	vals := [2]uint64{zzverif.Range64("utxo.value", h_max_money), zzverif.Range64("utxo.value", h_max_money)}
	unspentOuts = nil
	loadedTxs = map[[32]byte]*btc.Tx{}
	for i := range ids {
		unspentOuts = append(unspentOuts, &unspRec{TxPrevOut: btc.TxPrevOut{Hash: ids[i], Vout: 0}, key: &btc.PrivateAddr{}})
		loadedTxs[ids[i]] = &btc.Tx{TxOut: []*btc.TxOut{{Value: vals[i], Pk_script: []byte{0x51}}}}
	}
	sendTo, spendBtc, feeBtc, changeBtc = nil, 0, 0, 0

	var written *btc.Tx
	if zzverif.Symbolic() {
		zzverif.Replace("wallet.sign_tx", func(tx *btc.Tx) bool { return true })
		zzverif.Replace("wallet.write_tx_file", func(tx *btc.Tx) { written = tx; zzverif.Event("written") })
		zzverif.Replace("wallet.cleanExit", func(code int) {
			zzverif.Assert("C13.nothing-written-before-exit", zzverif.EventCount("written") == 0)
			zzverif.Reach("refused")
			zzverif.Assume(false) // the process ends here
		})
	} else {
		txfilename = os.TempDir() + "/zzverif_c13_tx.txt"
		os.Remove(txfilename)
	}
	if !send_request() {
		return
	}
	make_signed_tx()
	if !zzverif.Symbolic() {
		// native replay: read back what the real write_tx_file stored
		if h, er := os.ReadFile(txfilename); er == nil {
			if raw, er := hex.DecodeString(string(h)); er == nil {
				written, _ = btc.NewTx(raw)
			}
		}
		os.Remove(txfilename)
	}
	tx := written
	zzverif.Assert("C13.written", tx != nil)
	zzverif.Reach("written")
	// inputs: a prefix of the owned outputs, no duplicates
	var in uint64
	zzverif.Assert("C13.inputs.count", len(tx.TxIn) >= 1 && len(tx.TxIn) <= 2)
	for i, ti := range tx.TxIn {
		zzverif.Assert("C13.inputs.owned", ti.Input.Hash == ids[i] && ti.Input.Vout == 0)
		in += vals[i]
	}
	zzverif.Assert("C13.amount.in-range", whole <= 42000000) // more than every owned output together: must have been refused
	pay := asked
	if *subfee {
		zzverif.Assert("C13.subfee.no-underflow", asked >= curFee)
		pay = asked - curFee
	}
	destAddr, _ := btc.NewAddrFromString(dest)
	chgAddr, _ := btc.NewAddrFromString(chg)
	zzverif.Assert("C13.pays.destination", len(tx.TxOut) >= nd && tx.TxOut[0].Value == pay && bytes.Equal(tx.TxOut[0].Pk_script, destAddr.OutScript()))
	if nd == 2 {
		dest2Addr, _ := btc.NewAddrFromString(dest2)
		zzverif.Assert("C13.pays.destination2", tx.TxOut[1].Value == asked2 && bytes.Equal(tx.TxOut[1].Pk_script, dest2Addr.OutScript()))
	}
	zzverif.Assert("C13.funds.sufficient", in >= pay+asked2+curFee)
	rest := in - pay - asked2 - curFee
	nm := 0
	if ml > 0 {
		nm = 1
		last := tx.TxOut[len(tx.TxOut)-1]
		want := []byte{0x6a}
		if ml < 76 {
			want = append(want, byte(ml))
		} else {
			want = append(want, 0x4c, byte(ml))
		}
		want = append(want, msg...)
		zzverif.Assert("C13.msg.output", last.Value == 0 && bytes.Equal(last.Pk_script, want))
	}
	if rest > 0 {
		zzverif.Assert("C13.change", len(tx.TxOut) == nd+1+nm && tx.TxOut[nd].Value == rest && bytes.Equal(tx.TxOut[nd].Pk_script, chgAddr.OutScript()))
	} else {
		zzverif.Assert("C13.no-change-output", len(tx.TxOut) == nd+nm)
	}
	if !*useallinputs && len(tx.TxIn) == 2 {
		zzverif.Assert("C13.inputs.needed", vals[0] < pay+asked2+curFee)
	}
}
