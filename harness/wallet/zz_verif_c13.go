//go:build verif

package main

import (
	"bytes"
	"encoding/hex"
	"os"

	"github.com/piotrnar/gocoin/lib/btc"
	"github.com/piotrnar/gocoin/lib/others/zzverif"
)

const h_max_money = 21000000 * 100000000

func h_flags() {
	f, t := false, true
	_ = t
	sfalse := func() *bool { b := false; return &b }
	verbose, prompt, useallinputs, subfee = sfalse(), sfalse(), sfalse(), sfalse()
	_ = f
	emp := ""
	message, change, batch = &emp, new(string), new(string)
	seq := -3
	sequence = &seq
	var lt, tv uint = 0, 2
	lock_time, tx_version = &lt, &tv
	apply2bal = false
	testnet, litecoin = false, false
}

// C13: payment amounts. One requested payment "addr=0.dddddddd" (eight arbitrary decimal digits), an arbitrary fee,
// optional -f (fee subtracted from the first amount) and -useallinputs, two owned unspent outputs of arbitrary value.
// If a transaction is written it pays the destination exactly what was asked (minus the fee under -f, never
// wrapping), sends inputs - payment - fee to the change address, and outputs + fee == inputs. Otherwise nothing is written.
func H_C13_Amounts() {
	zzverif.IntMode()
	h_flags()
	*subfee = zzverif.Bool("subfee")
	*useallinputs = zzverif.Bool("useallinputs")
	curFee = zzverif.Range64("fee", 100000000)
	digits := zzverif.Bytes("digits", 8)
	for i := range digits {
		zzverif.Assume(digits[i] >= '0')
		zzverif.Assume(digits[i] <= '9')
	}
	dest := "1BitcoinEaterAddressDontSendf59kuE"
	chg := "1CounterpartyXXXXXXXXXXXXXXXUWLpVr"
	s := dest + "=0." + string(digits)
	send = &s
	*change = chg
	var asked uint64
	for i := range digits {
		asked = asked*10 + uint64(digits[i]-'0')
	}

	// two owned outputs
	var ids [2][32]byte
	ids[0][0], ids[1][0] = 0xA1, 0xB2
	vals := [2]uint64{zzverif.Range64("utxo.value", h_max_money), zzverif.Range64("utxo.value", h_max_money)}
	unspentOuts = nil
	loadedTxs = map[[32]byte]*btc.Tx{}
	for i := range ids {
		unspentOuts = append(unspentOuts, &unspRec{TxPrevOut: btc.TxPrevOut{Hash: ids[i], Vout: 0}, key: &btc.PrivateAddr{}})
		loadedTxs[ids[i]] = &btc.Tx{TxOut: []*btc.TxOut{{Value: vals[i], Pk_script: []byte{0x51}}}}
	}
	sendTo, spendBtc, feeBtc, changeBtc = nil, 0, 0, 0

	var written *btc.Tx
	if zzverif.Symbolic() {
		zzverif.Replace("wallet.sign_tx", func(tx *btc.Tx) bool { return true })
		zzverif.Replace("wallet.write_tx_file", func(tx *btc.Tx) { written = tx; zzverif.Event("written") })
		zzverif.Replace("wallet.cleanExit", func(code int) {
			zzverif.Assert("C13.nothing-written-before-exit", zzverif.EventCount("written") == 0)
			zzverif.Reach("refused")
			zzverif.Assume(false) // the process ends here
		})
	} else {
		txfilename = os.TempDir() + "/zzverif_c13_tx.txt"
		os.Remove(txfilename)
	}
	if !send_request() {
		return
	}
	make_signed_tx()
	if !zzverif.Symbolic() {
		// native replay: read back what the real write_tx_file stored
		if h, er := os.ReadFile(txfilename); er == nil {
			if raw, er := hex.DecodeString(string(h)); er == nil {
				written, _ = btc.NewTx(raw)
			}
		}
		os.Remove(txfilename)
	}
	tx := written
	zzverif.Assert("C13.written", tx != nil)
	zzverif.Reach("written")
	// inputs: a prefix of the owned outputs, no duplicates
	var in uint64
	zzverif.Assert("C13.inputs.count", len(tx.TxIn) >= 1 && len(tx.TxIn) <= 2)
	for i, ti := range tx.TxIn {
		zzverif.Assert("C13.inputs.owned", ti.Input.Hash == ids[i] && ti.Input.Vout == 0)
		in += vals[i]
	}
	pay := asked
	if *subfee {
		zzverif.Assert("C13.subfee.no-underflow", asked >= curFee)
		pay = asked - curFee
	}
	destAddr, _ := btc.NewAddrFromString(dest)
	chgAddr, _ := btc.NewAddrFromString(chg)
	zzverif.Assert("C13.pays.destination", len(tx.TxOut) >= 1 && tx.TxOut[0].Value == pay && bytes.Equal(tx.TxOut[0].Pk_script, destAddr.OutScript()))
	zzverif.Assert("C13.funds.sufficient", in >= pay+curFee)
	rest := in - pay - curFee
	if rest > 0 {
		zzverif.Assert("C13.change", len(tx.TxOut) == 2 && tx.TxOut[1].Value == rest && bytes.Equal(tx.TxOut[1].Pk_script, chgAddr.OutScript()))
	} else {
		zzverif.Assert("C13.no-change-output", len(tx.TxOut) == 1)
	}
	if !*useallinputs && len(tx.TxIn) == 2 {
		zzverif.Assert("C13.inputs.needed", vals[0] < pay+curFee)
	}
}
