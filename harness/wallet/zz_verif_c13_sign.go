//go:build verif

package main

import (
	"bytes"
	"math/big"

	"github.com/piotrnar/gocoin/lib/btc"
	"github.com/piotrnar/gocoin/lib/others/zzverif"
	"github.com/piotrnar/gocoin/lib/script"
)

func h_der_sig(r, s []byte, ht byte) []byte {
	if r[0] >= 0x80 {
		r = append([]byte{0}, r...)
	}
	if s[0] >= 0x80 {
		s = append([]byte{0}, s...)
	}
	out := []byte{0x30, byte(4 + len(r) + len(s)), 2, byte(len(r))}
	out = append(out, r...)
	out = append(out, 2, byte(len(s)))
	out = append(out, s...)
	return append(out, ht)
}

// C13: signing. One wallet key (private key 1), a transaction with arbitrary version, lock-time, outpoint,
// sequence and output, spending an output of one of six kinds (own P2PKH, own P2SH-P2WPKH, own P2WPKH, own P2TR,
// foreign P2PKH, unknown script) under two wallet configurations. Under the engine the ECDSA / Schnorr signers are
// stubs returning arbitrary (r, s) / 64 bytes and recording what they were asked to sign: the digest must be the
// one of the right algorithm (C02) for this input, script code and amount, the key the wallet's, and the signature
// must land where the output type requires. Natively the real signers run and the result must pass the script
// interpreter with standard flags. Everything except scriptSig / witness is left untouched in every case.
func H_C13_Sign() {
	h_flags()
	minsig = false
	priv := make([]byte, 32)
	priv[31] = 1
	k := btc.NewPrivateAddr(priv, 0x80, true)
	keys = []*btc.PrivateAddr{k}
	bech := zzverif.Bool("config.bech32")
	if bech {
		segwit = []*btc.BtcAddr{btc.NewAddrFromPkScript(append([]byte{0, 20}, k.Hash160[:]...), false)}
	} else {
		h160 := btc.Rimp160AfterSha256(append([]byte{0, 20}, k.Hash160[:]...))
		segwit = []*btc.BtcAddr{btc.NewAddrFromHash160(h160[:], btc.AddrVerScript(false))}
	}
	redeem := append([]byte{0, 20}, k.Hash160[:]...)
	rh := btc.Rimp160AfterSha256(redeem)
	scripts := [][]byte{
		k.BtcAddr.OutScript(), // P2PKH
		append(append([]byte{0xa9, 0x14}, rh[:]...), 0x87),                  // P2SH-P2WPKH
		redeem,                                                             // P2WPKH
		append([]byte{0x51, 32}, k.Pubkey[1:33]...),                         // P2TR (key = the wallet key, as the wallet's tap addresses are built)
		append(append([]byte{0x76, 0xa9, 0x14}, make([]byte, 20)...), 0x88, 0xac), // somebody else's P2PKH
		{0x51},                                                              // not an address
	}
	kind := zzverif.Enum("spent-output-kind", len(scripts))
	value := zzverif.Range64("spent.value", h_max_money)
	uo := &btc.TxOut{Value: value, Pk_script: scripts[kind]}

	tx := new(btc.Tx)
	tx.Version = zzverif.U32("version")
	tx.Lock_time = zzverif.U32("locktime")
	in := &btc.TxIn{Sequence: zzverif.U32("sequence")}
	copy(in.Input.Hash[:], zzverif.Bytes("prevout.hash", 32))
	in.Input.Vout = zzverif.U32("prevout.n")
	tx.TxIn = []*btc.TxIn{in}
	outScr := zzverif.Bytes("out.script", 3)
	tx.TxOut = []*btc.TxOut{{Value: zzverif.Range64("out.value", h_max_money), Pk_script: outScr}}
	tx.AllocVerVars()
	tx.Spent_outputs = []*btc.TxOut{uo}
	before := *in
	beforeOut := *tx.TxOut[0]
	ver0, lock0 := tx.Version, tx.Lock_time

	type ask struct{ key, digest []byte }
	var ecdsaAsk, schnorrAsk []ask
	rb, sb := zzverif.Bytes("sig.r", 32), zzverif.Bytes("sig.s", 32)
	schnorrSig := zzverif.Bytes("schnorr.sig", 64)
	if zzverif.Symbolic() {
		zzverif.Assume(rb[0] != 0)
		zzverif.Assume(sb[0] != 0)
		zzverif.Stub("btc.EcdsaSign: arbitrary 32-byte r and s; secp256k1.SchnorrSign: arbitrary 64 bytes; crypto/rand.Read: zeros")
		zzverif.Replace("btc.EcdsaSign", func(p, h []byte) (*big.Int, *big.Int, error) {
			ecdsaAsk = append(ecdsaAsk, ask{append([]byte{}, p...), append([]byte{}, h...)})
			return new(big.Int).SetBytes(rb), new(big.Int).SetBytes(sb), nil
		})
		zzverif.Replace("secp256k1.SchnorrSign", func(m, sk, a []byte) []byte {
			schnorrAsk = append(schnorrAsk, ask{append([]byte{}, sk...), append([]byte{}, m...)})
			return schnorrSig
		})
		zzverif.Replace("crypto/rand.Read", func(b []byte) (int, error) { return len(b), nil })
	}
	ok := sign_tx(tx)

	// nothing but scriptSig / witness may change
	zzverif.Assert("C13.sign.version-locktime-untouched", tx.Version == ver0 && tx.Lock_time == lock0)
	zzverif.Assert("C13.sign.inputs-untouched", len(tx.TxIn) == 1 && tx.TxIn[0].Input == before.Input && tx.TxIn[0].Sequence == before.Sequence)
	zzverif.Assert("C13.sign.outputs-untouched", len(tx.TxOut) == 1 && tx.TxOut[0].Value == beforeOut.Value && bytes.Equal(tx.TxOut[0].Pk_script, outScr))

	signable := kind <= 3 && (kind != 1 || !bech)
	zzverif.Assert("C13.sign.all-signed-verdict", ok == signable)
	if !signable {
		zzverif.Assert("C13.sign.unsigned-left-alone", len(tx.TxIn[0].ScriptSig) == 0 && tx.SegWit == nil)
		zzverif.Reach("not-ours")
		return
	}
	zzverif.Reach([]string{"signed-p2pkh", "signed-p2sh-p2wpkh", "signed-p2wpkh", "signed-p2tr"}[kind])
	if !zzverif.Symbolic() {
		// native: the real signatures must pass the interpreter under the standard flags. Under the engine (r, s) are
		// arbitrary; natively the signers draw random nonces, so the transaction is signed again 1500 times to meet the
		// encodings the model may have chosen (e.g. an R with the top byte 0x80). The assertion carries the label of the
		// structural assertion of the same output kind.
		label := []string{"C13.sign.p2pkh.scriptsig", "C13.sign.witness", "C13.sign.witness", "C13.sign.taproot.witness"}[kind]
		for attempt := 0; attempt < 1500; attempt++ {
			raw := tx.SerializeNew()
			tx.SetHash(raw)
			good := script.VerifyTxScript(uo.Pk_script, &script.SigChecker{Tx: tx, Idx: 0, Amount: uo.Value}, script.STANDARD_VERIFY_FLAGS)
			zzverif.Assert(label, good)
			tx.TxIn[0].ScriptSig = nil
			tx.SegWit = nil
			if !sign_tx(tx) {
				zzverif.Assert(label, false)
			}
		}
		return
	}
	sig := h_der_sig(rb, sb, 1)
	switch kind {
	case 0:
		want := append(append([]byte{byte(len(sig))}, sig...), append([]byte{33}, k.Pubkey...)...)
		zzverif.Assert("C13.sign.p2pkh.scriptsig", bytes.Equal(tx.TxIn[0].ScriptSig, want) && tx.SegWit == nil)
		zzverif.Assert("C13.sign.p2pkh.digest", len(ecdsaAsk) == 1 && bytes.Equal(ecdsaAsk[0].key, priv) &&
			bytes.Equal(ecdsaAsk[0].digest, tx.SignatureHash(uo.Pk_script, 0, btc.SIGHASH_ALL)))
	case 1, 2:
		if kind == 1 {
			zzverif.Assert("C13.sign.p2sh.scriptsig", bytes.Equal(tx.TxIn[0].ScriptSig, append([]byte{22}, redeem...)))
		} else {
			zzverif.Assert("C13.sign.p2wpkh.scriptsig-empty", len(tx.TxIn[0].ScriptSig) == 0)
		}
		zzverif.Assert("C13.sign.witness", len(tx.SegWit) == 1 && len(tx.SegWit[0]) == 2 && bytes.Equal(tx.SegWit[0][0], sig) && bytes.Equal(tx.SegWit[0][1], k.Pubkey))
		zzverif.Assert("C13.sign.bip143.digest", len(ecdsaAsk) == 1 && bytes.Equal(ecdsaAsk[0].key, priv) &&
			bytes.Equal(ecdsaAsk[0].digest, tx.WitnessSigHash(k.BtcAddr.OutScript(), value, 0, btc.SIGHASH_ALL)))
	case 3:
		zzverif.Assert("C13.sign.taproot.witness", len(tx.TxIn[0].ScriptSig) == 0 && len(tx.SegWit) == 1 && len(tx.SegWit[0]) == 1 && bytes.Equal(tx.SegWit[0][0], schnorrSig))
		zzverif.Assert("C13.sign.taproot.digest", len(schnorrAsk) == 1 && bytes.Equal(schnorrAsk[0].key, priv) &&
			bytes.Equal(schnorrAsk[0].digest, tx.TaprootSigHash(&btc.ScriptExecutionData{}, 0, btc.SIGHASH_DEFAULT, false)))
	}
}
