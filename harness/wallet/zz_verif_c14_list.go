//go:build verif

package main

import (
	"bytes"
	"os"
	"strconv"

	"github.com/piotrnar/gocoin/lib/btc"
	"github.com/piotrnar/gocoin/lib/others/zzverif"
)

// C14: the key list of an HD wallet (type 4). With path m/A'/B (A in {0, 44}, B in {0, 1, 5, 7, 2^31-2}, B
// hardened or not), 3 keys and 1..3 sub-accounts, the i-th listed key of sub-account s is the child number B+i of
// the wallet m/(A+s)', and its label says so. Child derivation itself is an uninterpreted function here (it is
// decided against BIP32 by H_C14_ChildPrivate); natively the real derivation runs.
func H_C14_KeyList() {
	h_flags()
	waltype = 4
	keycnt = 3
	bip39wrds, usescrypt = 0, 0
	uncompressed = false
	testnet, litecoin = false, false
	emp := ""
	encrypt, decrypt, pubkey = &emp, new(string), new(string)
	f := false
	dumpxprv, dumpwords, list = &f, new(bool), new(bool)
	segwit_mode, bech32_mode, taproot_mode = false, false, false
	hd_wallet_xtra = nil
	keys = nil
	hdsubs = 1 + uint(zzverif.Enum("hdsubs-1", 3))
	// the path numbers come from a case split (formatting labels with symbolic numbers forks on every digit)
	a := []uint64{0, 44}[zzverif.Enum("A", 2)]
	b := []uint64{0, 1, 5, 7, 2147483646}[zzverif.Enum("B", 5)]
	da, db := strconv.Itoa(int(a)), strconv.Itoa(int(b))
	hard := zzverif.Bool("B.hardened")
	hdpath = "m/" + da + "'/" + db
	if hard {
		hdpath += "'"
	}
	seed := []byte("zz verif seed")
	if zzverif.Symbolic() {
		zzverif.Stub("(*btc.HDWallet).Child: child key = uninterpreted function of (parent key, index); btc.NewPrivateAddr: record of the key only; getpass / load_others: fixed seed, nothing")
		zzverif.Replace("wallet.getpass", func() ([]byte, error) { return append([]byte{}, seed...), nil })
		zzverif.Replace("wallet.load_others", func() {})
		zzverif.Replace("sys.ClearBuffer", func(b []byte) {}) // overwrites secrets with crypto/rand output
		zzverif.Replace("(*btc.HDWallet).Child", func(w *btc.HDWallet, i uint32) *btc.HDWallet {
			in := append(append([]byte{}, w.Key...), byte(i>>24), byte(i>>16), byte(i>>8), byte(i))
			return &btc.HDWallet{Prefix: w.Prefix, Key: append([]byte{0}, zzverif.UF("ckd", 32, in)...), ChCode: make([]byte, 32), I: i}
		})
		zzverif.Replace("btc.MasterKey", func(seed []byte, testnet bool) *btc.HDWallet {
			return &btc.HDWallet{Prefix: btc.Private, Key: append([]byte{0}, zzverif.UF("master", 32, seed)...), ChCode: make([]byte, 32)}
		})
		zzverif.Replace("(*btc.HDWallet).Pub", func(w *btc.HDWallet) *btc.HDWallet { return w })
		zzverif.Replace("(*btc.HDWallet).String", func(w *btc.HDWallet) string { return "x" })
		zzverif.Replace("btc.NewPrivateAddr", func(key []byte, ver byte, compr bool) *btc.PrivateAddr {
			return &btc.PrivateAddr{Key: append([]byte{}, key...), Version: ver, BtcAddr: &btc.BtcAddr{Pubkey: make([]byte, 33)}}
		})
	} else {
		// native: the seed comes from a password file, everything else is the real code
		dir, _ := os.MkdirTemp("", "zzverif_c14_")
		defer os.RemoveAll(dir)
		oldSeed, oldRaw := PassSeedFilename, RawKeysFilename
		PassSeedFilename, RawKeysFilename = dir+"/secret", dir+"/others"
		defer func() { PassSeedFilename, RawKeysFilename = oldSeed, oldRaw }()
		os.WriteFile(PassSeedFilename, seed, 0600)
		stdin = false
		ask4pass = new(bool)
		secret_seed = nil
	}
	tooBig := b+3 > 1<<31 // the index of a later key would leave the 31-bit range: the wallet must refuse
	if zzverif.Symbolic() {
		zzverif.Replace("wallet.cleanExit", func(code int) {
			zzverif.Assert("C14.list.refused-only-out-of-range", tooBig)
			zzverif.Reach("refused")
			zzverif.Assume(false) // the process ends here
		})
	} else if tooBig && os.Getenv("ZZVERIF_C14_NATIVE_TOOBIG") == "" {
		return // natively the refusal ends the process (the variable is for exhibiting the defect on a tree without the fix)
	}
	make_wallet()
	zzverif.Assert("C14.list.index-range", !tooBig)
	zzverif.Assert("C14.list.count", len(keys) == 3*int(hdsubs))
	root := btc.MasterKey(seed, false)
	for s := 0; s < int(hdsubs); s++ {
		acct := root.Child(uint32(a+uint64(s)) | 0x80000000)
		for i := 0; i < 3; i++ {
			idx := uint32(b) + uint32(i)
			if hard {
				idx |= 0x80000000
			}
			want := acct.Child(idx)
			got := keys[3*s+i]
			zzverif.Assert("C14.list.key", bytes.Equal(got.Key, want.Key[1:]))
			label := "m/" + strconv.Itoa(int(a)+s) + "'/" + strconv.Itoa(int(b)+i)
			if hard {
				label += "'"
			}
			zzverif.Assert("C14.list.label", got.BtcAddr.Extra.Label == label)
		}
	}
	zzverif.Reach("listed")
}
