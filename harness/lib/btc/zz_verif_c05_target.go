//go:build verif

package btc

import (
	"math/big"

	"github.com/piotrnar/gocoin/lib/others/zzverif"
)

// ref_set_compact: arith_uint256::SetCompact (value, negative, overflow).
func ref_set_compact(bits uint32, size int) (v *big.Int, negative, overflow bool) {
	word := bits & 0x007fffff
	if size <= 3 {
		v = new(big.Int).SetUint64(uint64(word >> uint(8*(3-size))))
	} else {
		v = new(big.Int).Lsh(new(big.Int).SetUint64(uint64(word)), uint(8*(size-3)))
	}
	negative = word != 0 && bits&0x00800000 != 0
	overflow = word != 0 && (size > 34 || (word > 0xff && size > 33) || (word > 0xffff && size > 32))
	return
}

// C05: compact target decoding for every 32-bit "bits" value (exponent case-split): value and sign.
func H_C05_CompactDecode() {
	zzverif.IntMode()
	size := zzverif.Len("exponent", 0, 40)
	if zzverif.Tier() == 0 && size > 6 && size < 28 && size != 16 {
		zzverif.Assume(false) // quick: small exponents, one mid exponent, the range around 29..34 and above
	}
	mant := zzverif.Range64("mantissa", 0xffffff)
	bits := uint32(size)<<24 | uint32(mant)
	got := SetCompact(bits)
	want, neg, _ := ref_set_compact(bits, size)
	if neg {
		zzverif.Reach("negative")
		zzverif.Assert("C05.compact.negative", got.Sign() <= 0 && new(big.Int).Neg(got).Cmp(want) == 0)
	} else {
		zzverif.Assert("C05.compact.value", got.Cmp(want) == 0)
	}
	if size == 29 {
		zzverif.Reach("mainnet-like")
	}
}

// C05: proof-of-work predicate: for a target that is positive and does not overflow 256 bits (the only targets the
// retargeting rule can require), CheckProofOfWork accepts exactly when the hash, as a little-endian 256-bit
// number, is <= target; a negative target never accepts.
func H_C05_ProofOfWork() {
	zzverif.IntMode()
	size := zzverif.Len("exponent", 1, 34)
	if zzverif.Tier() == 0 && size > 4 && size < 28 {
		zzverif.Assume(false)
	}
	mant := zzverif.Range64("mantissa", 0xffffff)
	bits := uint32(size)<<24 | uint32(mant)
	target, neg, overflow := ref_set_compact(bits, size)
	zzverif.Assume(!overflow)
	zzverif.Assumption("zero targets and targets that overflow 256 bits are excluded: the required bits of a connected block never overflow (Core refuses them in CheckProofOfWork itself)")
	h := new(Uint256)
	copy(h.Hash[:], zzverif.Bytes("hash", 32))
	var be [32]byte
	for i := range be {
		be[i] = h.Hash[31-i]
	}
	hv := new(big.Int).SetBytes(be[:])
	// the all-zero hash is excluded (no header hashes to it; with it gocoin would also accept zero and
	// "negative zero" targets, which Core refuses outright)
	zzverif.Assume(hv.Sign() > 0)
	got := CheckProofOfWork(h, bits)
	if neg {
		zzverif.Assert("C05.pow.negative-target", !got)
		return
	}
	// a zero target is never the required one either (Core refuses it in CheckProofOfWork, gocoin would accept
	// only the all-zero hash): outside the stated precondition
	zzverif.Assume(target.Sign() > 0)
	zzverif.Assert("C05.pow.iff", got == (hv.Cmp(target) <= 0))
	if got {
		zzverif.Reach("meets-target")
	}
}

// ref_get_compact: arith_uint256::GetCompact(false) for a non-negative value
func ref_get_compact(v *big.Int) uint32 {
	size := (v.BitLen() + 7) / 8
	var compact uint64
	if size <= 3 {
		compact = v.Uint64() << uint(8*(3-size))
	} else {
		compact = new(big.Int).Rsh(v, uint(8*(size-3))).Uint64()
	}
	if compact&0x00800000 != 0 {
		compact >>= 8
		size++
	}
	return uint32(compact) | uint32(size)<<24
}

// C05: compact target encoding: for every non-negative value of up to 32 bytes (byte length case-split, the three
// leading bytes and everything below arbitrary) GetCompact equals arith_uint256::GetCompact.
func H_C05_CompactEncode() {
	zzverif.IntMode()
	n := zzverif.Len("bytes", 0, 32)
	if zzverif.Tier() == 0 && n > 5 && n < 26 && n != 16 {
		zzverif.Assume(false)
	}
	raw := zzverif.Bytes("value", n)
	if n > 0 {
		zzverif.Assume(raw[0] != 0)
	}
	v := new(big.Int).SetBytes(raw)
	got := GetCompact(v)
	zzverif.Assert("C05.compact.encode", got == ref_get_compact(v))
	if n == 32 {
		zzverif.Reach("full-width")
	}
}
