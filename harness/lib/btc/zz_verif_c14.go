//go:build verif

package btc

import (
	"bytes"
	"crypto/hmac"
	"crypto/sha512"
	"encoding/binary"
	"math/big"

	"github.com/piotrnar/gocoin/lib/others/zzverif"
)

var h_N, _ = new(big.Int).SetString("FFFFFFFFFFFFFFFFFFFFFFFFFFFFFFFEBAAEDCE6AF48A03BBFD25E8CD0364141", 16)

// the public key of a private key, as an uninterpreted injective function (the curve arithmetic is C08/C03's subject)
func h_pub(priv []byte) []byte {
	if !zzverif.Symbolic() {
		return PublicFromPrivate(priv, true) // native replay runs the real function (Replace has no effect natively)
	}
	return zzverif.UF("pubkey", 33, priv)
}

func h_stub_ec() {
	zzverif.Replace("btc.PublicFromPrivate", func(priv []byte, compressed bool) []byte { return h_pub(priv) })
}

// ref_bip32_I: I = HMAC-SHA512(key = chain code, data)
func ref_bip32_I(chain, data []byte, i uint32) []byte {
	mac := hmac.New(sha512.New, chain)
	mac.Write(data)
	var ser [4]byte
	binary.BigEndian.PutUint32(ser[:], i)
	mac.Write(ser[:])
	return mac.Sum(nil)
}

// C14: BIP32 private child derivation (CKDpriv) for every parent key, chain code and index.
func H_C14_ChildPrivate() {
	zzverif.IntMode()
	h_stub_ec()
	zzverif.Assumption("BIP32 declares the child invalid when IL >= n or the child key is 0 (probability < 2^-127); the harness compares with (IL + k) mod n as the code computes it")
	k := zzverif.Bytes("k", 32)
	chain := zzverif.Bytes("chain", 32)
	w := &HDWallet{Prefix: Private, Depth: zzverif.U8("depth"), ChCode: chain, Key: append([]byte{0}, k...)}
	var i uint32
	hardened := zzverif.Enum("hardened", 2) == 1
	i = zzverif.U32("i")
	if hardened {
		zzverif.Assume(i >= 0x80000000)
	} else {
		zzverif.Assume(i < 0x80000000)
	}
	var data []byte
	if hardened {
		data = append([]byte{0}, k...)
	} else {
		data = h_pub(k)
	}
	if !zzverif.Symbolic() {
		// native realiser: HMAC-SHA512 is a free function for the solver, so a counterexample may rest on a value of IL that
		// the model's index does not produce; search the index space (same hardened class, 2^18 tries) for one where the
		// key arithmetic on the real IL disagrees with the reference, and replay that index
		for d := uint32(0); d < 1<<18; d++ {
			i2 := i&0x80000000 | (i+d)&0x7fffffff
			I := ref_bip32_I(chain, data, i2)
			ref := new(big.Int).Add(new(big.Int).SetBytes(I[:32]), new(big.Int).SetBytes(k))
			ref.Mod(ref, h_N)
			got := DeriveNextPrivate(I[:32], k)
			if len(got) != 32 || new(big.Int).SetBytes(got).Cmp(ref) != 0 {
				i = i2
				break
			}
		}
	}
	c := w.Child(i)
	// reference
	if hardened {
		zzverif.Reach("hardened")
	} else {
		zzverif.Reach("normal")
	}
	I := ref_bip32_I(chain, data, i)
	want := new(big.Int).Add(new(big.Int).SetBytes(I[:32]), new(big.Int).SetBytes(k))
	want.Mod(want, h_N)
	zzverif.Assert("C14.ckdpriv.keylen", len(c.Key) == 33 && c.Key[0] == 0)
	zzverif.Assert("C14.ckdpriv.key", new(big.Int).SetBytes(c.Key[1:]).Cmp(want) == 0)
	zzverif.Assert("C14.ckdpriv.chain", bytes.Equal(c.ChCode, I[32:]))
	zzverif.Assert("C14.ckdpriv.meta", c.Depth == w.Depth+1 && c.I == i && c.Prefix == Private)
	var fp [20]byte
	RimpHash(h_pub(k), fp[:])
	zzverif.Assert("C14.ckdpriv.fingerprint", bytes.Equal(c.Checksum[:], fp[:4]))
}

// C14: public derivation feeds the same HMAC input as private derivation of a non-hardened child, keeps the
// bookkeeping fields, and refuses hardened indexes. (Point addition itself is stubbed: DeriveNextPublic.)
func H_C14_ChildPublic() {
	zzverif.IntMode()
	h_stub_ec()
	k := zzverif.Bytes("k", 32)
	chain := zzverif.Bytes("chain", 32)
	pub := h_pub(k)
	var gotSecret []byte
	zzverif.Replace("btc.DeriveNextPublic", func(public, secret []byte) []byte {
		zzverif.Assert("C14.ckdpub.parent-key", bytes.Equal(public, pub))
		gotSecret = secret
		return zzverif.UF("derived-pub", 33, append(append([]byte{}, public...), secret...))
	})
	w := &HDWallet{Prefix: Public, Depth: zzverif.U8("depth"), ChCode: chain, Key: pub}
	i := zzverif.U32("i")
	if i >= 0x80000000 {
		zzverif.Reach("hardened-refused")
		zzverif.Assert("C14.ckdpub.hardened-panics", zzverif.Panics(func() { w.Child(i) }))
		return
	}
	c := w.Child(i)
	I := ref_bip32_I(chain, pub, i)
	zzverif.Assert("C14.ckdpub.tweak", bytes.Equal(gotSecret, I[:32]))
	zzverif.Assert("C14.ckdpub.chain", bytes.Equal(c.ChCode, I[32:]))
	zzverif.Assert("C14.ckdpub.meta", c.Depth == w.Depth+1 && c.I == i && c.Prefix == Public && len(c.Key) == 33)
	var fp [20]byte
	RimpHash(pub, fp[:])
	zzverif.Assert("C14.ckdpub.fingerprint", bytes.Equal(c.Checksum[:], fp[:4]))
	zzverif.Reach("derived")
}

// C14: extended-key serialisation layout and parse-back (Base58 itself is C15's subject and is bypassed here).
func H_C14_Serialize() {
	h_stub_ec()
	prefixes := []uint32{Private, PrivateY, PrivateZ, TestPrivate, TestPrivateY, TestPrivateZ}
	w := &HDWallet{Prefix: prefixes[zzverif.Enum("prefix", len(prefixes))], Depth: zzverif.U8("depth"), I: zzverif.U32("i"),
		ChCode: zzverif.Bytes("chain", 32), Key: append([]byte{0}, zzverif.Bytes("k", 32)...)}
	copy(w.Checksum[:], zzverif.Bytes("fingerprint", 4))
	ser := w.Serialize()
	zzverif.Assert("C14.xkey.length", len(ser) == 82)
	var want bytes.Buffer
	binary.Write(&want, binary.BigEndian, w.Prefix)
	want.WriteByte(w.Depth)
	want.Write(w.Checksum[:])
	binary.Write(&want, binary.BigEndian, w.I)
	want.Write(w.ChCode)
	want.Write(w.Key)
	zzverif.Assert("C14.xkey.layout", bytes.Equal(ser[:78], want.Bytes()))
	chk := Sha2Sum(ser[:78])
	zzverif.Assert("C14.xkey.checksum", bytes.Equal(ser[78:], chk[:4]))
	// parse-back
	zzverif.Replace("btc.Decodeb58", func(s string) []byte { return ser })
	if !zzverif.Symbolic() {
		return
	}
	w2, er := StringWallet("serialized")
	zzverif.Assert("C14.xkey.parse", er == nil && w2.Prefix == w.Prefix && w2.Depth == w.Depth && w2.I == w.I && w2.Checksum == w.Checksum &&
		bytes.Equal(w2.ChCode, w.ChCode) && bytes.Equal(w2.Key, w.Key))
	zzverif.Reach("parsed")
}

// C14: the public counterpart of an extended private key keeps network and script type: SLIP-132 / BIP32 version
// bytes (xprv-xpub, yprv-ypub, zprv-zpub, tprv-tpub, uprv-upub, vprv-vpub; the reference values are the specification's
// literals, not the package constants), depth, index, fingerprint and chain code carried over, the key replaced by
// the public key; the address of both is the same. Any other version is left alone.
func H_C14_PublicPrefix() {
	h_stub_ec()
	table := [][2]uint32{{0x0488ADE4, 0x0488B21E}, {0x049D7878, 0x049D7CB2}, {0x04B2430C, 0x04B24746},
		{0x04358394, 0x043587CF}, {0x044A4E28, 0x044A5262}, {0x045F18BC, 0x045F1CF6}}
	which := zzverif.Enum("prefix", len(table)+1)
	w := &HDWallet{Depth: zzverif.U8("depth"), I: zzverif.U32("i"), ChCode: zzverif.Bytes("chain", 32), Key: append([]byte{0}, zzverif.Bytes("k", 32)...)}
	copy(w.Checksum[:], zzverif.Bytes("fingerprint", 4))
	if which == len(table) {
		w.Prefix = zzverif.U32("other-version")
		for _, t := range table {
			zzverif.Assume(w.Prefix != t[0] && w.Prefix != t[1])
		}
		zzverif.Assert("C14.pubprefix.other-untouched", PublishHDPrefix(w.Prefix) == w.Prefix)
		return
	}
	w.Prefix = table[which][0]
	pub := w.Pub()
	zzverif.Assert("C14.pubprefix.version", pub.Prefix == table[which][1])
	zzverif.Assert("C14.pubprefix.fields", pub.Depth == w.Depth && pub.I == w.I && pub.Checksum == w.Checksum && bytes.Equal(pub.ChCode, w.ChCode) &&
		bytes.Equal(pub.Key, PublicFromPrivate(w.Key[1:], true)))
	zzverif.Assert("C14.pubprefix.testnet", IsTestnetHDPrefix(pub.Prefix) == (which >= 3) && IsPublicHDPrefix(pub.Prefix) && !IsPrivateHDPrefix(pub.Prefix))
	zzverif.Assert("C14.pubprefix.pub-of-pub", pub.Pub().Prefix == pub.Prefix)
	zzverif.Reach("published")
}

// C14: WIF export / import round trip (compressed and uncompressed keys, any version byte). Base58 is bypassed
// (C15), the public key is the uninterpreted function of the private key.
func H_C14_WIF() {
	zzverif.Replace("btc.PublicFromPrivate", func(priv []byte, compressed bool) []byte {
		if compressed {
			return zzverif.UF("pubkey", 33, priv)
		}
		return zzverif.UF("pubkey-uncompressed", 65, priv)
	})
	var payload []byte
	zzverif.Replace("btc.Encodeb58", func(a []byte) string { payload = append([]byte{}, a...); return "wif" })
	zzverif.Replace("btc.Decodeb58", func(s string) []byte { return payload })
	if !zzverif.Symbolic() {
		return
	}
	key := zzverif.Bytes("key", 32)
	ver := zzverif.U8("version")
	compressed := zzverif.Enum("compressed", 2) == 1
	ad := NewPrivateAddr(key, ver, compressed)
	s := ad.String()
	wantLen := 37
	if compressed {
		wantLen = 38
	}
	zzverif.Assert("C14.wif.layout", len(payload) == wantLen && payload[0] == ver && bytes.Equal(payload[1:33], key) && (!compressed || payload[33] == 1))
	chk := Sha2Sum(payload[:wantLen-4])
	zzverif.Assert("C14.wif.checksum", bytes.Equal(payload[wantLen-4:], chk[:4]))
	back, er := DecodePrivateAddr(s)
	zzverif.Assert("C14.wif.roundtrip", er == nil && back.Version == ver && bytes.Equal(back.Key, key) && back.BtcAddr.IsCompressed() == compressed)
	zzverif.Assert("C14.wif.same-address", back.BtcAddr.Hash160 == ad.BtcAddr.Hash160)
	zzverif.Reach("roundtrip")
}
