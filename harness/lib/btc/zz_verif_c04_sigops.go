//go:build verif

package btc

import (
	"github.com/piotrnar/gocoin/lib/others/zzverif"
)

// ref_get_op: Bitcoin Core's GetScriptOp (script/script.cpp): opcode, pushed data, bytes consumed, ok
func ref_get_op(b []byte) (op int, data []byte, n int, ok bool) {
	if len(b) < 1 {
		return
	}
	op = int(b[0])
	n = 1
	if op <= 0x4e {
		size := 0
		switch {
		case op < 0x4c:
			size = op
		case op == 0x4c:
			if len(b)-n < 1 {
				return
			}
			size = int(b[n])
			n++
		case op == 0x4d:
			if len(b)-n < 2 {
				return
			}
			size = int(b[n]) | int(b[n+1])<<8
			n += 2
		default:
			if len(b)-n < 4 {
				return
			}
			size = int(b[n]) | int(b[n+1])<<8 | int(b[n+2])<<16 | int(b[n+3])<<24
			n += 4
		}
		if len(b)-n < size {
			return
		}
		data = b[n : n+size]
		n += size
	}
	ok = true
	return
}

// ref_sigops: CScript::GetSigOpCount(bool fAccurate). afterReturn reports that a counted operation lies behind an
// OP_RETURN (the region of the known finding C04-sigops-after-op-return).
func ref_sigops(scr []byte, accurate bool) (n uint, afterReturn bool) {
	last := 0xff
	seenReturn := false
	for pc := 0; pc < len(scr); {
		op, _, le, ok := ref_get_op(scr[pc:])
		if !ok {
			break
		}
		pc += le
		if op == 0xac || op == 0xad {
			n++
			afterReturn = afterReturn || seenReturn
		} else if op == 0xae || op == 0xaf {
			if accurate && last >= 0x51 && last <= 0x60 {
				n += uint(last - 0x50)
			} else {
				n += 20
			}
			afterReturn = afterReturn || seenReturn
		}
		if op == 0x6a {
			seenReturn = true
		}
		last = op
	}
	return
}

// ref_p2sh_sigops: CScript::GetSigOpCount(const CScript& scriptSig) for a pay-to-script-hash output
func ref_p2sh_sigops(scriptSig []byte) (n uint, afterReturn bool) {
	var data []byte
	for pc := 0; pc < len(scriptSig); {
		op, d, le, ok := ref_get_op(scriptSig[pc:])
		if !ok {
			return 0, false
		}
		pc += le
		if op > 0x60 {
			return 0, false
		}
		data = d
	}
	return ref_sigops(data, true)
}

// C04: legacy signature-operation counting (both accuracy modes) equals Core's for every script of the length bound.
func H_C04_SigOpCount() {
	maxL := 5 + zzverif.Tier()
	L := zzverif.Len("len", 0, maxL)
	scr := zzverif.Bytes("script", L)
	acc := zzverif.Bool("accurate")
	want, ar := ref_sigops(scr, acc)
	zzverif.Known("C04-sigops-after-op-return", ar)
	got := GetSigOpCount(scr, acc)
	zzverif.Assert("C04.sigops.legacy", got == want)
	if want > 20 {
		zzverif.Reach("more-than-one-multisig")
	}
}

// C04: P2SH signature-operation counting: the redeem script is the last push of a push-only scriptSig.
func H_C04_SigOpCountP2SH() {
	maxL := 5 + zzverif.Tier()
	L := zzverif.Len("len", 0, maxL)
	scr := zzverif.Bytes("scriptSig", L)
	want, ar := ref_p2sh_sigops(scr)
	zzverif.Known("C04-sigops-after-op-return", ar)
	zzverif.Assert("C04.sigops.p2sh", GetP2SHSigOpCount(scr) == want)
	if want == 16 {
		zzverif.Reach("accurate-multisig")
	}
}

// C04: witness signature-operation counting (BIP141): 1 for P2WPKH, the accurate count of the witness script for
// P2WSH, nothing for other versions; natively and nested in P2SH.
func H_C04_SigOpCountWitness() {
	tx := new(Tx)
	nested := zzverif.Bool("nested")
	plen := []int{20, 32, 2, 40}[zzverif.Enum("program-len", 4)]
	ver := byte(zzverif.Enum("version", 3)) // 0, 1, 16
	vop := []byte{0x00, 0x51, 0x60}[ver]
	prog := append([]byte{vop, byte(plen)}, zzverif.Bytes("program", plen)...)
	var spk, ssig []byte
	if nested {
		spk = append(append([]byte{0xa9, 0x14}, zzverif.Bytes("script-hash", 20)...), 0x87)
		ssig = append([]byte{byte(len(prog))}, prog...)
		if zzverif.Bool("scriptSig-not-push-only") {
			ssig = append([]byte{0x61}, ssig...)
		}
	} else {
		spk = prog
	}
	tx.TxIn = []*TxIn{{ScriptSig: ssig}}
	nw := zzverif.Enum("witness-items", 3)
	wl := zzverif.Len("witness-script-len", 0, 3+zzverif.Tier())
	wscr := zzverif.Bytes("witness-script", wl)
	var wit [][]byte
	for i := 0; i < nw; i++ {
		if i == nw-1 {
			wit = append(wit, wscr)
		} else {
			wit = append(wit, []byte{1})
		}
	}
	if zzverif.Bool("has-segwit") {
		tx.SegWit = [][][]byte{wit}
	} else {
		wit = nil
	}
	var want uint
	ar := false
	counted := !nested || len(ssig) == len(prog)+1
	if counted && vop == 0 {
		if plen == 20 {
			want = 1
		} else if plen == 32 && len(wit) > 0 {
			want, ar = ref_sigops(wit[len(wit)-1], true)
		}
	}
	zzverif.Known("C04-sigops-after-op-return", ar)
	zzverif.Assert("C04.sigops.witness", tx.CountWitnessSigOps(0, spk) == want)
	if want > 1 {
		zzverif.Reach("p2wsh-counted")
	}
}
