//go:build verif

package btc

import (
	"bytes"
	"crypto/sha256"

	"github.com/piotrnar/gocoin/lib/others/zzverif"
)

// ref_hmac_sha256: RFC 2104 over SHA-256 for keys of at most 64 bytes
func ref_hmac_sha256(key []byte, msg ...[]byte) []byte {
	var k [64]byte
	copy(k[:], key)
	in := sha256.New()
	ipad := make([]byte, 64)
	opad := make([]byte, 64)
	for i := range k {
		ipad[i] = k[i] ^ 0x36
		opad[i] = k[i] ^ 0x5c
	}
	in.Write(ipad)
	for _, m := range msg {
		in.Write(m)
	}
	out := sha256.New()
	out.Write(opad)
	out.Write(in.Sum(nil))
	return out.Sum(nil)
}

// ref_rfc6979: RFC 6979 section 3.2 (HMAC-SHA256, qlen = hlen = 256), the attempt-th candidate (0-based)
func ref_rfc6979(x, h1, extra []byte, attempt int) []byte {
	V := bytes.Repeat([]byte{1}, 32)
	K := make([]byte, 32)
	K = ref_hmac_sha256(K, V, []byte{0}, x, h1, extra)
	V = ref_hmac_sha256(K, V)
	K = ref_hmac_sha256(K, V, []byte{1}, x, h1, extra)
	V = ref_hmac_sha256(K, V)
	for i := 0; ; i++ {
		V = ref_hmac_sha256(K, V)
		if i == attempt {
			return V
		}
		K = ref_hmac_sha256(K, V, []byte{0})
		V = ref_hmac_sha256(K, V)
	}
}

// C03: the deterministic nonce of RFC 6979 (HMAC-SHA256 DRBG): for every private key, message digest, optional
// 32 bytes of extra data and the first three candidates, RFC6979_Nonce equals the construction of RFC 6979 3.2 over
// RFC 2104. SHA-256 is a ghost function; equality is decided on the hashed streams.
func H_C03_RFC6979() {
	prv := zzverif.Bytes("private-key", 32)
	msg := zzverif.Bytes("digest", 32)
	var extra []byte
	if zzverif.Bool("extra-data") {
		extra = zzverif.Bytes("extra", 32)
	}
	counter := zzverif.Enum("counter", 3)
	out := make([]byte, 32)
	RFC6979_Nonce(prv, msg, extra, nil, counter, out)
	want := ref_rfc6979(prv, msg, extra, counter)
	zzverif.Assert("C03.rfc6979.nonce", bytes.Equal(out, want))
	zzverif.Reach("derived")
}
