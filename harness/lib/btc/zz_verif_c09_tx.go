//go:build verif

package btc

import (
	"bytes"
	"encoding/binary"

	"github.com/piotrnar/gocoin/lib/others/zzverif"
)

// ref_compact reads a CompactSize the way Bitcoin Core's ReadCompactSize does (minimal encodings only,
// values above MAX_SIZE=0x02000000 refused when range_check).
func ref_compact(b []byte) (v uint64, n int, ok bool) {
	if len(b) < 1 {
		return 0, 0, false
	}
	switch {
	case b[0] < 0xfd:
		v, n = uint64(b[0]), 1
	case b[0] == 0xfd:
		if len(b) < 3 {
			return 0, 0, false
		}
		v, n = uint64(binary.LittleEndian.Uint16(b[1:3])), 3
		if v < 0xfd {
			return 0, 0, false
		}
	case b[0] == 0xfe:
		if len(b) < 5 {
			return 0, 0, false
		}
		v, n = uint64(binary.LittleEndian.Uint32(b[1:5])), 5
		if v < 0x10000 {
			return 0, 0, false
		}
	default:
		if len(b) < 9 {
			return 0, 0, false
		}
		v, n = binary.LittleEndian.Uint64(b[1:9]), 9
		if v < 0x100000000 {
			return 0, 0, false
		}
	}
	if v > 0x02000000 {
		return 0, 0, false
	}
	return v, n, true
}

// ref_skip_script: CompactSize length + that many bytes.
func ref_skip_script(b []byte, off int) (int, bool) {
	if off > len(b) {
		return 0, false
	}
	l, n, ok := ref_compact(b[off:])
	if !ok {
		return 0, false
	}
	off += n
	if uint64(len(b)-off) < l {
		return 0, false
	}
	return off + int(l), true
}

func ref_vin(b []byte, off int) (cnt uint64, noff int, ok bool) {
	if off > len(b) {
		return 0, 0, false
	}
	cnt, n, ok := ref_compact(b[off:])
	if !ok {
		return 0, 0, false
	}
	off += n
	for i := uint64(0); i < cnt; i++ {
		if len(b)-off < 36 {
			return 0, 0, false
		}
		off += 36
		if off, ok = ref_skip_script(b, off); !ok {
			return 0, 0, false
		}
		if len(b)-off < 4 {
			return 0, 0, false
		}
		off += 4
	}
	return cnt, off, true
}

func ref_vout(b []byte, off int) (cnt uint64, noff int, ok bool) {
	if off > len(b) {
		return 0, 0, false
	}
	cnt, n, ok := ref_compact(b[off:])
	if !ok {
		return 0, 0, false
	}
	off += n
	for i := uint64(0); i < cnt; i++ {
		if len(b)-off < 8 {
			return 0, 0, false
		}
		off += 8
		if off, ok = ref_skip_script(b, off); !ok {
			return 0, 0, false
		}
	}
	return cnt, off, true
}

// ref_tx_decode transcribes Bitcoin Core's UnserializeTransaction (with witness allowed): it returns
// whether the prefix of b is a valid serialization and how many bytes it takes.
func ref_tx_decode(b []byte) (ok bool, consumed int, segwit bool) {
	if len(b) < 4 {
		return false, 0, false
	}
	off := 4
	var flags byte
	nin, off, ok := ref_vin(b, off)
	if !ok {
		return false, 0, false
	}
	var nout uint64
	if nin == 0 {
		// marker: read the flags byte
		if len(b)-off < 1 {
			return false, 0, false
		}
		flags = b[off]
		off++
		if flags != 0 {
			if nin, off, ok = ref_vin(b, off); !ok {
				return false, 0, false
			}
			if nout, off, ok = ref_vout(b, off); !ok {
				return false, 0, false
			}
		}
	} else {
		if nout, off, ok = ref_vout(b, off); !ok {
			return false, 0, false
		}
	}
	_ = nout
	if flags&1 != 0 {
		flags ^= 1
		segwit = true
		has := false
		for i := uint64(0); i < nin; i++ {
			if off > len(b) {
				return false, 0, false
			}
			cnt, n, ok := ref_compact(b[off:])
			if !ok {
				return false, 0, false
			}
			off += n
			for j := uint64(0); j < cnt; j++ {
				has = true
				if off, ok = ref_skip_script(b, off); !ok {
					return false, 0, false
				}
			}
		}
		if !has {
			return false, 0, false // superfluous witness record
		}
	}
	if flags != 0 {
		return false, 0, false // unknown optional data
	}
	if len(b)-off < 4 {
		return false, 0, false
	}
	return true, off + 4, segwit
}

func h_c09_newtx(maxL int) {
	zzverif.LoopBound("btc.NewTx", 2) // stated shape bound: <= 2 inputs, <= 2 outputs, <= 2 witness items per input
	zzverif.LoopBound("btc.NewTxIn", 3)
	zzverif.LoopBound("btc.NewTxOut", 3)
	zzverif.LoopBound("btc.ref_vin", 2)
	zzverif.LoopBound("btc.ref_vout", 2)
	zzverif.LoopBound("btc.ref_tx_decode", 2)
	zzverif.Bound("NewTx input", "every byte string of length 0.."+itoa(maxL))
	zzverif.Bound("decoded shape", "<=2 inputs, <=2 outputs, <=2 witness items per input, scripts and witness items <=3 bytes (larger shapes cut, counts themselves are unconstrained 64-bit values)")
	zzverif.AllocLimit(4096)
	L := zzverif.Len("L", 0, maxL)
	b := zzverif.Bytes("b", L)
	var tx *Tx
	var n int
	if zzverif.Panics(func() { tx, n = NewTx(b) }) {
		zzverif.Assert("C09.newtx.nopanic", false)
	}
	rok, rn, rseg := ref_tx_decode(b)
	if tx == nil {
		zzverif.Reach("refused")
		zzverif.Assert("C09.newtx.refuses-valid", !rok)
		return
	}
	zzverif.Reach("accepted")
	zzverif.Assert("C09.newtx.consumed", n > 0 && n <= L)
	for _, ti := range tx.TxIn {
		zzverif.Assert("C09.newtx.nil-input", ti != nil)
	}
	for _, to := range tx.TxOut {
		zzverif.Assert("C09.newtx.nil-output", to != nil)
	}
	re := tx.SerializeNew()
	zzverif.Assert("C09.newtx.reencode", bytes.Equal(re, b[:n]))
	zzverif.Assert("C09.newtx.accepts-invalid", rok && rn == n && rseg == (tx.SegWit != nil))
	if tx.SegWit != nil {
		zzverif.Reach("segwit")
	}
	// sizes, weight
	sz := TxSize(b)
	zzverif.Assert("C09.newtx.txsize", sz == n)
	tx.SetHash(b[:n])
	stripped := len(tx.Serialize())
	zzverif.Assert("C09.newtx.sizes", int(tx.Size) == n && int(tx.NoWitSize) == stripped)
	zzverif.Assert("C09.newtx.weight", tx.Weight() == 3*stripped+n && tx.VSize() == (3*stripped+n+3)/4)
}

func itoa(n int) string {
	if n == 0 {
		return "0"
	}
	s := ""
	for n > 0 {
		s = string(rune('0'+n%10)) + s
		n /= 10
	}
	return s
}

// C09: NewTx on every byte string up to the tier's length.
func H_C09_NewTx() {
	if zzverif.Tier() == 0 {
		h_c09_newtx(64)
	} else {
		h_c09_newtx(84) // 110 did not finish inside the path budget
	}
}

// C09: block decoding (header + transaction list, the non-hashing path BuildTxListExt(false)): never crashes or
// allocates out of proportion; on success the transactions tile the bytes after the count exactly and the block
// weight equals the BIP141 definition.
func H_C09_Block() {
	zzverif.LoopBound("btc.NewTx", 1)
	zzverif.LoopBound("btc.NewTxIn", 2)
	zzverif.LoopBound("btc.NewTxOut", 2)
	zzverif.LoopBound("(*btc.Block).BuildTxListExt", 2)
	zzverif.AllocLimit(4096)
	maxL := 104
	if zzverif.Tier() == 1 {
		maxL = 150
	}
	zzverif.Bound("block", "every byte string of length 0..104 (150 thorough); at most 2 transactions of <=1 input / <=1 output with scripts <=2 bytes (larger shapes cut; the count itself is unconstrained)")
	L := zzverif.Len("L", 0, maxL)
	data := zzverif.Bytes("data", L)
	var bl *Block
	var er error
	if zzverif.Panics(func() { bl, er = NewBlock(data) }) {
		zzverif.Assert("C09.block.newblock-nopanic", false)
	}
	if er != nil || bl == nil {
		zzverif.Reach("refused")
		return
	}
	if L <= 80 {
		zzverif.Reach("header-only")
		return
	}
	if zzverif.Panics(func() { er = bl.BuildTxListExt(false) }) {
		zzverif.Assert("C09.block.txlist-nopanic", false)
	}
	if er != nil {
		zzverif.Reach("bad-txlist")
		return
	}
	zzverif.Reach("decoded")
	zzverif.Assert("C09.block.count", bl.TxCount == len(bl.Txs) && bl.TxCount > 0)
	off := bl.TxOffset
	weight := uint(4 * (80 + VLenSize(uint64(bl.TxCount))))
	for _, tx := range bl.Txs {
		zzverif.Assert("C09.block.tx-nonnil", tx != nil)
		zzverif.Assert("C09.block.tx-raw", off+len(tx.Raw) <= L && bytes.Equal(tx.Raw, data[off:off+len(tx.Raw)]) && bytes.Equal(tx.SerializeNew(), tx.Raw))
		stripped := len(tx.Serialize())
		weight += uint(3*stripped + len(tx.Raw))
		off += len(tx.Raw)
	}
	zzverif.Assert("C09.block.weight", bl.BlockWeight == weight)
	cnt, n := VLen(data[80:])
	zzverif.Assert("C09.block.offsets", n > 0 && cnt == bl.TxCount && bl.TxOffset == 80+n)
}

// C09: the hashing path of block decoding (BuildTxList), which hands packs of >= 4096 bytes of transactions to
// workers: a block of a 4.1 kB coinbase followed by a segwit and a plain transaction (so that the second pack does
// not start with the coinbase), arbitrary lock-times / witness byte / output value: every transaction gets
// txid = sha256d(stripped serialisation), the segwit one wtxid = sha256d(raw), only the coinbase outputs are
// marked as coinbase, sizes and the block weight follow BIP141.
func H_C09_BlockPacks() {
	zzverif.Bound("block", "3 transactions: coinbase with a 4040-byte script, one segwit and one plain transaction of 1 input / 1 output; symbolic: lock-times, one witness byte, one output value")
	le32 := func(name string) []byte { return zzverif.Bytes(name, 4) }
	raw := make([]byte, 80)
	raw[0] = 4
	raw = append(raw, 3)
	// coinbase
	cb := []byte{1, 0, 0, 0, 1}
	cb = append(cb, make([]byte, 32)...)
	cb = append(cb, 0xff, 0xff, 0xff, 0xff, 0xfd, 0xc8, 0x0f) // 4040-byte script
	cb = append(cb, make([]byte, 4040)...)
	cb = append(cb, 0xff, 0xff, 0xff, 0xff, 1)
	cb = append(cb, zzverif.Bytes("cb.value", 8)...)
	cb = append(cb, 1, 0x51)
	cb = append(cb, le32("cb.locktime")...)
	// segwit transaction
	sw := []byte{2, 0, 0, 0, 0, 1, 1}
	sw = append(sw, bytes.Repeat([]byte{0xA1}, 32)...)
	sw = append(sw, 0, 0, 0, 0, 0, 0xfe, 0xff, 0xff, 0xff, 1)
	sw = append(sw, 1, 0, 0, 0, 0, 0, 0, 0, 1, 0x51)
	sw = append(sw, 1, 1, zzverif.U8("witness-byte"))
	sw = append(sw, le32("sw.locktime")...)
	// plain transaction
	pt := []byte{1, 0, 0, 0, 1}
	pt = append(pt, bytes.Repeat([]byte{0xB2}, 32)...)
	pt = append(pt, 1, 0, 0, 0, 0, 0xff, 0xff, 0xff, 0xff, 1)
	pt = append(pt, 2, 0, 0, 0, 0, 0, 0, 0, 1, 0x52)
	pt = append(pt, le32("pt.locktime")...)
	raw = append(append(append(raw, cb...), sw...), pt...)
	bl, er := NewBlock(raw)
	zzverif.Assert("C09.packs.newblock", er == nil && bl != nil)
	er = bl.BuildTxList()
	zzverif.Assert("C09.packs.decoded", er == nil && len(bl.Txs) == 3)
	parts := [][]byte{cb, sw, pt}
	weight := uint(4 * (80 + 1))
	for i, tx := range bl.Txs {
		zzverif.Assert("C09.packs.raw", bytes.Equal(tx.Raw, parts[i]))
		stripped := tx.Serialize()
		txid := Sha2Sum(stripped)
		zzverif.Assert("C09.packs.txid", tx.Hash.Hash == txid)
		if i == 1 {
			zzverif.Assert("C09.packs.wtxid", tx.SegWit != nil && tx.WTxID().Hash == Sha2Sum(tx.Raw))
		} else if i == 2 {
			zzverif.Assert("C09.packs.wtxid-plain", tx.WTxID().Hash == txid)
		}
		for _, o := range tx.TxOut {
			zzverif.Assert("C09.packs.coinbase-mark", o.WasCoinbase == (i == 0))
		}
		zzverif.Assert("C09.packs.size", int(tx.Size) == len(parts[i]) && int(tx.NoWitSize) == len(stripped))
		weight += uint(3*len(stripped) + len(parts[i]))
	}
	zzverif.Assert("C09.packs.weight", bl.BlockWeight == weight)
	zzverif.Assert("C09.packs.inputs", bl.TotalInputs == 3)
	zzverif.Reach("decoded")
}
