//go:build verif

package btc

import (
	"bytes"

	"github.com/piotrnar/gocoin/lib/others/zzverif"
)

// C09: CompactSize encode->decode round trip for every uint64.
func H_C09_VarintEncDec() {
	v := zzverif.U64("v")
	var buf [9]byte
	n := PutULe(buf[:], v)
	zzverif.Assert("C09.varint.size", n == VLenSize(v))
	got, m := VULe(buf[:n])
	zzverif.Assert("C09.varint.roundtrip", got == v && m == n)
	if v < 0xfd {
		zzverif.Reach("1-byte")
	} else if v > 0xffffffff {
		zzverif.Reach("9-byte")
	}
	// stream writer agrees with the buffer writer
	w := new(bytes.Buffer)
	WriteVlen(w, v)
	zzverif.Assert("C09.varint.writer", bytes.Equal(w.Bytes(), buf[:n]))
}

// C09: decoding any byte string either fails or re-encodes to exactly the consumed bytes
// (canonical / minimal form) and never reports a negative length.
func H_C09_VarintDecEnc() {
	L := zzverif.Len("L", 0, 9)
	b := zzverif.Bytes("b", L)
	v, n := VULe(b)
	le, n2 := VLen(b)
	// VLen is the length-typed reader: it agrees with VULe except that it refuses values that cannot be a length
	zzverif.Assert("C09.varint.agree", n == n2 && int(v) == le || n2 == 0 && le == 0 && (n == 0 || v >= 1<<31))
	if n == 0 {
		zzverif.Reach("refused")
		return
	}
	zzverif.Reach("accepted")
	zzverif.Known("C09-nonminimal-compactsize", v < 0xfd && n > 1 || v <= 0xffff && n > 3 || v <= 0xffffffff && n > 5)
	var buf [9]byte
	m := PutULe(buf[:], v)
	zzverif.Assert("C09.varint.canonical", m == n && bytes.Equal(buf[:m], b[:n]))
	zzverif.Known("C09-negative-length", v >= 1<<63)
	zzverif.Assert("C09.varint.nonneg", le >= 0)
}
