//go:build verif

package btc

import (
	"bytes"
	"math/big"

	"github.com/piotrnar/gocoin/lib/others/zzverif"
)

// C15: Base58 — Decodeb58(Encodeb58(a)) == a for every payload of the tier's lengths (leading zero bytes included).
func H_C15_Base58EncDec() {
	zzverif.IntMode()
	zzverif.Tabulate("btc.b58chr2int")
	var L int
	if zzverif.Tier() == 0 {
		lens := []int{0, 1, 2, 3, 25}
		L = lens[zzverif.Enum("Lidx", len(lens))]
	} else {
		lens := []int{0, 1, 2, 3, 4, 5, 21, 25, 26, 34, 38}
		L = lens[zzverif.Enum("Lidx", len(lens))]
	}
	zzverif.Bound("payload", "every byte string of length 0,1,2,3,25 (quick) / also 4,5,21,26,34,38 (thorough)")
	a := zzverif.Bytes("a", L)
	// case split on the number of leading zero bytes and on the number of base-58 digits of the value
	// (58^(n-1) <= value < 58^n): every loop-exit test of the encoder is then decided from intervals.
	z := zzverif.Len("zeros", 0, L)
	for i := 0; i < z; i++ {
		zzverif.Assume(a[i] == 0)
	}
	if z < L {
		zzverif.Assume(a[z] != 0)
	}
	maxDigits := L*138/100 + 1
	n := zzverif.Enum("digits", maxDigits+1)
	lo, hi := new(big.Int), new(big.Int).Exp(big.NewInt(58), big.NewInt(int64(n)), nil)
	if n > 0 {
		lo.Exp(big.NewInt(58), big.NewInt(int64(n-1)), nil)
	}
	// concrete pre-filter: the value of a payload with z leading zeros lies in [256^(L-z-1), 256^(L-z))
	zlo, zhi := new(big.Int), new(big.Int).Exp(big.NewInt(256), big.NewInt(int64(L-z)), nil)
	if z < L {
		zlo.Exp(big.NewInt(256), big.NewInt(int64(L-z-1)), nil)
	}
	if zhi.Cmp(lo) <= 0 || hi.Cmp(zlo) <= 0 {
		zzverif.Assume(false)
	}
	v := new(big.Int).SetBytes(a)
	zzverif.Assume(v.Cmp(lo) >= 0)
	zzverif.Assume(v.Cmp(hi) < 0)
	s := Encodeb58(a)
	back := Decodeb58(s)
	zzverif.Assert("C15.base58.roundtrip", bytes.Equal(back, a))
	if L == 25 && a[0] == 0 {
		zzverif.Reach("leading-zero")
	}
}

// h_b58_alphabet: 1 iff c is one of the 58 characters of the Bitcoin Base58 alphabet (reference predicate).
func h_b58_alphabet(c byte) int {
	if (c >= '1' && c <= '9') || (c >= 'A' && c <= 'Z' && c != 'I' && c != 'O') || (c >= 'a' && c <= 'z' && c != 'l') {
		return 1
	}
	return 0
}

// C15: Base58 decoding refuses every string containing a character outside the alphabet, and an accepted string
// re-encodes to itself (canonical spelling).
func H_C15_Base58DecEnc() {
	zzverif.IntMode()
	zzverif.Tabulate("btc.b58chr2int")
	L := zzverif.Len("L", 1, 2)
	zzverif.Bound("string", "every string of 1..2 characters (longer strings leave solver queries undecided within the time limit: stated reduced bound)")
	sb := zzverif.Bytes("s", L)
	s := string(sb)
	zzverif.Tabulate("btc.h_b58_alphabet")
	valid := true
	for i := 0; i < L; i++ {
		valid = valid && h_b58_alphabet(sb[i]) == 1
	}
	dec := Decodeb58(s)
	zzverif.Assert("C15.base58.alphabet", (dec != nil) == valid)
	if dec != nil {
		zzverif.Reach("accepted")
		zzverif.Assert("C15.base58.canonical", Encodeb58(dec) == s)
	} else {
		zzverif.Reach("refused")
	}
}
