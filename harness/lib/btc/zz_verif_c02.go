//go:build verif

package btc

import (
	"bytes"
	"crypto/sha256"
	"encoding/binary"

	"github.com/piotrnar/gocoin/lib/others/zzverif"
)

// ---------------------------------------------------------------------------------------------
// symbolic transaction

func h_c02_tx(nin, nout, slen int) *Tx {
	tx := new(Tx)
	tx.Version = zzverif.U32("version")
	tx.Lock_time = zzverif.U32("locktime")
	for i := 0; i < nin; i++ {
		ti := new(TxIn)
		copy(ti.Input.Hash[:], zzverif.Bytes("in.hash", 32))
		ti.Input.Vout = zzverif.U32("in.vout")
		ti.Sequence = zzverif.U32("in.seq")
		tx.TxIn = append(tx.TxIn, ti)
	}
	for i := 0; i < nout; i++ {
		to := new(TxOut)
		to.Value = zzverif.U64("out.value")
		to.Pk_script = zzverif.Bytes("out.script", slen)
		tx.TxOut = append(tx.TxOut, to)
	}
	return tx
}

func h_c02_shape() (nin, nout, slen int) {
	if zzverif.Tier() == 0 {
		nin = 1 + zzverif.Enum("nin-1", 2)
		nout = zzverif.Enum("nout", 3)
		slen = zzverif.Enum("slen", 2) * 2
	} else {
		nin = 1 + zzverif.Enum("nin-1", 3)
		nout = zzverif.Enum("nout", 4)
		slen = zzverif.Enum("slen", 4)
	}
	zzverif.Bound("transaction shape", "1..2 inputs, 0..2 outputs, output scripts of 0/2 bytes (quick); 1..3 inputs, 0..3 outputs, scripts 0..3 bytes (thorough); all field values symbolic")
	return
}

func ref_put32(b *bytes.Buffer, v uint32) { binary.Write(b, binary.LittleEndian, v) }
func ref_put64(b *bytes.Buffer, v uint64) { binary.Write(b, binary.LittleEndian, v) }

func ref_compactsize(b *bytes.Buffer, v uint64) {
	switch {
	case v < 0xfd:
		b.WriteByte(byte(v))
	case v <= 0xffff:
		b.WriteByte(0xfd)
		binary.Write(b, binary.LittleEndian, uint16(v))
	case v <= 0xffffffff:
		b.WriteByte(0xfe)
		binary.Write(b, binary.LittleEndian, uint32(v))
	default:
		b.WriteByte(0xff)
		binary.Write(b, binary.LittleEndian, v)
	}
}

func ref_sha256(b []byte) []byte {
	s := sha256.New()
	s.Write(b)
	return s.Sum(nil)
}

func ref_dsha256(b []byte) []byte { return ref_sha256(ref_sha256(b)) }

func ref_output(b *bytes.Buffer, o *TxOut) {
	ref_put64(b, o.Value)
	ref_compactsize(b, uint64(len(o.Pk_script)))
	b.Write(o.Pk_script)
}

// ref_strip_codeseparators: the script code with every OP_CODESEPARATOR opcode removed (opcode boundaries).
// ok=false when the script does not parse completely (outside the harness' precondition).
func ref_strip_codeseparators(sc []byte) (out []byte, ok bool) {
	i := 0
	for i < len(sc) {
		op := sc[i]
		n := 1
		switch {
		case op < 0x4c:
			n += int(op)
		case op == 0x4c:
			if i+1 >= len(sc) {
				return nil, false
			}
			n += 1 + int(sc[i+1])
		case op == 0x4d:
			if i+2 >= len(sc) {
				return nil, false
			}
			n += 2 + int(sc[i+1]) + int(sc[i+2])<<8
		case op == 0x4e:
			if i+4 >= len(sc) {
				return nil, false
			}
			n += 4 + int(sc[i+1]) + int(sc[i+2])<<8 + int(sc[i+3])<<16 + int(sc[i+4])<<24
		}
		if i+n > len(sc) {
			return nil, false
		}
		if op != 0xab {
			out = append(out, sc[i:i+n]...)
		}
		i += n
	}
	return out, true
}

// ref_legacy_sighash: the original signature hash (Bitcoin Core SignatureHash, SIGVERSION_BASE).
func ref_legacy_sighash(tx *Tx, scriptCode []byte, nIn int, hashType int32) []byte {
	ht := hashType & 0x1f
	acp := hashType&0x80 != 0
	if ht == 3 && nIn >= len(tx.TxOut) {
		one := make([]byte, 32)
		one[0] = 1
		return one
	}
	b := new(bytes.Buffer)
	ref_put32(b, tx.Version)
	if acp {
		ref_compactsize(b, 1)
	} else {
		ref_compactsize(b, uint64(len(tx.TxIn)))
	}
	for i, ti := range tx.TxIn {
		if acp && i != nIn {
			continue
		}
		b.Write(ti.Input.Hash[:])
		ref_put32(b, ti.Input.Vout)
		if i == nIn {
			ref_compactsize(b, uint64(len(scriptCode)))
			b.Write(scriptCode)
		} else {
			ref_compactsize(b, 0)
		}
		if i != nIn && (ht == 2 || ht == 3) {
			ref_put32(b, 0)
		} else {
			ref_put32(b, ti.Sequence)
		}
	}
	switch ht {
	case 2:
		ref_compactsize(b, 0)
	case 3:
		ref_compactsize(b, uint64(nIn+1))
		for i := 0; i < nIn; i++ {
			ref_put64(b, 0xffffffffffffffff)
			ref_compactsize(b, 0)
		}
		ref_output(b, tx.TxOut[nIn])
	default:
		ref_compactsize(b, uint64(len(tx.TxOut)))
		for _, o := range tx.TxOut {
			ref_output(b, o)
		}
	}
	ref_put32(b, tx.Lock_time)
	ref_put32(b, uint32(hashType))
	return ref_dsha256(b.Bytes())
}

// ref_bip143_sighash: BIP143 digest.
func ref_bip143_sighash(tx *Tx, scriptCode []byte, amount uint64, nIn int, hashType int32) []byte {
	ht := hashType & 0x1f
	acp := hashType&0x80 != 0
	zero := make([]byte, 32)
	hashPrevouts, hashSequence, hashOutputs := zero, zero, zero
	if !acp {
		b := new(bytes.Buffer)
		for _, ti := range tx.TxIn {
			b.Write(ti.Input.Hash[:])
			ref_put32(b, ti.Input.Vout)
		}
		hashPrevouts = ref_dsha256(b.Bytes())
	}
	if !acp && ht != 2 && ht != 3 {
		b := new(bytes.Buffer)
		for _, ti := range tx.TxIn {
			ref_put32(b, ti.Sequence)
		}
		hashSequence = ref_dsha256(b.Bytes())
	}
	if ht != 2 && ht != 3 {
		b := new(bytes.Buffer)
		for _, o := range tx.TxOut {
			ref_output(b, o)
		}
		hashOutputs = ref_dsha256(b.Bytes())
	} else if ht == 3 && nIn < len(tx.TxOut) {
		b := new(bytes.Buffer)
		ref_output(b, tx.TxOut[nIn])
		hashOutputs = ref_dsha256(b.Bytes())
	}
	b := new(bytes.Buffer)
	ref_put32(b, tx.Version)
	b.Write(hashPrevouts)
	b.Write(hashSequence)
	b.Write(tx.TxIn[nIn].Input.Hash[:])
	ref_put32(b, tx.TxIn[nIn].Input.Vout)
	ref_compactsize(b, uint64(len(scriptCode)))
	b.Write(scriptCode)
	ref_put64(b, amount)
	ref_put32(b, tx.TxIn[nIn].Sequence)
	b.Write(hashOutputs)
	ref_put32(b, tx.Lock_time)
	ref_put32(b, uint32(hashType))
	return ref_dsha256(b.Bytes())
}

func ref_tagged(tag string, msg []byte) []byte {
	th := ref_sha256([]byte(tag))
	s := sha256.New()
	s.Write(th)
	s.Write(th)
	s.Write(msg)
	return s.Sum(nil)
}

// ref_bip341_sighash: BIP341/BIP342 digest; ok=false where the BIPs define none.
func ref_bip341_sighash(tx *Tx, spent []*TxOut, nIn int, hashType byte, annexHash []byte, tapscript bool, leafHash []byte, codesepPos uint32) (digest []byte, ok bool) {
	if !(hashType <= 3 || (hashType >= 0x81 && hashType <= 0x83)) {
		return nil, false
	}
	outType := hashType & 3
	if hashType == 0 {
		outType = 1
	}
	acp := hashType&0x80 != 0
	b := new(bytes.Buffer)
	b.WriteByte(0) // epoch
	b.WriteByte(hashType)
	ref_put32(b, tx.Version)
	ref_put32(b, tx.Lock_time)
	if !acp {
		p, a, s, q := new(bytes.Buffer), new(bytes.Buffer), new(bytes.Buffer), new(bytes.Buffer)
		for i, ti := range tx.TxIn {
			p.Write(ti.Input.Hash[:])
			ref_put32(p, ti.Input.Vout)
			ref_put64(a, spent[i].Value)
			ref_compactsize(s, uint64(len(spent[i].Pk_script)))
			s.Write(spent[i].Pk_script)
			ref_put32(q, ti.Sequence)
		}
		b.Write(ref_sha256(p.Bytes()))
		b.Write(ref_sha256(a.Bytes()))
		b.Write(ref_sha256(s.Bytes()))
		b.Write(ref_sha256(q.Bytes()))
	}
	if outType == 1 {
		o := new(bytes.Buffer)
		for _, to := range tx.TxOut {
			ref_output(o, to)
		}
		b.Write(ref_sha256(o.Bytes()))
	}
	spendType := byte(0)
	if tapscript {
		spendType = 2
	}
	if annexHash != nil {
		spendType |= 1
	}
	b.WriteByte(spendType)
	if acp {
		b.Write(tx.TxIn[nIn].Input.Hash[:])
		ref_put32(b, tx.TxIn[nIn].Input.Vout)
		ref_put64(b, spent[nIn].Value)
		ref_compactsize(b, uint64(len(spent[nIn].Pk_script)))
		b.Write(spent[nIn].Pk_script)
		ref_put32(b, tx.TxIn[nIn].Sequence)
	} else {
		ref_put32(b, uint32(nIn))
	}
	if annexHash != nil {
		b.Write(annexHash)
	}
	if outType == 3 {
		if nIn >= len(tx.TxOut) {
			return nil, false
		}
		o := new(bytes.Buffer)
		ref_output(o, tx.TxOut[nIn])
		b.Write(ref_sha256(o.Bytes()))
	}
	if tapscript {
		b.Write(leafHash)
		b.WriteByte(0)
		ref_put32(b, codesepPos)
	}
	return ref_tagged("TapSighash", b.Bytes()), true
}

// ---------------------------------------------------------------------------------------------
// harnesses

// C02: legacy digest for every bounded transaction, every int32 hash type, every fully parsing script code.
func H_C02_Legacy() {
	nin, nout, slen := h_c02_shape()
	tx := h_c02_tx(nin, nout, slen)
	idx := zzverif.Enum("idx", nin)
	hashType := zzverif.I32("hashType")
	scl := zzverif.Len("scLen", 0, 3+zzverif.Tier()*2)
	sc := zzverif.Bytes("scriptCode", scl)
	stripped, ok := ref_strip_codeseparators(sc)
	zzverif.Assume(ok) // precondition: the script code parses completely (an unparseable script fails anyway)
	zzverif.Assumption("legacy script code parses completely (scripts with an unparseable tail fail evaluation regardless of the digest)")
	got := tx.SignatureHash(sc, idx, hashType)
	want := ref_legacy_sighash(tx, stripped, idx, hashType)
	zzverif.Assert("C02.legacy.digest", bytes.Equal(got, want))
	if hashType&0x1f == 3 && idx >= nout {
		zzverif.Reach("single-out-of-range")
	}
	if hashType&0x80 != 0 {
		zzverif.Reach("anyonecanpay")
	}
	if len(stripped) < len(sc) {
		zzverif.Reach("codeseparator-removed")
	}
}

// C02: BIP143 digest, and independence from the order of calls on one Tx object (cached midstates).
func H_C02_BIP143() {
	nin, nout, slen := h_c02_shape()
	tx := h_c02_tx(nin, nout, slen)
	tx.AllocVerVars()
	scl := zzverif.Len("scLen", 0, 3)
	// first an unrelated call with its own hash type / input (fills whatever caches it fills)
	if zzverif.Enum("warmup", 2) == 1 {
		tx.WitnessSigHash(zzverif.Bytes("scriptCode0", scl), zzverif.U64("amount0"), zzverif.Enum("idx0", nin), zzverif.I32("hashType0"))
		zzverif.Reach("after-warmup-call")
	}
	idx := zzverif.Enum("idx", nin)
	hashType := zzverif.I32("hashType")
	amount := zzverif.U64("amount")
	sc := zzverif.Bytes("scriptCode", scl)
	got := tx.WitnessSigHash(sc, amount, idx, hashType)
	want := ref_bip143_sighash(tx, sc, amount, idx, hashType)
	zzverif.Assert("C02.bip143.digest", bytes.Equal(got, want))
}

func h_c02_spent(n, slen int) []*TxOut {
	var s []*TxOut
	for i := 0; i < n; i++ {
		s = append(s, &TxOut{Value: zzverif.U64("spent.value"), Pk_script: zzverif.Bytes("spent.script", slen)})
	}
	return s
}

// C02: BIP341/342 digest incl. annex, tapscript extension and cache independence; where no digest is
// defined the function must not return one.
func H_C02_BIP341() {
	nin, nout, slen := h_c02_shape()
	tx := h_c02_tx(nin, nout, slen)
	tx.AllocVerVars()
	tx.Spent_outputs = h_c02_spent(nin, slen)
	tapscript := zzverif.Enum("tapscript", 2) == 1
	ed := new(ScriptExecutionData)
	if zzverif.Enum("annex", 2) == 1 {
		ed.M_annex_hash = zzverif.Bytes("annexHash", 32)
	}
	if tapscript {
		ed.M_tapleaf_hash = zzverif.Bytes("leafHash", 32)
		ed.M_codeseparator_pos = zzverif.U32("codesepPos")
	}
	if zzverif.Enum("warmup", 2) == 1 {
		tx.TaprootSigHash(new(ScriptExecutionData), zzverif.Enum("idx0", nin), zzverif.U8("hashType0"), false)
	}
	idx := zzverif.Enum("idx", nin)
	hashType := zzverif.U8("hashType")
	got := tx.TaprootSigHash(ed, idx, hashType, tapscript)
	want, defined := ref_bip341_sighash(tx, tx.Spent_outputs, idx, hashType, ed.M_annex_hash, tapscript, ed.M_tapleaf_hash, ed.M_codeseparator_pos)
	if !defined {
		zzverif.Reach("undefined")
		zzverif.Assert("C02.bip341.no-digest-when-undefined", got == nil)
		return
	}
	zzverif.Reach("defined")
	zzverif.Assert("C02.bip341.digest", got != nil && bytes.Equal(got, want))
}
