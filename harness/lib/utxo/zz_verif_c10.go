//go:build verif

package utxo

import (
	"bytes"
	"github.com/piotrnar/gocoin/lib/btc"

	"github.com/piotrnar/gocoin/lib/others/zzverif"
)

// h_script picks a script from the families of C10: arbitrary short scripts, the specially compressed
// templates with symbolic payload, near misses of the templates, and CompactSize-boundary lengths.
func h_script(name string) []byte {
	switch zzverif.Enum(name+".family", 8) {
	case 0:
		return zzverif.Bytes(name, zzverif.Len(name+".len", 0, 4))
	case 1: // P2PKH template
		s := zzverif.Bytes(name, 25)
		s[0], s[1], s[2], s[23], s[24] = 0x76, 0xa9, 0x14, 0x88, 0xac
		return s
	case 2: // P2SH template
		s := zzverif.Bytes(name, 23)
		s[0], s[1], s[22] = 0xa9, 0x14, 0x87
		return s
	case 3: // P2PK with a compressed key
		s := zzverif.Bytes(name, 35)
		s[0], s[34] = 33, 0xac
		return s
	case 4: // 25 bytes, anything (near misses of P2PKH included)
		return zzverif.Bytes(name, 25)
	case 5: // 23 bytes, anything
		return zzverif.Bytes(name, 23)
	case 6: // 35 bytes, anything
		return zzverif.Bytes(name, 35)
	default: // lengths around the CompactSize boundary (content symbolic in the first bytes)
		n := 246 + zzverif.Enum(name+".longlen", 3)*3 // 246, 249, 252 (+6 in the compressed format = 252, 255, 258)
		s := make([]byte, n)
		copy(s, zzverif.Bytes(name, 3))
		return s
	}
}

func h_record(maxOuts int) *UtxoRec {
	rec := new(UtxoRec)
	copy(rec.TxID[:], zzverif.Bytes("txid", 32))
	rec.Coinbase = zzverif.Bool("coinbase")
	rec.InBlock = zzverif.U32("height")
	n := zzverif.Len("nouts", 1, maxOuts)
	rec.Outs = make([]*UtxoTxOut, n)
	for i := 0; i < n; i++ {
		if zzverif.Enum("present", 2) == 1 {
			rec.Outs[i] = &UtxoTxOut{Value: zzverif.U64("value"), PKScr: h_script("scr")}
		}
	}
	return rec
}

func h_same(a, b *UtxoRec) bool {
	if a.TxID != b.TxID || a.Coinbase != b.Coinbase || a.InBlock != b.InBlock || len(a.Outs) != len(b.Outs) {
		return false
	}
	for i := range a.Outs {
		if (a.Outs[i] == nil) != (b.Outs[i] == nil) {
			return false
		}
		if a.Outs[i] != nil && (a.Outs[i].Value != b.Outs[i].Value || !bytes.Equal(a.Outs[i].PKScr, b.Outs[i].PKScr)) {
			return false
		}
	}
	return true
}

// C10: plain record format: store -> reload gives the record back; single-output lookup agrees.
func H_C10_PlainRoundTrip() {
	maxOuts := 2 + zzverif.Tier()
	zzverif.Bound("record shape", "1..2 (quick) / 1..3 (thorough) output slots, each present or spent; scripts from 8 families; values, height, txid symbolic")
	rec := h_record(maxOuts)
	buf := SerializeU(rec, make([]byte, 0x1000))
	any := false
	for _, o := range rec.Outs {
		if o != nil {
			any = true
		}
	}
	if !any {
		zzverif.Assert("C10.plain.empty-record-not-stored", buf == nil)
		return
	}
	zzverif.Reach("stored")
	zzverif.Assert("C10.plain.stored", buf != nil)
	back := NewUtxoRecU(*buf)
	zzverif.Assert("C10.plain.roundtrip", h_same(rec, back))
	for v := 0; v < len(rec.Outs)+1; v++ {
		one := OneUtxoRecU(*buf, uint32(v))
		if v < len(rec.Outs) && rec.Outs[v] != nil {
			zzverif.Assert("C10.plain.lookup", one != nil && one.Value == rec.Outs[v].Value && bytes.Equal(one.Pk_script, rec.Outs[v].PKScr) &&
				one.BlockHeight == rec.InBlock && one.WasCoinbase == rec.Coinbase && int(one.VoutCount) == len(rec.Outs))
		} else {
			zzverif.Assert("C10.plain.lookup-spent", one == nil)
		}
	}
}

// C10: compressed record format, scripts from all families except uncompressed-key P2PK (needs curve
// arithmetic: H_C10_P2PK65), amounts from a concrete boundary set (the amount codec itself is decided in
// Int mode by H_C10_Amount).
func H_C10_CompressedRoundTrip() {
	maxOuts := 2 // three slots with ten amounts each did not finish in the thorough budget
	rec := h_record(maxOuts)
	amounts := []uint64{0, 1, 10, 2100000000000000, 9, 11, 100000000, 123456789, 2099999999999999, 50 * 100000000}
	if zzverif.Tier() == 0 {
		amounts = amounts[:4]
	}
	for _, o := range rec.Outs {
		if o != nil {
			o.Value = amounts[zzverif.Enum("amount", len(amounts))]
		}
	}
	buf := SerializeC(rec, make([]byte, 0x1000))
	any := false
	for _, o := range rec.Outs {
		if o != nil {
			any = true
		}
	}
	if !any {
		zzverif.Assert("C10.compressed.empty-record-not-stored", buf == nil)
		return
	}
	zzverif.Reach("stored")
	back := new(UtxoRec)
	NewUtxoRecOwnC(*buf, back, nil)
	zzverif.Assert("C10.compressed.roundtrip", h_same(rec, back))
	for v := 0; v < len(rec.Outs)+1; v++ {
		one := OneUtxoRecC(*buf, uint32(v))
		if v < len(rec.Outs) && rec.Outs[v] != nil {
			zzverif.Assert("C10.compressed.lookup", one != nil && one.Value == rec.Outs[v].Value && bytes.Equal(one.Pk_script, rec.Outs[v].PKScr) &&
				one.BlockHeight == rec.InBlock && one.WasCoinbase == rec.Coinbase && int(one.VoutCount) == len(rec.Outs))
		} else {
			zzverif.Assert("C10.compressed.lookup-spent", one == nil)
		}
	}
}

// C10: amount compression round trip for every amount in [0, 21e6 BTC] (Int mode: the *10 / /10 chains
// are linear over mathematical integers; bit-blasting 64-bit divisions by 10 does not finish).
func H_C10_Amount() {
	zzverif.IntMode()
	n := zzverif.U64("amount")
	zzverif.Assume(n <= 21000000*100000000)
	zzverif.Bound("amount", "every n in [0, 2 100 000 000 000 000] satoshi")
	c := btc.CompressAmount(n)
	back := btc.DecompressAmount(c)
	zzverif.Assert("C10.amount.roundtrip", back == n)
	if n%10 != 0 {
		zzverif.Reach("no-trailing-zero")
	}
	if c < n {
		zzverif.Reach("shorter")
	}
}
