//go:build verif

package utxo

import (
	"bytes"
	"errors"
	"fmt"
	"io"
	"os"
	"strings"
	"time"

	"github.com/piotrnar/gocoin/lib/btc"
	"github.com/piotrnar/gocoin/lib/others/zzverif"
)

// ---- a ghost file system (engine only): files are byte strings, every mutating operation is a possible crash point

type h07_crash struct{}

// (os.ErrNotExist is nil under the engine: the initialisers of internal packages are not run)
var h07_enoent = errors.New("no such file or directory")

type h07_handle struct {
	name string
	pos  int
}

type h07_fs struct {
	files   map[string][]byte
	handles map[*os.File]*h07_handle
	ops     int // mutating operations performed so far
	crashAt int // crash (panic h07_crash) instead of performing this mutating operation; 0 = never
}

func (fs *h07_fs) tick() {
	fs.ops++
	if fs.ops == fs.crashAt {
		panic(h07_crash{})
	}
}

func (fs *h07_fs) open(name string) (*os.File, error) {
	if _, ok := fs.files[name]; !ok {
		return nil, h07_enoent
	}
	f := new(os.File)
	fs.handles[f] = &h07_handle{name: name}
	return f, nil
}

func (fs *h07_fs) install() {
	zzverif.Stub("os / filepath file functions: an in-memory file map; every create / write / rename / remove is a possible crash point (os.WriteFile = create, then write)")
	zzverif.Replace("os.MkdirAll", func(name string, perm os.FileMode) error { return nil })
	zzverif.Replace("os.Create", func(name string) (*os.File, error) {
		fs.tick()
		fs.files[name] = []byte{}
		return fs.open(name)
	})
	zzverif.Replace("os.Open", func(name string) (*os.File, error) { return fs.open(name) })
	zzverif.Replace("os.Remove", func(name string) error {
		if _, ok := fs.files[name]; !ok {
			return h07_enoent
		}
		fs.tick()
		delete(fs.files, name)
		return nil
	})
	zzverif.Replace("os.Rename", func(from, to string) error {
		d, ok := fs.files[from]
		if !ok {
			return h07_enoent
		}
		fs.tick()
		fs.files[to] = d
		delete(fs.files, from)
		return nil
	})
	zzverif.Replace("os.WriteFile", func(name string, data []byte, perm os.FileMode) error {
		fs.tick()
		fs.files[name] = []byte{}
		fs.tick()
		fs.files[name] = append([]byte{}, data...)
		return nil
	})
	zzverif.Replace("os.ReadFile", func(name string) ([]byte, error) {
		d, ok := fs.files[name]
		if !ok {
			return nil, h07_enoent
		}
		return append([]byte{}, d...), nil
	})
	zzverif.Replace("(*os.File).Write", func(f *os.File, b []byte) (int, error) {
		h := fs.handles[f]
		fs.tick()
		d := fs.files[h.name]
		if h.pos == len(d) {
			d = append(d, b...)
		} else {
			for len(d) < h.pos+len(b) {
				d = append(d, 0)
			}
			copy(d[h.pos:], b)
		}
		fs.files[h.name] = d
		h.pos += len(b)
		return len(b), nil
	})
	zzverif.Replace("(*os.File).Read", func(f *os.File, b []byte) (int, error) {
		h := fs.handles[f]
		d := fs.files[h.name]
		if h.pos >= len(d) {
			if len(b) == 0 {
				return 0, nil
			}
			return 0, io.EOF
		}
		n := copy(b, d[h.pos:])
		h.pos += n
		return n, nil
	})
	zzverif.Replace("(*os.File).Close", func(f *os.File) error { return nil })
	zzverif.Replace("path/filepath.Glob", func(pattern string) ([]string, error) {
		// only "<dir>*<suffix>" is used
		i := strings.Index(pattern, "*")
		var res []string
		for n := range fs.files {
			if len(n) >= len(pattern)-1 && strings.HasPrefix(n, pattern[:i]) && strings.HasSuffix(n, pattern[i+1:]) && !strings.Contains(n[i:], "/") {
				res = append(res, n)
			}
		}
		return res, nil
	})
}

// ---- a small block tree over four records
//
//	G (height 99): record 1 = {v0, v1}
//	A (100, on G): spends 1.0, creates record 2 = {n0, 7}
//	B (100, on G): spends 1.1, creates record 3 = {5, 6}
//	A2 (101, on A): spends 2.0 and 1.1 (record 1 disappears), creates record 4 = {9}
type h07_block struct {
	name    string
	hash    []byte
	parent  int // index into the tree, -1 for G
	height  uint32
	changes func() *BlockChanges
	block   *btc.Block
	state   map[byte][]uint64 // the unspent set after this block (reference: replay from G)
}

const (
	h07G = iota
	h07A
	h07B
	h07A2
)

func h07_blk(recs ...*UtxoRec) *btc.Block {
	bl := new(btc.Block)
	for _, r := range recs {
		tx := new(btc.Tx)
		tx.Hash.Hash = r.TxID
		for range r.Outs {
			tx.TxOut = append(tx.TxOut, &btc.TxOut{})
		}
		bl.Txs = append(bl.Txs, tx)
	}
	return bl
}

func h07_tree(v0, v1, n0 uint64) []*h07_block {
	hash := func(b byte) []byte { return bytes.Repeat([]byte{b}, 32) }
	id := func(i byte) (k [32]byte) { k[0], k[9] = i, i; return }
	both := []bool{true, true}
	t := make([]*h07_block, 4)
	t[h07G] = &h07_block{name: "G", hash: hash(0x60), parent: -1, height: 99, state: map[byte][]uint64{1: {v0, v1}}}
	t[h07A] = &h07_block{name: "A", hash: hash(0xA1), parent: h07G, height: 100, state: map[byte][]uint64{1: {0, v1}, 2: {n0, 7}},
		changes: func() *BlockChanges {
			return &BlockChanges{Height: 100, LastKnownHeight: 101,
				DeledTxs: map[[32]byte][]bool{id(1): {true, false}},
				UndoData: map[[32]byte]*UtxoRec{id(1): h17_rec(1, 50, []uint64{v0, v1}, []bool{true, false})},
				AddList:  []*UtxoRec{h17_rec(2, 100, []uint64{n0, 7}, both)}}
		},
		block: h07_blk(h17_rec(2, 100, []uint64{n0, 7}, both))}
	t[h07B] = &h07_block{name: "B", hash: hash(0xB2), parent: h07G, height: 100, state: map[byte][]uint64{1: {v0, 0}, 3: {5, 6}},
		changes: func() *BlockChanges {
			return &BlockChanges{Height: 100, LastKnownHeight: 101,
				DeledTxs: map[[32]byte][]bool{id(1): {false, true}},
				UndoData: map[[32]byte]*UtxoRec{id(1): h17_rec(1, 50, []uint64{v0, v1}, []bool{false, true})},
				AddList:  []*UtxoRec{h17_rec(3, 100, []uint64{5, 6}, both)}}
		},
		block: h07_blk(h17_rec(3, 100, []uint64{5, 6}, both))}
	t[h07A2] = &h07_block{name: "A2", hash: hash(0xA3), parent: h07A, height: 101, state: map[byte][]uint64{2: {0, 7}, 4: {9}},
		changes: func() *BlockChanges {
			return &BlockChanges{Height: 101, LastKnownHeight: 101,
				DeledTxs: map[[32]byte][]bool{id(2): {true, false}, id(1): {false, true}},
				UndoData: map[[32]byte]*UtxoRec{id(2): h17_rec(2, 100, []uint64{n0, 7}, []bool{true, false}), id(1): h17_rec(1, 50, []uint64{v0, v1}, []bool{false, true})},
				AddList:  []*UtxoRec{h17_rec(4, 101, []uint64{9}, []bool{true})}}
		},
		block: h07_blk(h17_rec(4, 101, []uint64{9}, []bool{true}))}
	return t
}

func h07_tip(t []*h07_block, db *UnspentDB) int {
	for i, b := range t {
		if db.LastBlockHeight == b.height && bytes.Equal(db.LastBlockHash, b.hash) {
			return i
		}
	}
	return -1
}

func h07_connect(t []*h07_block, db *UnspentDB, i int) { db.CommitBlockTxs(t[i].changes(), t[i].hash) }
func h07_undo(t []*h07_block, db *UnspentDB, i int) {
	db.UndoBlockTxs(t[i].block, t[t[i].parent].hash)
}

// h07_save: what Idle() does when a snapshot is due, then until the snapshot is complete (its writer goroutines have
// finished)
func h07_save(db *UnspentDB) {
	db.Mutex.Lock()
	db.Save()
	db.Mutex.Unlock()
	db.writingDone.Wait()
	db.lastFileClosed.Wait()
}

// h07_move brings the store from tip `from` to tip `to` along the tree: disconnect up to the fork point, connect down
func h07_move(t []*h07_block, db *UnspentDB, from, to int) {
	anc := map[int]bool{}
	for i := to; i >= 0; i = t[i].parent {
		anc[i] = true
	}
	for !anc[from] {
		h07_undo(t, db, from)
		from = t[from].parent
	}
	var down []int
	for i := to; i != from; i = t[i].parent {
		down = append([]int{i}, down...)
	}
	for _, i := range down {
		h07_connect(t, db, i)
	}
}

// C07 (the unspent-output store): a session on a small block tree - connect, disconnect, snapshot - that ends in a
// clean Close or in a crash before an arbitrary file operation; the directory is then opened again. The store must
// come up at a tip it had been at (the last completed snapshot's, or that of a snapshot begun later; after a clean
// Close exactly the last tip) holding exactly the replay of that tip's chain, and bringing it to the session's final
// tip - disconnecting with the undo files found in the directory, connecting the remaining blocks - must give the
// replay of that tip's chain.
func H_C07_UtxoStore() { h07_session(false) }

// C07: the same with a snapshot that is written in two pieces (a fifth record with a 70000-byte script: the writer
// goroutine gets a 64 KB buffer and the rest), so that a crash can fall between the two writes: from a snapshot at G,
// two operations, crash before the k-th file operation.
func H_C07_SnapshotInTwoWrites() { h07_session(true) }

func h07_session(big bool) {
	zzverif.LazyGo()
	// one output value is arbitrary (within the 9-byte class of the record encoding, so that it does not fork the
	// serialiser), the others are fixed
	v0, v1, n0 := zzverif.Range64("rec1.value", 2100000000000000), uint64(1234567), uint64(50000)
	zzverif.Assume(v0 >= 1<<32)
	t := h07_tree(v0, v1, n0)
	ids := []byte{1, 2, 3, 4}
	startAt := []int{h07G, h07A}[zzverif.Enum("start-at", 2)]
	nops := 3 + 2*zzverif.Tier()
	crashAt := zzverif.Enum("crash-before-file-op", 16+12*zzverif.Tier()) // 0: no crash
	var filler *[]byte
	if big {
		zzverif.Assume(startAt == h07G && crashAt < 14)
		nops = 2
		UTXO_WRITING_TIME_TARGET = 0 // write at full speed (no pacing by the clock)
		r := h17_rec(0, 40, []uint64{777}, []bool{true})
		r.Outs[0].PKScr = make([]byte, 70000)
		filler = Serialize(r, nil)
		zzverif.Bound("two-piece snapshot", "a fifth record of 70 KB present in every state; snapshot at G; 2 operations; crash before the k-th file operation, k in 1..13; UTXO_WRITING_TIME_TARGET = 0")
	}
	zzverif.Bound("workload", "a tree of four blocks over four records (one output value arbitrary in 2^32..21e14, the others fixed); the directory holds a snapshot at G, or at A with A's undo file; 3 (thorough 5) operations from {connect a block that fits the tip, disconnect the tip, snapshot}; crash before the k-th create / write / rename / remove, k in 1..15 (27), or a clean Close; snapshots small enough to be written in one piece (an aborted snapshot is outside)")
	var ops []int // 0..3: connect block i; 4: disconnect; 5: snapshot
	tip := startAt
	for s := 0; s < nops; s++ {
		o := zzverif.Enum("op", 5) + 1
		switch {
		case o <= 3:
			zzverif.Assume(t[o].parent == tip)
			tip = o
		case o == 4:
			zzverif.Assume(tip != h07G)
			tip = t[tip].parent
		}
		ops = append(ops, o)
	}
	target := tip

	dir := "/zzverif/"
	var fs *h07_fs
	if zzverif.Symbolic() {
		fs = &h07_fs{files: map[string][]byte{}, handles: map[*os.File]*h07_handle{}}
		fs.install()
	}
	open := func() *UnspentDB { return NewUnspentDb(&NewUnspentOpts{Dir: dir}) }

	// ---- the session; what it has begun and completed is recorded as events ("B<i>" / "D<i>" for operation i, "CB" /
	// "CD" for the final Close) - in memory under the engine, in the child's journal natively
	earlier := func() {
		db := NewUnspentDb(&NewUnspentOpts{Dir: dir, Rescan: true})
		db.HashMap[1][h17_key(1)] = Serialize(h17_rec(1, 50, []uint64{v0, v1}, []bool{true, true}), nil)
		if filler != nil {
			db.HashMap[0][h17_key(0)] = filler
		}
		db.LastBlockHash = append([]byte{}, t[h07G].hash...)
		db.LastBlockHeight = 99
		db.DirtyDB.Set()
		if startAt == h07A {
			h07_connect(t, db, h07A)
		}
		db.Close()
	}
	run := func(note func(string)) (crashed bool) {
		cur := startAt
		crashed = zzverif.Panics(func() {
			db := open()
			for i, o := range ops {
				note(fmt.Sprint("B", i))
				switch {
				case o <= 3:
					h07_connect(t, db, o)
					cur = o
				case o == 4:
					h07_undo(t, db, cur)
					cur = t[cur].parent
				case o == 5:
					h07_save(db)
				}
				note(fmt.Sprint("D", i))
				zzverif.Assert("C07.utxo.online.state", h07_tip(t, db) == cur && h17_same(h17_state(db, ids), t[cur].state))
			}
			note("CB")
			db.Close()
			note("CD")
		})
		if crashed {
			zzverif.KillGoroutines() // they died with the process
		}
		return
	}
	// durable: the tip of the last completed snapshot; pending: that of a snapshot begun since; stale[b]: b was
	// disconnected and a competing block of its height connected (or being connected) since - its undo file is not b's
	progress := func(has func(string) bool) (durable, pending int, stale map[int]bool) {
		durable, pending, stale = startAt, -1, map[int]bool{}
		cur := startAt
		disconnected := map[int]bool{}
		for i, o := range ops {
			if !has(fmt.Sprint("B", i)) {
				return
			}
			done := has(fmt.Sprint("D", i))
			switch {
			case o <= 3:
				for d := range disconnected {
					if d != o && t[d].height == t[o].height {
						stale[d] = true
					}
				}
				if done {
					cur = o
					delete(disconnected, o)
					delete(stale, o)
				}
			case o == 4:
				if done {
					disconnected[cur] = true
					cur = t[cur].parent
				}
			case o == 5:
				pending = cur
				if done {
					durable, pending = cur, -1
				}
			}
			if !done {
				return
			}
		}
		if has("CB") {
			pending = cur
			if has("CD") {
				durable, pending = cur, -1
			}
		}
		return
	}
	check := func(crashed bool, durable, pending int, stale map[int]bool, fail func(label string)) {
		var db *UnspentDB
		if zzverif.Hangs(func() { db = open() }) {
			fail("C07.utxo.reopen.terminates")
			return
		}
		at := h07_tip(t, db)
		ok := at >= 0 && (at == durable || at == pending)
		if !crashed {
			ok = at == target
		}
		if !ok {
			fail("C07.utxo.reopen.tip")
			return
		}
		if !h17_same(h17_state(db, ids), t[at].state) {
			fail("C07.utxo.reopen.state-is-replay")
			return
		}
		// feeding the remaining blocks: same final state as the uninterrupted run.
		// known finding: undo files are named by height alone. A snapshot of tip T stays on disk while T is disconnected
		// and a competing block of the same height is connected - that block's undo data replaces T's. A crash before
		// the next snapshot brings the store up at T with an undo file that is not T's.
		// (T: any block that has to be disconnected on the way from the reopened tip to the final one.)
		anc, staleOnPath := map[int]bool{}, false
		for i := target; i >= 0; i = t[i].parent {
			anc[i] = true
		}
		for i := at; !anc[i]; i = t[i].parent {
			staleOnPath = staleOnPath || stale[i]
		}
		zzverif.Known("C07-undo-file-of-other-branch", crashed && staleOnPath)
		moved := !zzverif.Panics(func() { h07_move(t, db, at, target) })
		if !moved || h07_tip(t, db) != target || !h17_same(h17_state(db, ids), t[target].state) {
			fail("C07.utxo.catch-up.state")
		}
	}

	if zzverif.Symbolic() {
		earlier()
		fs.ops = 0
		fs.crashAt = crashAt
		events := map[string]bool{}
		crashed := run(func(e string) { events[e] = true })
		if crashed {
			zzverif.Reach("crashed")
		} else {
			zzverif.Assume(crashAt == 0 || fs.ops < crashAt) // a crash point beyond the session's last file operation is "no crash"
			zzverif.Reach("clean-close")
		}
		fs.crashAt = 0
		fs.handles = map[*os.File]*h07_handle{}
		durable, pending, stale := progress(func(e string) bool { return events[e] })
		check(crashed, durable, pending, stale, func(label string) { zzverif.Assert(label, false) })
		return
	}
	// ---- native: the same session in a child process killed at every file-operation boundary (see zzverif/crash.go)
	if d, ok := zzverif.InCrashChild(); ok {
		dir = d + "/db/"
		os.MkdirAll(dir, 0770)
		earlier()
		zzverif.CrashMark()
		zzverif.ChildRun(d, func() { run(func(e string) { zzverif.Journal(d, e) }) })
		zzverif.Journal(d, "END")
		os.Exit(0)
	}
	want := zzverif.ReplayLabel()
	var failures []string
	start := time.Now()
	for n := -1; n < 400 && time.Since(start) < 16*time.Second; n++ {
		if n > 0 && n%2 == 1 {
			continue // the state after a call's return is the state at the next call's entry
		}
		d, _ := os.MkdirTemp("", "zzverif_c07_")
		finished := zzverif.RunCrashChild(d, n, zzverif.FileSyscalls)
		if f := zzverif.ChildFailure(d); f != "" {
			failures = append(failures, f)
		} else {
			durable, pending, stale := progress(func(e string) bool { return zzverif.JournalHas(d, e) })
			dir = d + "/db/"
			check(!finished, durable, pending, stale, func(label string) { failures = append(failures, label) })
		}
		os.RemoveAll(d)
		if finished && n >= 0 || !zzverif.HaveGdb() || (len(failures) > 0 && failures[len(failures)-1] == want) {
			break
		}
	}
	if len(failures) > 0 {
		label := failures[0]
		for _, f := range failures {
			if f == want {
				label = want
			}
		}
		zzverif.Assert(label, false)
	}
}
