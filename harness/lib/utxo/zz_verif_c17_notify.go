//go:build verif

package utxo

import (
	"bytes"
	"os"

	"github.com/piotrnar/gocoin/lib/btc"
	"github.com/piotrnar/gocoin/lib/others/zzverif"
)

type h_note struct {
	add  bool
	txid [32]byte
	outs []bool   // delete mask, or presence mask of an added record
	vals []uint64 // values of the outputs present in the record handed over
}

func h17_rec(id byte, height uint32, vals []uint64, present []bool) *UtxoRec {
	r := &UtxoRec{InBlock: height, Outs: make([]*UtxoTxOut, len(vals))}
	r.TxID[0] = id
	r.TxID[9] = id
	for i := range vals {
		if present[i] {
			r.Outs[i] = &UtxoTxOut{Value: vals[i], PKScr: []byte{0x51, byte(i)}}
		}
	}
	return r
}

func h17_key(id byte) (k UtxoKeyType) {
	k[0] = id
	return
}

// h17_state: the database content as (txid byte -> values of present outputs, 0 for absent; absent record = nil)
func h17_state(db *UnspentDB, ids []byte) map[byte][]uint64 {
	st := map[byte][]uint64{}
	for _, id := range ids {
		v := db.HashMap[id][h17_key(id)]
		if v == nil {
			continue
		}
		rec := NewUtxoRec(*v)
		var vals []uint64
		for _, o := range rec.Outs {
			if o == nil {
				vals = append(vals, 0)
			} else {
				vals = append(vals, o.Value)
			}
		}
		st[id] = vals
	}
	return st
}

func h17_same(a, b map[byte][]uint64) bool {
	if len(a) != len(b) {
		return false
	}
	for k, va := range a {
		vb, ok := b[k]
		if !ok || len(va) != len(vb) {
			return false
		}
		for i := range va {
			if va[i] != vb[i] {
				return false
			}
		}
	}
	return true
}

// C17 (link to the UTXO database): connecting a block's change set and disconnecting it again. Pre-state: record #1
// with two outputs of arbitrary value, the second present or already spent. The block spends an arbitrary subset of
// #1's present outputs and creates record #2 (two outputs). CommitBlockTxs must notify exactly one deletion (the
// full record and the mask) and one addition, and leave the map equal to pre minus spent plus created;
// UndoBlockTxs must notify the removal of #2 and the re-addition of exactly the spent outputs, and restore the map.
func H_C17_Notifications() {
	dir := "/zzverif"
	if zzverif.Symbolic() {
		// the undo file lives in a ghost file system (a map from name to content)
		zzverif.Stub("os.WriteFile / Rename / ReadFile / Remove / MkdirAll: an in-memory map from file name to content")
		files := map[string][]byte{}
		zzverif.Replace("os.WriteFile", func(name string, data []byte, perm os.FileMode) error {
			files[name] = append([]byte{}, data...)
			return nil
		})
		zzverif.Replace("os.Rename", func(from, to string) error {
			files[to] = files[from]
			delete(files, from)
			return nil
		})
		zzverif.Replace("os.ReadFile", func(name string) ([]byte, error) {
			d, ok := files[name]
			if !ok {
				return nil, os.ErrNotExist
			}
			return append([]byte{}, d...), nil
		})
		zzverif.Replace("os.Remove", func(name string) error { delete(files, name); return nil })
		zzverif.Replace("os.MkdirAll", func(name string, perm os.FileMode) error { return nil })
	} else {
		dir, _ = os.MkdirTemp("", "zzverif_c17_")
		defer os.RemoveAll(dir)
	}
	db := new(UnspentDB)
	for i := range db.HashMap {
		db.HashMap[i] = make(map[UtxoKeyType]*[]byte)
	}
	db.dir_undo = dir + "/undo/"
	db.UnwindBufLen = 2560
	db.LastBlockHash = make([]byte, 32)
	db.LastBlockHeight = 99
	var notes []h_note
	db.CB.NotifyTxAdd = func(r *UtxoRec) {
		n := h_note{add: true, txid: r.TxID}
		for _, o := range r.Outs {
			n.outs = append(n.outs, o != nil)
			if o != nil {
				n.vals = append(n.vals, o.Value)
			} else {
				n.vals = append(n.vals, 0)
			}
		}
		notes = append(notes, n)
	}
	db.CB.NotifyTxDel = func(r *UtxoRec, outs []bool) {
		n := h_note{txid: r.TxID, outs: append([]bool{}, outs...)}
		for _, o := range r.Outs {
			if o != nil {
				n.vals = append(n.vals, o.Value)
			} else {
				n.vals = append(n.vals, 0)
			}
		}
		notes = append(notes, n)
	}
	v0, v1 := zzverif.Range64("rec1.value", 2100000000000000), zzverif.Range64("rec1.value", 2100000000000000)
	zzverif.Assume(v0 > 0)
	zzverif.Assume(v1 > 0)
	has1 := zzverif.Bool("rec1.out1-present")
	rec1 := h17_rec(1, 50, []uint64{v0, v1}, []bool{true, has1})
	db.HashMap[1][h17_key(1)] = Serialize(rec1, nil)
	ids := []byte{1, 2}
	pre := h17_state(db, ids)

	// the block: spends rec1 outputs by mask (only present ones), creates rec2
	sp0 := zzverif.Bool("spend.out0")
	sp1 := has1 && zzverif.Bool("spend.out1")
	n0, n1 := zzverif.Range64("rec2.value", 2100000000000000), zzverif.Range64("rec2.value", 2100000000000000)
	zzverif.Assume(n0 > 0)
	zzverif.Assume(n1 > 0)
	rec2 := h17_rec(2, 100, []uint64{n0, n1}, []bool{true, true})
	ch := &BlockChanges{Height: 100, LastKnownHeight: 100, DeledTxs: map[[32]byte][]bool{}, UndoData: map[[32]byte]*UtxoRec{}}
	ch.AddList = []*UtxoRec{rec2}
	if sp0 || sp1 {
		ch.DeledTxs[rec1.TxID] = []bool{sp0, sp1}
		ch.UndoData[rec1.TxID] = h17_rec(1, 50, []uint64{v0, v1}, []bool{sp0, sp1})
	}
	blhash := bytes.Repeat([]byte{0xB1}, 32)
	db.CommitBlockTxs(ch, blhash)

	// ---- after connecting
	want := map[byte][]uint64{2: {n0, n1}}
	r1 := []uint64{v0, v1}
	if !has1 {
		r1[1] = 0
	}
	if sp0 {
		r1[0] = 0
	}
	if sp1 {
		r1[1] = 0
	}
	if r1[0] != 0 || r1[1] != 0 {
		want[1] = r1
	}
	zzverif.Assert("C17.utxo.commit.state", h17_same(h17_state(db, ids), want))
	nd, na := 0, 0
	for _, n := range notes {
		if n.add {
			na++
			zzverif.Assert("C17.utxo.commit.add-note", n.txid == rec2.TxID && len(n.vals) == 2 && n.vals[0] == n0 && n.vals[1] == n1)
		} else {
			nd++
			zzverif.Assert("C17.utxo.commit.del-note", n.txid == rec1.TxID && len(n.outs) == 2 && n.outs[0] == sp0 && n.outs[1] == sp1 &&
				n.vals[0] == v0 && (n.vals[1] == v1) == has1)
		}
	}
	zzverif.Assert("C17.utxo.commit.note-count", na == 1 && (nd == 1) == (sp0 || sp1) && nd <= 1)
	zzverif.Assert("C17.utxo.commit.height", db.LastBlockHeight == 100 && bytes.Equal(db.LastBlockHash, blhash))

	// ---- disconnecting
	notes = nil
	bl := new(btc.Block)
	tx := new(btc.Tx)
	tx.Hash.Hash = rec2.TxID
	tx.TxOut = []*btc.TxOut{{Value: n0}, {Value: n1}}
	bl.Txs = []*btc.Tx{tx}
	db.UndoBlockTxs(bl, make([]byte, 32))
	zzverif.Assert("C17.utxo.undo.state", h17_same(h17_state(db, ids), pre))
	nd, na = 0, 0
	for _, n := range notes {
		if n.add {
			na++
			zzverif.Assert("C17.utxo.undo.add-note", n.txid == rec1.TxID && len(n.outs) == 2 && n.outs[0] == sp0 && n.outs[1] == sp1 &&
				(!sp0 || n.vals[0] == v0) && (!sp1 || n.vals[1] == v1))
		} else {
			nd++
			zzverif.Assert("C17.utxo.undo.del-note", n.txid == rec2.TxID && len(n.outs) == 2 && n.outs[0] && n.outs[1])
		}
	}
	zzverif.Assert("C17.utxo.undo.note-count", nd == 1 && (na == 1) == (sp0 || sp1) && na <= 1)
	zzverif.Assert("C17.utxo.undo.height", db.LastBlockHeight == 99)
	zzverif.Reach("round-trip")
}
