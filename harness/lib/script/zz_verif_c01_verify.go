//go:build verif

package script

import (
	"bytes"
	"crypto/sha256"

	"github.com/piotrnar/gocoin/lib/btc"
	"github.com/piotrnar/gocoin/lib/others/zzverif"
)

// ref_verify_script: VerifyScript of interpreter.cpp. The two interpreter runs use the real evalScript (decided
// opcode by opcode by the other C01 harnesses); witness program validation is the function vwp.
func ref_verify_script(sigScr, pkScr []byte, hasWitness bool, flags uint32, c *SigChecker,
	vwp func(version int, program []byte, isP2SH bool) bool) bool {
	var ed btc.ScriptExecutionData
	if flags&VER_SIGPUSHONLY != 0 && !ref_is_push_only(sigScr) {
		return false
	}
	var stack, stackCopy scrStack
	if !evalScript(sigScr, &stack, c, flags, SIGVERSION_BASE, &ed) {
		return false
	}
	if flags&VER_P2SH != 0 {
		stackCopy.copy_from(&stack)
	}
	if !evalScript(pkScr, &stack, c, flags, SIGVERSION_BASE, &ed) {
		return false
	}
	if stack.size() == 0 || !ref_cast_to_bool(stack.top(-1)) {
		return false
	}
	hadWitness := false
	isWP := func(s []byte) (int, []byte, bool) {
		if len(s) < 4 || len(s) > 42 || (s[0] != 0 && (s[0] < 0x51 || s[0] > 0x60)) || int(s[1])+2 != len(s) {
			return 0, nil, false
		}
		v := 0
		if s[0] != 0 {
			v = int(s[0]) - 0x50
		}
		return v, s[2:], true
	}
	if flags&VER_WITNESS != 0 {
		if v, p, ok := isWP(pkScr); ok {
			hadWitness = true
			if len(sigScr) != 0 {
				return false
			}
			if !vwp(v, p, false) {
				return false
			}
			stack.resize(1)
		}
	}
	if flags&VER_P2SH != 0 && len(pkScr) == 23 && pkScr[0] == 0xa9 && pkScr[1] == 0x14 && pkScr[22] == 0x87 {
		if !ref_is_push_only(sigScr) {
			return false
		}
		stack = stackCopy
		pubKey2 := stack.pop()
		if !evalScript(pubKey2, &stack, c, flags, SIGVERSION_BASE, &ed) {
			return false
		}
		if stack.size() == 0 || !ref_cast_to_bool(stack.top(-1)) {
			return false
		}
		if flags&VER_WITNESS != 0 {
			if v, p, ok := isWP(pubKey2); ok {
				hadWitness = true
				if !bytes.Equal(sigScr, ref_push(pubKey2)) {
					return false
				}
				if !vwp(v, p, true) {
					return false
				}
				stack.resize(1)
			}
		}
	}
	if flags&VER_CLEANSTACK != 0 && stack.size() != 1 {
		return false
	}
	if flags&VER_WITNESS != 0 && !hadWitness && hasWitness {
		return false
	}
	return true
}

// C01: script verification orchestration (VerifyTxScript): scriptSig / scriptPubKey pairs from a case split that
// covers bare scripts, P2SH (matching and not matching redeem scripts, true and false ones, non-push scriptSig),
// native and P2SH-nested witness programs of versions 0 and 1 (with exact, non-minimal and padded scriptSig), with
// and without witness data, under every consistent subset of P2SH, WITNESS, CLEANSTACK and SIGPUSHONLY. Witness
// program validation itself is an uninterpreted verdict (its own harness). Against VerifyScript of interpreter.cpp.
func H_C01_VerifyScript() {
	zzverif.Stub("(*SigChecker).VerifyWitnessProgram: uninterpreted verdict of (version, program, nested); natively the real function on P2WSH(OP_1) with its witness script / a version-1 program without the taproot flag (both accepted)")
	var nativeChecker *SigChecker
	var nativeFlags uint32
	verdict := func(version int, program []byte, isP2SH bool) bool {
		if !zzverif.Symbolic() {
			var w witness_ctx
			if nativeChecker.Tx.SegWit != nil {
				for _, wd := range nativeChecker.Tx.SegWit[0] {
					w.stack.push(wd)
				}
			}
			return nativeChecker.VerifyWitnessProgram(&w, version, program, nativeFlags, isP2SH)
		}
		in := append([]byte{byte(version), byte(len(program))}, program...)
		if isP2SH {
			in = append(in, 1)
		}
		return zzverif.Fn("witness-program-verdict", 1, in)[0]&1 == 1
	}
	zzverif.Replace("(*script.SigChecker).VerifyWitnessProgram", func(c *SigChecker, w *witness_ctx, v int, p []byte, f uint32, isP2SH bool) bool {
		return verdict(v, p, isP2SH)
	})
	h1 := sha256.Sum256([]byte{0x51})
	wp0 := append([]byte{0x00, 0x20}, h1[:]...) // P2WSH of the witness script OP_1
	wp1 := append([]byte{0x51, 0x20}, bytes.Repeat([]byte{0x88}, 32)...)
	redeems := [][]byte{{0x51}, {0x00}, {0x51, 0x51}, wp0, wp1}
	p2sh := func(r []byte) []byte {
		h := btc.Rimp160AfterSha256(r)
		return append(append([]byte{0xa9, 0x14}, h[:]...), 0x87)
	}
	var pkScr []byte
	switch k := zzverif.Enum("scriptPubKey", 6+len(redeems)); {
	case k == 0:
		pkScr = []byte{0x51}
	case k == 1:
		pkScr = []byte{0x00}
	case k == 2:
		pkScr = []byte{0x51, 0x51}
	case k == 3:
		pkScr = wp0
	case k == 4:
		pkScr = wp1
	case k == 5:
		pkScr = []byte{0x75, 0x51} // OP_DROP OP_1: needs one element
	default:
		pkScr = p2sh(redeems[k-6])
	}
	var sigScr []byte
	switch k := zzverif.Enum("scriptSig", 6+3*len(redeems)); {
	case k == 0:
	case k == 1:
		sigScr = []byte{0x51}
	case k == 2:
		sigScr = []byte{0x61}
	case k == 3:
		sigScr = []byte{0x51, 0x51}
	case k == 4:
		sigScr = []byte{0x00}
	case k == 5:
		sigScr = []byte{0x51, 0x61, 0x01, 0x51} // not push-only, ends with a push of the redeem script OP_1
	case k < 6+len(redeems):
		sigScr = ref_push(redeems[k-6])
	case k < 6+2*len(redeems):
		r := redeems[k-6-len(redeems)]
		sigScr = append(append([]byte{0x51}, 0x4c, byte(len(r))), r...) // an extra element and a non-minimal push
	default:
		r := redeems[k-6-2*len(redeems)]
		sigScr = append([]byte{0x4c, byte(len(r))}, r...) // the redeem script alone, pushed with OP_PUSHDATA1
	}
	var flags uint32
	if zzverif.Bool("P2SH") {
		flags |= VER_P2SH
		if zzverif.Bool("WITNESS") {
			flags |= VER_WITNESS
		}
		if zzverif.Bool("CLEANSTACK") {
			flags |= VER_CLEANSTACK
		}
	}
	if zzverif.Bool("SIGPUSHONLY") {
		flags |= VER_SIGPUSHONLY
	}
	tx := h_sig_tx()
	tx.TxIn[0].ScriptSig = sigScr
	hasWit := zzverif.Bool("witness-present")
	if hasWit {
		tx.SegWit = [][][]byte{{{0x51}}} // the witness script OP_1
	}
	checker := &SigChecker{Tx: tx, Idx: 0, Amount: 5}
	nativeChecker, nativeFlags = checker, flags
	got := VerifyTxScript(pkScr, checker, flags)
	want := ref_verify_script(sigScr, pkScr, hasWit, flags, checker, verdict)
	zzverif.Assert("C01.verifyscript.verdict", got == want)
	if got {
		zzverif.Reach("accepted")
	} else {
		zzverif.Reach("refused")
	}
}

// h_flat: a stack as one byte string (count, then length-prefixed elements), for the uninterpreted verdicts
func h_flat(st [][]byte) []byte {
	out := []byte{byte(len(st))}
	for _, e := range st {
		out = append(out, byte(len(e)), byte(len(e)>>8))
		out = append(out, e...)
	}
	return out
}

// C01: witness program dispatch (VerifyWitnessProgram of interpreter.cpp): versions 0, 1, 2 and 16, program lengths
// 2, 20, 32 and 40, witness stacks of 0..4 items (arbitrary small items, an annex-tagged or plain last item,
// control blocks of legal and illegal sizes and both leaf-version classes), nested in P2SH or not, with TAPROOT
// and the three DISCOURAGE flags. Script execution, the Schnorr check and the taproot commitment are uninterpreted
// verdicts of their arguments: what is decided is which of them is consulted, with what arguments, and the verdict
// composed from them.
func H_C01_WitnessProgram() {
	if !zzverif.Symbolic() {
		return // the uninterpreted verdicts have no native counterpart
	}
	DBG_ERR = false // debug printing (hex dumps of 4 kB control blocks) is not the subject
	type call struct {
		script []byte
		sv     int
		stack  [][]byte
		weight int64
		annex  []byte
	}
	zzverif.Stub("ExecuteWitnessScript, CheckSchnorrSignature, VerifyTaprootCommitment: uninterpreted verdicts of their arguments")
	execVerdict := func(scr []byte, sv int, st [][]byte, ed *btc.ScriptExecutionData) bool {
		in := append([]byte{byte(sv), byte(len(scr))}, scr...)
		in = append(in, h_flat(st)...)
		if sv == SIGVERSION_TAPSCRIPT {
			w := ed.M_validation_weight_left
			in = append(in, byte(w), byte(w>>8), byte(len(ed.M_annex_hash)))
			in = append(in, ed.M_annex_hash...)
			in = append(in, ed.M_tapleaf_hash...)
		}
		return zzverif.Fn("exec-verdict", 1, in)[0]&1 == 1
	}
	schnorrVerdict := func(sig, key []byte, ed *btc.ScriptExecutionData) bool {
		in := append(append([]byte{byte(len(sig))}, sig...), key...)
		in = append(in, byte(len(ed.M_annex_hash)))
		in = append(in, ed.M_annex_hash...)
		return zzverif.Fn("schnorr-verdict", 1, in)[0]&1 == 1
	}
	commitVerdict := func(control, program, scr []byte) (bool, []byte) {
		in := append(append(append([]byte{byte(len(control)), byte(len(control) >> 8)}, control...), program...), scr...)
		return zzverif.Fn("commitment-verdict", 1, in)[0]&1 == 1, zzverif.Fn("tapleaf-hash", 32, append([]byte{control[0] & 0xfe}, scr...))
	}
	zzverif.Replace("(*script.SigChecker).ExecuteWitnessScript", func(c *SigChecker, st *scrStack, scr []byte, flags uint32, sv int, ed *btc.ScriptExecutionData) bool {
		return execVerdict(scr, sv, st.data, ed)
	})
	zzverif.Replace("(*script.SigChecker).CheckSchnorrSignature", func(c *SigChecker, sig, key []byte, sv int, ed *btc.ScriptExecutionData) bool {
		return schnorrVerdict(sig, key, ed)
	})
	zzverif.Replace("script.VerifyTaprootCommitment", func(control, program, scr []byte, leaf *[]byte) bool {
		ok, h := commitVerdict(control, program, scr)
		*leaf = h
		return ok
	})

	version := []int{0, 1, 2, 16}[zzverif.Enum("version", 4)]
	plen := []int{20, 32, 2, 40}[zzverif.Enum("program-len", 4)]
	program := make([]byte, plen)
	program[0] = 0x42
	isP2SH := zzverif.Bool("nested-in-p2sh")
	var flags uint32
	for _, f := range []struct {
		n string
		v uint32
	}{{"TAPROOT", VER_TAPROOT}, {"DISCOURAGE_UPGRADABLE_WITNESS_PROGRAM", VER_WITNESS_PROG}, {"DISCOURAGE_UPGRADABLE_TAPROOT_VERSION", VER_DIS_TAPVER}} {
		if zzverif.Bool(f.n) {
			flags |= f.v
		}
	}
	// witness stack: only the last three items steer the dispatch (annex, control block, script); the kinds offered
	// at each position are the ones that can matter there
	n := zzverif.Len("witness-items", 0, 4)
	var wst [][]byte
	ctlLens := []int{33, 65, 32, 34, 33 + 32*128, 33 + 32*129, 1}
	plain := func() []byte { return zzverif.Bytes("item", zzverif.Len("item-len", 0, 1)) }
	control := func(lens []int) []byte {
		it := make([]byte, lens[zzverif.Enum("control-len", len(lens))])
		it[0] = zzverif.U8("control-first-byte")
		return it
	}
	scriptItem := func() []byte {
		it := []byte{0x51}
		if version == 0 && plen == 32 {
			h := sha256.Sum256(it) // the witness script whose hash is the program
			program = h[:]
		}
		return it
	}
	for i := 0; i < n; i++ {
		var it []byte
		switch fromEnd := n - 1 - i; fromEnd {
		case 0:
			switch zzverif.Enum("last-kind", 4) {
			case 0:
				it = plain()
			case 1:
				it = []byte{0x50, zzverif.U8("annex-body")}
			case 2:
				it = control(ctlLens)
			case 3:
				it = scriptItem()
			}
		case 1:
			switch zzverif.Enum("second-last-kind", 3) {
			case 0:
				it = plain()
			case 1:
				it = control(ctlLens)
			case 2:
				it = scriptItem()
			}
		case 2:
			switch zzverif.Enum("third-last-kind", 3) {
			case 0:
				it = plain()
			case 1:
				it = control(ctlLens[:1])
			case 2:
				it = scriptItem()
			}
		default:
			it = []byte{7}
		}
		wst = append(wst, it)
	}
	var w witness_ctx
	for _, it := range wst {
		w.stack.push(it)
	}
	checker := &SigChecker{Tx: h_sig_tx(), Idx: 0, Amount: 5}
	got := checker.VerifyWitnessProgram(&w, version, program, flags, isP2SH)

	// reference: VerifyWitnessProgram of interpreter.cpp
	var ed btc.ScriptExecutionData
	want := false
	st := append([][]byte{}, wst...)
	switch {
	case version == 0 && plen == 32:
		if len(st) > 0 {
			scr := st[len(st)-1]
			st = st[:len(st)-1]
			h := sha256.Sum256(scr)
			if bytes.Equal(h[:], program) {
				want = execVerdict(scr, SIGVERSION_WITNESS_V0, st, &ed)
			}
		}
	case version == 0 && plen == 20:
		if len(st) == 2 {
			scr := append(append([]byte{0x76, 0xa9, 0x14}, program...), 0x88, 0xac)
			want = execVerdict(scr, SIGVERSION_WITNESS_V0, st, &ed)
		}
	case version == 0:
		want = false
	case version == 1 && plen == 32 && !isP2SH:
		if flags&VER_TAPROOT == 0 {
			want = true
		} else if len(st) == 0 {
			want = false
		} else {
			if len(st) >= 2 && len(st[len(st)-1]) > 0 && st[len(st)-1][0] == 0x50 {
				annex := st[len(st)-1]
				st = st[:len(st)-1]
				sha := sha256.New()
				btc.WriteVlen(sha, uint64(len(annex)))
				sha.Write(annex)
				ed.M_annex_hash = sha.Sum(nil)
			}
			if len(st) == 1 {
				want = schnorrVerdict(st[0], program, &ed)
			} else {
				control := st[len(st)-1]
				scr := st[len(st)-2]
				st = st[:len(st)-2]
				if len(control) < 33 || len(control) > 33+32*128 || (len(control)-33)%32 != 0 {
					want = false
				} else if ok, leaf := commitVerdict(control, program, scr); !ok {
					want = false
				} else if control[0]&0xfe == 0xc0 {
					ed.M_tapleaf_hash = leaf
					ed.M_validation_weight_left = int64(len(h_flat_ser(wst)) + 50)
					want = execVerdict(scr, SIGVERSION_TAPSCRIPT, st, &ed)
				} else {
					want = flags&VER_DIS_TAPVER == 0
				}
			}
		}
	default:
		want = flags&VER_WITNESS_PROG == 0
	}
	zzverif.Assert("C01.witnessprogram.verdict", got == want)
	if got {
		zzverif.Reach("accepted")
	} else {
		zzverif.Reach("refused")
	}
}

// h_flat_ser: the serialisation of a witness stack (CompactSize count, then CompactSize-prefixed items)
func h_flat_ser(st [][]byte) []byte {
	buf := new(bytes.Buffer)
	btc.WriteVlen(buf, uint64(len(st)))
	for _, e := range st {
		btc.WriteVlen(buf, uint64(len(e)))
		buf.Write(e)
	}
	return buf.Bytes()
}


// C01: the taproot script-path gates with everything real except the commitment verdict (an uninterpreted function,
// imposed natively through the btc.Check_PayToContract hook): witness = [script OP_1, control block] with an optional
// annex, control blocks of 32..66 bytes and both leaf-version classes, TAPROOT on, the two DISCOURAGE flags arbitrary.
// A narrow companion of H_C01_WitnessProgram whose counterexamples replay natively.
func H_C01_TaprootScriptPath() {
	DBG_ERR = false
	defer func() { btc.Check_PayToContract = nil }()
	program := make([]byte, 32)
	program[0] = 0x42
	scr := []byte{0x51}
	clen := []int{32, 33, 34, 64, 65, 66, 97}[zzverif.Enum("control-len", 7)]
	control := make([]byte, clen)
	control[0] = zzverif.U8("control-first-byte")
	commitFn := func() bool {
		in := append(append(append([]byte{byte(len(control)), byte(len(control) >> 8)}, control...), program...), scr...)
		return zzverif.Fn("commitment-verdict", 1, in)[0]&1 == 1
	}
	if zzverif.Symbolic() {
		zzverif.Replace("btc.CheckPayToContract", func(q, p, k []byte, parity bool) bool { return commitFn() })
	} else {
		btc.Check_PayToContract = func(q, p, k []byte, parity bool) bool { return commitFn() }
	}
	wst := [][]byte{scr, control}
	annex := zzverif.Bool("annex")
	if annex {
		wst = append(wst, []byte{0x50, zzverif.U8("annex-body")})
	}
	flags := uint32(VER_TAPROOT)
	if zzverif.Bool("DISCOURAGE_UPGRADABLE_TAPROOT_VERSION") {
		flags |= VER_DIS_TAPVER
	}
	if zzverif.Bool("DISCOURAGE_OP_SUCCESS") {
		flags |= VER_DIS_SUCCESS
	}
	var w witness_ctx
	for _, it := range wst {
		w.stack.push(it)
	}
	checker := &SigChecker{Tx: h_sig_tx(), Idx: 0, Amount: 5}
	got := checker.VerifyWitnessProgram(&w, 1, program, flags, false)
	// reference (interpreter.cpp): control size, commitment, leaf version; the script OP_1 leaves exactly [1]
	want := false
	if !annex && control[0] == 0x50 {
		// the last witness item starts with the annex tag: it IS the annex, and [script] alone is a key-path spend
		// with the one-byte "signature" OP_1, which no size gate lets through
		want = false
	} else if clen >= 33 && clen <= 33+32*128 && (clen-33)%32 == 0 {
		if commitFn() {
			if control[0]&0xfe == 0xc0 {
				want = true
			} else {
				want = flags&VER_DIS_TAPVER == 0
			}
		}
	}
	zzverif.Assert("C01.taproot-script-path.verdict", got == want)
	if got {
		zzverif.Reach("accepted")
	} else {
		zzverif.Reach("refused")
	}
}
