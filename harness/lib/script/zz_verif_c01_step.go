//go:build verif

package script

import (
	"bytes"
	"crypto/sha1"
	"crypto/sha256"

	"github.com/piotrnar/gocoin/lib/btc"
	"github.com/piotrnar/gocoin/lib/others/ripemd160"
	"github.com/piotrnar/gocoin/lib/others/zzverif"
)

func ref_bool2vch(b bool) []byte {
	if b {
		return []byte{1}
	}
	return []byte{}
}

func ref_checklocktime(tx *btc.Tx, inp int, n int64) bool {
	txl := int64(tx.Lock_time)
	if !((txl < 500000000 && n < 500000000) || (txl >= 500000000 && n >= 500000000)) {
		return false
	}
	if n > txl {
		return false
	}
	if tx.TxIn[inp].Sequence == 0xffffffff {
		return false
	}
	return true
}

func ref_checksequence(tx *btc.Tx, inp int, n int64) bool {
	txseq := int64(tx.TxIn[inp].Sequence)
	if tx.Version < 2 {
		return false
	}
	if txseq&(1<<31) != 0 {
		return false
	}
	const mask = int64(1<<22 | 0xffff)
	a, b := txseq&mask, n&mask
	if !((a < 1<<22 && b < 1<<22) || (a >= 1<<22 && b >= 1<<22)) {
		return false
	}
	return b <= a
}

// ref_step: Bitcoin Core's EvalScript for a script consisting of the single (executed, non-push, non-conditional,
// non-signature) opcode op, on the given main stack. Returns the verdict and the resulting main and alt stacks.
func ref_step(op byte, st [][]byte, flags uint32, sv int, tx *btc.Tx, inp int) (ok bool, out [][]byte, alt [][]byte) {
	minimal := flags&VER_MINDATA != 0
	num := func(d []byte) (int64, bool) { return ref_scriptnum_decode(d, 4, minimal) }
	top := func(i int) []byte { return st[len(st)-i] } // top(1) is the top element
	pop := func(n int) { st = st[:len(st)-n] }
	push := func(d []byte) { st = append(st, d) }
	fail := func() (bool, [][]byte, [][]byte) { return false, nil, nil }
	// opcodes that fail even when not executed
	switch op {
	case 0x7e, 0x7f, 0x80, 0x81, 0x83, 0x84, 0x85, 0x86, 0x8d, 0x8e, 0x95, 0x96, 0x97, 0x98, 0x99:
		return fail()
	}
	if op == 0xab && sv == SIGVERSION_BASE && flags&VER_CONST_SCRIPTCODE != 0 {
		return fail()
	}
	switch {
	case op == 0x4f:
		push(ref_scriptnum_encode(-1))
	case op >= 0x51 && op <= 0x60:
		push(ref_scriptnum_encode(int64(op) - 0x50))
	case op == 0x61:
	case op == 0xb1: // CLTV
		if flags&VER_CLTV == 0 {
			break
		}
		if len(st) < 1 {
			return fail()
		}
		n, k := ref_scriptnum_decode(top(1), 5, minimal)
		if !k || n < 0 || !ref_checklocktime(tx, inp, n) {
			return fail()
		}
	case op == 0xb2: // CSV
		if flags&VER_CSV == 0 {
			break
		}
		if len(st) < 1 {
			return fail()
		}
		n, k := ref_scriptnum_decode(top(1), 5, minimal)
		if !k || n < 0 {
			return fail()
		}
		if n&(1<<31) != 0 {
			break
		}
		if !ref_checksequence(tx, inp, n) {
			return fail()
		}
	case op == 0xb0 || (op >= 0xb3 && op <= 0xb9):
		if flags&VER_BLOCK_OPS != 0 {
			return fail()
		}
	case op == 0x69: // VERIFY
		if len(st) < 1 || !ref_cast_to_bool(top(1)) {
			return fail()
		}
		pop(1)
	case op == 0x6a:
		return fail()
	case op == 0x6b: // TOALTSTACK
		if len(st) < 1 {
			return fail()
		}
		alt = append(alt, top(1))
		pop(1)
	case op == 0x6c: // FROMALTSTACK (alt stack is empty at the start of a script)
		return fail()
	case op == 0x6d:
		if len(st) < 2 {
			return fail()
		}
		pop(2)
	case op == 0x6e:
		if len(st) < 2 {
			return fail()
		}
		a, b := top(2), top(1)
		push(a)
		push(b)
	case op == 0x6f:
		if len(st) < 3 {
			return fail()
		}
		a, b, c := top(3), top(2), top(1)
		push(a)
		push(b)
		push(c)
	case op == 0x70:
		if len(st) < 4 {
			return fail()
		}
		a, b := top(4), top(3)
		push(a)
		push(b)
	case op == 0x71: // 2ROT
		if len(st) < 6 {
			return fail()
		}
		a, b := top(6), top(5)
		st = append(st[:len(st)-6], st[len(st)-4:]...)
		push(a)
		push(b)
	case op == 0x72: // 2SWAP
		if len(st) < 4 {
			return fail()
		}
		n := len(st)
		st[n-4], st[n-2] = st[n-2], st[n-4]
		st[n-3], st[n-1] = st[n-1], st[n-3]
	case op == 0x73: // IFDUP
		if len(st) < 1 {
			return fail()
		}
		if ref_cast_to_bool(top(1)) {
			push(top(1))
		}
	case op == 0x74:
		push(ref_scriptnum_encode(int64(len(st))))
	case op == 0x75:
		if len(st) < 1 {
			return fail()
		}
		pop(1)
	case op == 0x76:
		if len(st) < 1 {
			return fail()
		}
		push(top(1))
	case op == 0x77: // NIP
		if len(st) < 2 {
			return fail()
		}
		t := top(1)
		pop(2)
		push(t)
	case op == 0x78:
		if len(st) < 2 {
			return fail()
		}
		push(top(2))
	case op == 0x79 || op == 0x7a: // PICK, ROLL
		if len(st) < 2 {
			return fail()
		}
		n, k := num(top(1))
		if !k {
			return fail()
		}
		pop(1)
		if n < 0 || n >= int64(len(st)) {
			return fail()
		}
		idx := len(st) - int(n) - 1
		v := st[idx]
		if op == 0x7a {
			st = append(st[:idx:idx], st[idx+1:]...)
		}
		push(v)
	case op == 0x7b: // ROT
		if len(st) < 3 {
			return fail()
		}
		n := len(st)
		st[n-3], st[n-2], st[n-1] = st[n-2], st[n-1], st[n-3]
	case op == 0x7c:
		if len(st) < 2 {
			return fail()
		}
		n := len(st)
		st[n-2], st[n-1] = st[n-1], st[n-2]
	case op == 0x7d: // TUCK
		if len(st) < 2 {
			return fail()
		}
		a, b := top(2), top(1)
		pop(2)
		push(b)
		push(a)
		push(b)
	case op == 0x82: // SIZE
		if len(st) < 1 {
			return fail()
		}
		push(ref_scriptnum_encode(int64(len(top(1)))))
	case op == 0x87 || op == 0x88:
		if len(st) < 2 {
			return fail()
		}
		eq := bytes.Equal(top(2), top(1))
		pop(2)
		push(ref_bool2vch(eq))
		if op == 0x88 {
			if !eq {
				return fail()
			}
			pop(1)
		}
	case op == 0x8b || op == 0x8c || op == 0x8f || op == 0x90 || op == 0x91 || op == 0x92:
		if len(st) < 1 {
			return fail()
		}
		n, k := num(top(1))
		if !k {
			return fail()
		}
		switch op {
		case 0x8b:
			n++
		case 0x8c:
			n--
		case 0x8f:
			n = -n
		case 0x90:
			if n < 0 {
				n = -n
			}
		case 0x91:
			if n == 0 {
				n = 1
			} else {
				n = 0
			}
		case 0x92:
			if n != 0 {
				n = 1
			}
		}
		pop(1)
		push(ref_scriptnum_encode(n))
	case op == 0x93 || op == 0x94 || (op >= 0x9a && op <= 0xa4):
		if len(st) < 2 {
			return fail()
		}
		a, k1 := num(top(2))
		b, k2 := num(top(1))
		if !k1 || !k2 {
			return fail()
		}
		var r int64
		b2i := func(x bool) int64 {
			if x {
				return 1
			}
			return 0
		}
		switch op {
		case 0x93:
			r = a + b
		case 0x94:
			r = a - b
		case 0x9a:
			r = b2i(a != 0 && b != 0)
		case 0x9b:
			r = b2i(a != 0 || b != 0)
		case 0x9c, 0x9d:
			r = b2i(a == b)
		case 0x9e:
			r = b2i(a != b)
		case 0x9f:
			r = b2i(a < b)
		case 0xa0:
			r = b2i(a > b)
		case 0xa1:
			r = b2i(a <= b)
		case 0xa2:
			r = b2i(a >= b)
		case 0xa3:
			r = a
			if b < a {
				r = b
			}
		case 0xa4:
			r = a
			if b > a {
				r = b
			}
		}
		pop(2)
		push(ref_scriptnum_encode(r))
		if op == 0x9d {
			if r == 0 {
				return fail()
			}
			pop(1)
		}
	case op == 0xa5: // WITHIN
		if len(st) < 3 {
			return fail()
		}
		x, k1 := num(top(3))
		lo, k2 := num(top(2))
		hi, k3 := num(top(1))
		if !k1 || !k2 || !k3 {
			return fail()
		}
		pop(3)
		push(ref_bool2vch(lo <= x && x < hi))
	case op >= 0xa6 && op <= 0xaa:
		if len(st) < 1 {
			return fail()
		}
		d := top(1)
		var h []byte
		switch op {
		case 0xa6:
			x := ripemd160.New()
			x.Write(d)
			h = x.Sum(nil)
		case 0xa7:
			x := sha1.New()
			x.Write(d)
			h = x.Sum(nil)
		case 0xa8:
			x := sha256.New()
			x.Write(d)
			h = x.Sum(nil)
		case 0xa9:
			x := sha256.New()
			x.Write(d)
			y := ripemd160.New()
			y.Write(x.Sum(nil))
			h = y.Sum(nil)
		case 0xaa:
			x := sha256.New()
			x.Write(d)
			t := x.Sum(nil)
			x.Reset()
			x.Write(t)
			h = x.Sum(nil)
		}
		pop(1)
		push(h)
	case op == 0xab:
	default:
		return fail() // VER, VERIF, VERNOTIF, RESERVED*, unknown opcodes
	}
	return true, st, alt
}

func h_same_stack(a, b [][]byte) bool {
	if len(a) != len(b) {
		return false
	}
	for i := range a {
		if !bytes.Equal(a[i], b[i]) {
			return false
		}
	}
	return true
}

// h_c01_step: one executed opcode from an arbitrary bounded stack, all flag combinations that matter for these
// opcodes, legacy and segwit-v0 rules, against ref_step.
func h_c01_step(ops []byte, maxDepth int, lens []int) {
	op := ops[zzverif.Enum("op", len(ops))]
	depth := zzverif.Len("depth", 0, maxDepth)
	var st scrStack
	var rst [][]byte
	for i := 0; i < depth; i++ {
		l := 1
		if i >= depth-3 {
			l = lens[zzverif.Enum("len", len(lens))]
		}
		e := zzverif.Bytes("elem", l)
		st.push(e)
		rst = append(rst, e)
	}
	var flags uint32
	if zzverif.Enum("MINDATA", 2) == 1 {
		flags |= VER_MINDATA
	}
	if op >= 0xb0 && op <= 0xb9 {
		if zzverif.Enum("DISCOURAGE_NOPS", 2) == 1 {
			flags |= VER_BLOCK_OPS
		}
		if zzverif.Enum("CLTV", 2) == 1 {
			flags |= VER_CLTV
		}
		if zzverif.Enum("CSV", 2) == 1 {
			flags |= VER_CSV
		}
		// consistent flag sets only: DISCOURAGE_UPGRADABLE_NOPS is a policy flag that is never used without the
		// CLTV and CSV flags (with it set and them unset Core treats OP_NOP2/3 as plain NOPs, gocoin discourages them)
		if flags&VER_BLOCK_OPS != 0 && (flags&VER_CLTV == 0 || flags&VER_CSV == 0) {
			zzverif.Assume(false)
		}
	}
	if op == 0xab && zzverif.Enum("CONST_SCRIPTCODE", 2) == 1 {
		flags |= VER_CONST_SCRIPTCODE
	}
	sv := zzverif.Enum("sigversion", 2) // BASE, WITNESS_V0
	tx := new(btc.Tx)
	tx.Version = zzverif.U32("tx.version")
	tx.Lock_time = zzverif.U32("tx.locktime")
	tx.TxIn = []*btc.TxIn{{Sequence: zzverif.U32("tx.sequence")}}
	checker := &SigChecker{Tx: tx, Idx: 0}
	var ed btc.ScriptExecutionData
	got := evalScript([]byte{op}, &st, checker, flags, sv, &ed)
	want, wst, _ := ref_step(op, rst, flags, sv, tx, 0)
	zzverif.Assert("C01.step.verdict", got == want)
	if got {
		zzverif.Reach("accepted")
		zzverif.Assert("C01.step.stack", h_same_stack(st.data, wst))
	} else {
		zzverif.Reach("failed")
	}
}

var h_ops_stack = []byte{0x4f, 0x51, 0x60, 0x61, 0x69, 0x6a, 0x6b, 0x6c, 0x6d, 0x6e, 0x6f, 0x70, 0x71, 0x72, 0x73, 0x74, 0x75, 0x76, 0x77, 0x78, 0x79, 0x7a, 0x7b, 0x7c, 0x7d, 0x82, 0x87, 0x88}
var h_ops_arith = []byte{0x8b, 0x8c, 0x8f, 0x90, 0x91, 0x92, 0x93, 0x94, 0x9a, 0x9b, 0x9c, 0x9d, 0x9e, 0x9f, 0xa0, 0xa1, 0xa2, 0xa3, 0xa4, 0xa5}
var h_ops_misc = []byte{0x50, 0x62, 0x65, 0x66, 0x89, 0x8a, 0x7e, 0x7f, 0x80, 0x81, 0x83, 0x84, 0x85, 0x86, 0x8d, 0x8e, 0x95, 0x96, 0x97, 0x98, 0x99,
	0xa6, 0xa7, 0xa8, 0xa9, 0xaa, 0xab, 0xb0, 0xb1, 0xb2, 0xb3, 0xb9, 0xbb, 0xff}

// C01: stack-manipulation opcodes.
func H_C01_StepStackOps() {
	if zzverif.Tier() == 0 {
		h_c01_step(h_ops_stack, 4, []int{0, 1, 2})
	} else {
		h_c01_step(h_ops_stack, 7, []int{0, 1, 2, 4, 5})
	}
}

// C01: arithmetic and comparison opcodes (operands of 0..5 bytes: the 4-byte limit and minimal-encoding rule).
func H_C01_StepArithmetic() {
	if zzverif.Tier() == 0 {
		h_c01_step(h_ops_arith, 3, []int{0, 1, 4, 5})
	} else {
		h_c01_step(h_ops_arith, 4, []int{0, 1, 2, 3, 4, 5})
	}
}

// C01: reserved / disabled / unknown opcodes, hash opcodes, NOPs, CLTV and CSV.
func H_C01_StepMisc() {
	if zzverif.Tier() == 0 {
		h_c01_step(h_ops_misc, 2, []int{0, 1, 4, 5})
	} else {
		h_c01_step(h_ops_misc, 3, []int{0, 1, 2, 3, 4, 5, 6})
	}
}
