//go:build verif

package script

import (
	"bytes"

	"github.com/piotrnar/gocoin/lib/others/zzverif"
)

// ref_push: the bytes of `CScript() << data` (script.h, operator<<(const std::vector<unsigned char>&))
func ref_push(d []byte) []byte {
	n := len(d)
	var out []byte
	switch {
	case n < 0x4c:
		out = []byte{byte(n)}
	case n <= 0xff:
		out = []byte{0x4c, byte(n)}
	case n <= 0xffff:
		out = []byte{0x4d, byte(n), byte(n >> 8)}
	default:
		out = []byte{0x4e, byte(n), byte(n >> 8), byte(n >> 16), byte(n >> 24)}
	}
	return append(out, d...)
}

// ref_find_and_delete: Bitcoin Core's FindAndDelete (script/interpreter.cpp)
func ref_find_and_delete(script, pat []byte) ([]byte, int) {
	found := 0
	if len(pat) == 0 {
		return script, 0
	}
	var result []byte
	pc, pc2 := 0, 0
	for {
		result = append(result, script[pc2:pc]...)
		for len(script)-pc >= len(pat) && bytes.Equal(script[pc:pc+len(pat)], pat) {
			pc += len(pat)
			found++
		}
		pc2 = pc
		if pc >= len(script) {
			break
		}
		ok, _, _, n := ref_get_op(script[pc:])
		if !ok {
			break
		}
		pc += n
	}
	if found > 0 {
		return append(result, script[pc2:]...), found
	}
	return script, 0
}

// C02: signature removal from the script code (legacy digest) equals FindAndDelete for every short script and
// signature. Scripts that do not decode to the end are outside: the interpreter refuses them whatever the digest.
func H_C02_FindAndDelete() {
	maxW := 5 + zzverif.Tier()
	wl := zzverif.Len("script-len", 0, maxW)
	sl := zzverif.Len("sig-len", 0, 2)
	where := zzverif.Bytes("script", wl)
	sig := zzverif.Bytes("sig", sl)
	// precondition: the script decodes to the end
	for pc := 0; pc < len(where); {
		ok, _, _, n := ref_get_op(where[pc:])
		zzverif.Assume(ok)
		pc += n
	}
	want, cnt := ref_find_and_delete(where, ref_push(sig))
	got, gcnt := delSig(where, sig)
	zzverif.Assert("C02.findanddelete.result", bytes.Equal(got, want))
	zzverif.Assert("C02.findanddelete.count", gcnt == cnt)
	if cnt >= 2 {
		zzverif.Reach("two-occurrences")
	}
}

// C02: signature removal for signatures of every push-encoding class (direct push, PUSHDATA1, PUSHDATA2) embedded
// once or twice in the script code between arbitrary one-byte opcodes.
func H_C02_FindAndDeleteLong() {
	lens := []int{1, 9, 75, 76, 80, 255, 256}
	if zzverif.Tier() > 0 {
		lens = append(lens, 73, 77, 520)
	}
	sl := lens[zzverif.Enum("sig-len", len(lens))]
	sig := zzverif.Bytes("sig", sl)
	op := func(name string) []byte {
		b := zzverif.U8(name)
		zzverif.Assume(b >= 0x4f) // a one-byte opcode that is not a push
		return []byte{b}
	}
	occ := 1 + zzverif.Enum("occurrences-1", 2)
	where := op("op-a")
	for i := 0; i < occ; i++ {
		where = append(where, ref_push(sig)...)
		where = append(where, op("op-b")...)
	}
	want, cnt := ref_find_and_delete(where, ref_push(sig))
	got, gcnt := delSig(where, sig)
	zzverif.Assert("C02.findanddelete.long.result", bytes.Equal(got, want))
	zzverif.Assert("C02.findanddelete.long.count", gcnt == cnt && cnt == occ)
}
