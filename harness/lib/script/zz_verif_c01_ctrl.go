//go:build verif

package script

import (
	"github.com/piotrnar/gocoin/lib/btc"
	"github.com/piotrnar/gocoin/lib/others/zzverif"
)

// ref_eval_ctrl: Bitcoin Core's EvalScript restricted to the control-flow alphabet of H_C01_Conditionals
// (interpreter.cpp: the vfExec condition stack, the opcodes that fail even when not executed, MINIMALIF).
func ref_eval_ctrl(scr []byte, st [][]byte, flags uint32, sv int) (bool, [][]byte) {
	var vfExec []bool
	for _, op := range scr {
		fExec := true
		for _, b := range vfExec {
			fExec = fExec && b
		}
		// disabled opcodes fail wherever they stand
		if op == 0x7e {
			return false, nil
		}
		if op == 0xab && sv == SIGVERSION_BASE && flags&VER_CONST_SCRIPTCODE != 0 {
			return false, nil
		}
		if op == 0x00 {
			if fExec {
				st = append(st, []byte{})
			}
			continue
		}
		if !(fExec || (0x63 <= op && op <= 0x68)) {
			continue
		}
		switch op {
		case 0x51:
			st = append(st, []byte{1})
		case 0x61, 0xab:
		case 0x63, 0x64:
			fValue := false
			if fExec {
				if len(st) < 1 {
					return false, nil
				}
				vch := st[len(st)-1]
				if sv == SIGVERSION_WITNESS_V0 && flags&VER_MINIMALIF != 0 {
					if len(vch) > 1 {
						return false, nil
					}
					if len(vch) == 1 && vch[0] != 1 {
						return false, nil
					}
				}
				fValue = ref_cast_to_bool(vch)
				if op == 0x64 {
					fValue = !fValue
				}
				st = st[:len(st)-1]
			}
			vfExec = append(vfExec, fValue)
		case 0x67:
			if len(vfExec) == 0 {
				return false, nil
			}
			vfExec[len(vfExec)-1] = !vfExec[len(vfExec)-1]
		case 0x68:
			if len(vfExec) == 0 {
				return false, nil
			}
			vfExec = vfExec[:len(vfExec)-1]
		case 0x69:
			if len(st) < 1 || !ref_cast_to_bool(st[len(st)-1]) {
				return false, nil
			}
			st = st[:len(st)-1]
		default: // OP_RETURN, OP_VER, OP_VERIF, OP_VERNOTIF, OP_RESERVED
			return false, nil
		}
	}
	if len(vfExec) != 0 {
		return false, nil
	}
	return true, st
}

// C01: control flow. Every script of 1..3 (thorough 4) opcodes over the alphabet {OP_0, OP_1, OP_NOP, OP_IF, OP_NOTIF,
// OP_ELSE, OP_ENDIF, OP_VERIFY, OP_RETURN, OP_VER, OP_VERIF, OP_VERNOTIF, OP_RESERVED, OP_CAT, OP_CODESEPARATOR},
// from a stack of 0..2 elements of 0..2 arbitrary bytes, with and without MINIMALIF and CONST_SCRIPTCODE, legacy
// and segwit-v0: verdict and resulting stack equal Core's.
func H_C01_Conditionals() {
	alphabet := []byte{0x00, 0x51, 0x61, 0x63, 0x64, 0x67, 0x68, 0x69, 0x6a, 0x62, 0x65, 0x66, 0x50, 0x7e, 0xab}
	n := zzverif.Len("script-len", 1, 3+zzverif.Tier())
	scr := make([]byte, n)
	for i := range scr {
		scr[i] = alphabet[zzverif.Enum("op", len(alphabet))]
	}
	depth := zzverif.Len("depth", 0, 2)
	var st scrStack
	var rst [][]byte
	for i := 0; i < depth; i++ {
		e := zzverif.Bytes("elem", zzverif.Len("elem-len", 0, 2))
		st.push(e)
		rst = append(rst, e)
	}
	var flags uint32
	if zzverif.Bool("MINIMALIF") {
		flags |= VER_MINIMALIF
	}
	if zzverif.Bool("CONST_SCRIPTCODE") {
		flags |= VER_CONST_SCRIPTCODE
	}
	sv := zzverif.Enum("sigversion", 2)
	checker := &SigChecker{Tx: new(btc.Tx), Idx: 0}
	var ed btc.ScriptExecutionData
	got := evalScript(scr, &st, checker, flags, sv, &ed)
	want, wst := ref_eval_ctrl(scr, rst, flags, sv)
	zzverif.Assert("C01.ctrl.verdict", got == want)
	if got {
		zzverif.Reach("accepted")
		zzverif.Assert("C01.ctrl.stack", h_same_stack(st.data, wst))
	} else {
		zzverif.Reach("failed")
	}
}

// C01: resource limits of the interpreter at their boundaries (a bounded case split, everything concrete per case):
// N non-push opcodes for N in 198..204 (limit 201, legacy and segwit v0; OP_RESERVED-class opcodes <= OP_16 are not
// counted), OP_CHECKMULTISIG adding its key count to the opcode count, N stack elements for N in 998..1003 (limit
// 1000, main + alt stack), pushes of 519..522 bytes executed and unexecuted (limit 520), scripts of 9999..10002
// bytes (limit 10000).
func H_C01_Limits() {
	var scr []byte
	want := false
	var st scrStack
	switch zzverif.Enum("limit", 6) {
	case 0: // opcode count
		n := zzverif.Len("nops", 198, 204)
		scr = append([]byte{0x51}, make([]byte, n)...)
		for i := 1; i <= n; i++ {
			scr[i] = 0x61
		}
		want = n <= 201
	case 1: // opcode count with CHECKMULTISIG: k keys count as k opcodes
		n := zzverif.Len("nops", 195, 201)
		k := zzverif.Len("keys", 0, 3)
		scr = []byte{0x51}
		for i := 0; i < n; i++ {
			scr = append(scr, 0x61)
		}
		// OP_0 (dummy) OP_0 (no signatures) <k one-byte keys> OP_k OP_CHECKMULTISIG -> true
		scr = append(scr, 0x75, 0x00, 0x00)
		for i := 0; i < k; i++ {
			scr = append(scr, 0x01, 0x02)
		}
		if k == 0 {
			scr = append(scr, 0x00)
		} else {
			scr = append(scr, byte(0x50+k))
		}
		scr = append(scr, 0xae)
		want = n+2+k <= 201 // the NOPs, OP_DROP, OP_CHECKMULTISIG and the keys
	case 2: // stack size
		n := zzverif.Len("elements", 998, 1003)
		alt := zzverif.Len("to-altstack", 0, 2)
		scr = make([]byte, n)
		for i := range scr {
			scr[i] = 0x51
		}
		for i := 0; i < alt; i++ {
			scr = append(scr, 0x6b) // OP_TOALTSTACK: moves, the total stays
		}
		want = n <= 1000
	case 3: // push size, executed
		n := zzverif.Len("push-bytes", 519, 522)
		scr = append([]byte{0x4d, byte(n), byte(n >> 8)}, make([]byte, n)...)
		scr[3] = 1
		want = n <= 520
	case 4: // push size, in an unexecuted branch
		n := zzverif.Len("push-bytes", 519, 522)
		scr = append([]byte{0x00, 0x63, 0x4d, byte(n), byte(n >> 8)}, make([]byte, n)...)
		scr = append(scr, 0x68, 0x51)
		want = n <= 520
	case 5: // script size
		n := zzverif.Len("script-bytes", 9999, 10002)
		scr = []byte{0x51}
		for len(scr)+523 <= n {
			scr = append(append(scr, 0x4d, 0x08, 0x02), make([]byte, 520)...)
			scr = append(scr, 0x75)
		}
		for len(scr) < n {
			scr = append(scr, 0x4f) // OP_1NEGATE: one more (true) element, not counted as an opcode
		}
		want = n <= 10000
	}
	sv := zzverif.Enum("sigversion", 2)
	checker := &SigChecker{Tx: new(btc.Tx), Idx: 0}
	var ed btc.ScriptExecutionData
	got := evalScript(scr, &st, checker, 0, sv, &ed)
	zzverif.Assert("C01.limits.verdict", got == want)
	if got {
		zzverif.Reach("within")
	} else {
		zzverif.Reach("beyond")
	}
}
