//go:build verif

package script

import (
	"github.com/piotrnar/gocoin/lib/btc"
	"github.com/piotrnar/gocoin/lib/others/zzverif"
)

// ref_eval_ctrl: Bitcoin Core's EvalScript restricted to the control-flow alphabet of H_C01_Conditionals
// (interpreter.cpp: the vfExec condition stack, the opcodes that fail even when not executed, MINIMALIF).
func ref_eval_ctrl(scr []byte, st [][]byte, flags uint32, sv int) (bool, [][]byte) {
	var vfExec []bool
	for _, op := range scr {
		fExec := true
		for _, b := range vfExec {
			fExec = fExec && b
		}
		// disabled opcodes fail wherever they stand
		if op == 0x7e {
			return false, nil
		}
		if op == 0xab && sv == SIGVERSION_BASE && flags&VER_CONST_SCRIPTCODE != 0 {
			return false, nil
		}
		if op == 0x00 {
			if fExec {
				st = append(st, []byte{})
			}
			continue
		}
		if !(fExec || (0x63 <= op && op <= 0x68)) {
			continue
		}
		switch op {
		case 0x51:
			st = append(st, []byte{1})
		case 0x61, 0xab:
		case 0x63, 0x64:
			fValue := false
			if fExec {
				if len(st) < 1 {
					return false, nil
				}
				vch := st[len(st)-1]
				if sv == SIGVERSION_WITNESS_V0 && flags&VER_MINIMALIF != 0 {
					if len(vch) > 1 {
						return false, nil
					}
					if len(vch) == 1 && vch[0] != 1 {
						return false, nil
					}
				}
				fValue = ref_cast_to_bool(vch)
				if op == 0x64 {
					fValue = !fValue
				}
				st = st[:len(st)-1]
			}
			vfExec = append(vfExec, fValue)
		case 0x67:
			if len(vfExec) == 0 {
				return false, nil
			}
			vfExec[len(vfExec)-1] = !vfExec[len(vfExec)-1]
		case 0x68:
			if len(vfExec) == 0 {
				return false, nil
			}
			vfExec = vfExec[:len(vfExec)-1]
		case 0x69:
			if len(st) < 1 || !ref_cast_to_bool(st[len(st)-1]) {
				return false, nil
			}
			st = st[:len(st)-1]
		default: // OP_RETURN, OP_VER, OP_VERIF, OP_VERNOTIF, OP_RESERVED
			return false, nil
		}
	}
	if len(vfExec) != 0 {
		return false, nil
	}
	return true, st
}

// C01: control flow. Every script of 1..3 (thorough 4) opcodes over the alphabet {OP_0, OP_1, OP_NOP, OP_IF, OP_NOTIF,
// OP_ELSE, OP_ENDIF, OP_VERIFY, OP_RETURN, OP_VER, OP_VERIF, OP_VERNOTIF, OP_RESERVED, OP_CAT, OP_CODESEPARATOR},
// from a stack of 0..2 elements of 0..2 arbitrary bytes, with and without MINIMALIF and CONST_SCRIPTCODE, legacy
// and segwit-v0: verdict and resulting stack equal Core's.
func H_C01_Conditionals() {
	alphabet := []byte{0x00, 0x51, 0x61, 0x63, 0x64, 0x67, 0x68, 0x69, 0x6a, 0x62, 0x65, 0x66, 0x50, 0x7e, 0xab}
	n := zzverif.Len("script-len", 1, 3+zzverif.Tier())
	scr := make([]byte, n)
	for i := range scr {
		scr[i] = alphabet[zzverif.Enum("op", len(alphabet))]
	}
	depth := zzverif.Len("depth", 0, 2)
	var st scrStack
	var rst [][]byte
	for i := 0; i < depth; i++ {
		e := zzverif.Bytes("elem", zzverif.Len("elem-len", 0, 2))
		st.push(e)
		rst = append(rst, e)
	}
	var flags uint32
	if zzverif.Bool("MINIMALIF") {
		flags |= VER_MINIMALIF
	}
	if zzverif.Bool("CONST_SCRIPTCODE") {
		flags |= VER_CONST_SCRIPTCODE
	}
	sv := zzverif.Enum("sigversion", 2)
	checker := &SigChecker{Tx: new(btc.Tx), Idx: 0}
	var ed btc.ScriptExecutionData
	got := evalScript(scr, &st, checker, flags, sv, &ed)
	want, wst := ref_eval_ctrl(scr, rst, flags, sv)
	zzverif.Assert("C01.ctrl.verdict", got == want)
	if got {
		zzverif.Reach("accepted")
		zzverif.Assert("C01.ctrl.stack", h_same_stack(st.data, wst))
	} else {
		zzverif.Reach("failed")
	}
}
