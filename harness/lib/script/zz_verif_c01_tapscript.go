//go:build verif

package script

import (
	"github.com/piotrnar/gocoin/lib/btc"
	"github.com/piotrnar/gocoin/lib/others/zzverif"
)

// one item of a tapscript under test: either a single opcode or a push
type h_tsitem struct {
	op   byte
	push []byte // non-nil: a push of these bytes (op is the push opcode)
}

// ref_tapscript: ExecuteWitnessScript + EvalScript of interpreter.cpp for SigVersion::TAPSCRIPT, restricted to the
// alphabet of H_C01_Tapscript. schnorr is the signature verdict; weight is validation_weight_left.
func ref_tapscript(items []h_tsitem, st [][]byte, flags uint32, weight int64,
	schnorr func(sig, key []byte) bool) bool {
	// OP_SUCCESSx anywhere (at an opcode position) ends validation
	for _, it := range items {
		if it.push == nil && IsOpSuccess(int(it.op)) { // the set itself: H_C01_OpSuccess
			return flags&VER_DIS_SUCCESS == 0
		}
	}
	if len(st) > 1000 {
		return false
	}
	var vfExec []bool
	for _, it := range items {
		fExec := true
		for _, b := range vfExec {
			fExec = fExec && b
		}
		if it.push != nil {
			if fExec {
				st = append(st, it.push)
			}
			continue
		}
		op := it.op
		if op == 0x00 {
			if fExec {
				st = append(st, []byte{})
			}
			continue
		}
		if !(fExec || (0x63 <= op && op <= 0x68)) {
			continue
		}
		switch op {
		case 0x51:
			st = append(st, []byte{1})
		case 0x61:
		case 0x63:
			fValue := false
			if fExec {
				if len(st) < 1 {
					return false
				}
				vch := st[len(st)-1]
				if len(vch) > 1 || (len(vch) == 1 && vch[0] != 1) {
					return false // MINIMALIF is consensus in tapscript
				}
				fValue = ref_cast_to_bool(vch)
				st = st[:len(st)-1]
			}
			vfExec = append(vfExec, fValue)
		case 0x68:
			if len(vfExec) == 0 {
				return false
			}
			vfExec = vfExec[:len(vfExec)-1]
		case 0xae, 0xaf:
			return false // OP_CHECKMULTISIG(VERIFY) are disabled in tapscript
		case 0xac, 0xad, 0xba:
			need := 2
			if op == 0xba {
				need = 3
			}
			if len(st) < need {
				return false
			}
			var sig, key []byte
			var num int64
			if op == 0xba {
				sig, key = st[len(st)-3], st[len(st)-1]
				n, ok := ref_scriptnum_decode(st[len(st)-2], 4, flags&VER_MINDATA != 0)
				if !ok {
					return false
				}
				num = n
			} else {
				sig, key = st[len(st)-2], st[len(st)-1]
			}
			// EvalChecksigTapscript
			success := len(sig) > 0
			if success {
				weight -= 50
				if weight < 0 {
					return false
				}
			}
			if len(key) == 0 {
				return false
			} else if len(key) == 32 {
				if success && !schnorr(sig, key) {
					return false
				}
			} else if flags&VER_DIS_PUBKEYTYPE != 0 {
				return false
			}
			st = st[:len(st)-need]
			switch op {
			case 0xac:
				st = append(st, ref_bool2vch(success))
			case 0xad:
				if !success {
					return false
				}
			case 0xba:
				if success {
					num++
				}
				st = append(st, ref_scriptnum_encode(num))
			}
		default:
			return false
		}
		if len(st) > 1000 {
			return false
		}
	}
	if len(vfExec) != 0 {
		return false
	}
	return len(st) == 1 && ref_cast_to_bool(st[0])
}

// C01: tapscript execution (BIP342): scripts of 1..2 (thorough 3) items over {OP_0, OP_1, OP_NOP, OP_IF, OP_ENDIF, OP_CHECKSIG,
// OP_CHECKSIGVERIFY, OP_CHECKSIGADD, OP_CHECKMULTISIG, OP_RESERVED (an OP_SUCCESS), push of a 32-byte key, of a
// 33-byte key (unknown type) and of an empty key}, witness stacks of 0..2 elements (empty / 64-byte / 65-byte / one
// arbitrary byte), validation weight budgets around the 50-unit price, the DISCOURAGE flags and MINIMALDATA; the
// Schnorr verdict is an uninterpreted function of signature and key. Against ExecuteWitnessScript / EvalScript /
// EvalChecksigTapscript of interpreter.cpp.
func H_C01_Tapscript() {
	DBG_ERR = false
	zzverif.Stub("(*SigChecker).CheckSchnorrSignature: uninterpreted verdict of (signature, key); natively the size / hash-type gates of the real function run and the btc.Schnorr_Verify hook imposes the model's verdict")
	verdict := func(sig, key []byte) bool {
		if len(sig) != 64 && len(sig) != 65 {
			return false // CheckSchnorrSignature's own gates (decided by H_C02_BIP341 / H_C03_SchnorrGates)
		}
		if len(sig) == 65 && (sig[64] == 0 || !(sig[64] <= 3 || (sig[64] >= 0x81 && sig[64] <= 0x83))) {
			return false
		}
		in := append(append([]byte{byte(len(sig))}, sig...), key...)
		return zzverif.Fn("schnorr-verdict", 1, in)[0]&1 == 1
	}
	if zzverif.Symbolic() {
		zzverif.Replace("(*script.SigChecker).CheckSchnorrSignature", func(c *SigChecker, sig, key []byte, sv int, ed *btc.ScriptExecutionData) bool {
			return verdict(sig, key)
		})
	} else {
		full := map[string][]byte{}
		_ = full
		btc.Schnorr_Verify = func(pkey, sig64, msg []byte) bool {
			// the hook sees the 64-byte signature; the verdict is a function of the signature as it stood on the stack
			for _, cand := range [][]byte{sig64, append(append([]byte{}, sig64...), 1), append(append([]byte{}, sig64...), 2), append(append([]byte{}, sig64...), 3),
				append(append([]byte{}, sig64...), 0x81), append(append([]byte{}, sig64...), 0x82), append(append([]byte{}, sig64...), 0x83)} {
				in := append(append([]byte{byte(len(cand))}, cand...), pkey...)
				if v := zzverif.FnKnown("schnorr-verdict", in); v != nil {
					return v[0]&1 == 1
				}
			}
			return false
		}
		defer func() { btc.Schnorr_Verify = nil }()
	}
	key32 := make([]byte, 32)
	key32[0] = 0x77
	key33 := make([]byte, 33)
	key33[0] = 2
	alphabet := []h_tsitem{{op: 0x00}, {op: 0x51}, {op: 0x61}, {op: 0x63}, {op: 0x68}, {op: 0xac}, {op: 0xad}, {op: 0xba}, {op: 0xae}, {op: 0x50},
		{op: 0x20, push: key32}, {op: 0x21, push: key33}}
	n := zzverif.Len("script-items", 1, 2+zzverif.Tier())
	var items []h_tsitem
	var scr []byte
	for i := 0; i < n; i++ {
		it := alphabet[zzverif.Enum("item", len(alphabet))]
		items = append(items, it)
		scr = append(scr, it.op)
		scr = append(scr, it.push...)
	}
	depth := zzverif.Len("witness-elements", 0, 2)
	var st scrStack
	var rst [][]byte
	for i := 0; i < depth; i++ {
		var e []byte
		switch zzverif.Enum("element", 4) {
		case 0:
			e = []byte{}
		case 1:
			e = make([]byte, 64)
			e[0] = zzverif.U8("sig-byte")
		case 2:
			e = make([]byte, 65)
			e[64] = zzverif.U8("sig-hashtype")
		case 3:
			e = zzverif.Bytes("small", 1)
		}
		st.push(e)
		rst = append(rst, e)
	}
	var flags uint32
	if zzverif.Bool("DISCOURAGE_OP_SUCCESS") {
		flags |= VER_DIS_SUCCESS
	}
	if zzverif.Bool("DISCOURAGE_UPGRADABLE_PUBKEYTYPE") {
		flags |= VER_DIS_PUBKEYTYPE
	}
	if zzverif.Bool("MINIMALDATA") {
		flags |= VER_MINDATA
	}
	weight := []int64{0, 49, 50, 100, 99, 1000}[zzverif.Enum("validation-weight", 4+2*zzverif.Tier())]
	ed := btc.ScriptExecutionData{M_validation_weight_left: weight, M_validation_weight_left_init: true}
	checker := &SigChecker{Tx: h_sig_tx(), Idx: 0, Amount: 5}
	got := checker.ExecuteWitnessScript(&st, scr, flags, SIGVERSION_TAPSCRIPT, &ed)
	want := ref_tapscript(items, rst, flags, weight, verdict)
	zzverif.Assert("C01.tapscript.verdict", got == want)
	if got {
		zzverif.Reach("accepted")
	} else {
		zzverif.Reach("refused")
	}
}
