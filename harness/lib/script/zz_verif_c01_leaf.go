//go:build verif

package script

import (
	"bytes"

	"github.com/piotrnar/gocoin/lib/btc"
	"github.com/piotrnar/gocoin/lib/others/zzverif"
)

// ---------------------------------------------------------------------------------------------
// reference transcriptions (Bitcoin Core script.h / interpreter.cpp)

// ref_scriptnum_decode: CScriptNum(vch, fRequireMinimal, nMaxNumSize).
func ref_scriptnum_decode(d []byte, maxSize int, minimal bool) (v int64, ok bool) {
	if len(d) > maxSize {
		return 0, false
	}
	if minimal && len(d) > 0 {
		if d[len(d)-1]&0x7f == 0 {
			if len(d) <= 1 || d[len(d)-2]&0x80 == 0 {
				return 0, false
			}
		}
	}
	if len(d) == 0 {
		return 0, true
	}
	var res int64
	for i := 0; i < len(d); i++ {
		res |= int64(d[i]) << uint(8*i)
	}
	if d[len(d)-1]&0x80 != 0 {
		return -(res & ^(int64(0x80) << uint(8*(len(d)-1)))), true
	}
	return res, true
}

// ref_scriptnum_encode: CScriptNum::serialize.
func ref_scriptnum_encode(value int64) []byte {
	if value == 0 {
		return []byte{}
	}
	var res []byte
	neg := value < 0
	abs := uint64(value)
	if neg {
		abs = uint64(-value)
	}
	for abs != 0 {
		res = append(res, byte(abs&0xff))
		abs >>= 8
	}
	if res[len(res)-1]&0x80 != 0 {
		if neg {
			res = append(res, 0x80)
		} else {
			res = append(res, 0)
		}
	} else if neg {
		res[len(res)-1] |= 0x80
	}
	return res
}

// ref_cast_to_bool: CastToBool.
func ref_cast_to_bool(d []byte) bool {
	for i := 0; i < len(d); i++ {
		if d[i] != 0 {
			if i == len(d)-1 && d[i] == 0x80 {
				return false
			}
			return true
		}
	}
	return false
}

// ref_valid_sig_encoding: IsValidSignatureEncoding (BIP66).
func ref_valid_sig_encoding(sig []byte) bool {
	if len(sig) < 9 || len(sig) > 73 {
		return false
	}
	if sig[0] != 0x30 {
		return false
	}
	if int(sig[1]) != len(sig)-3 {
		return false
	}
	lenR := int(sig[3])
	if 5+lenR >= len(sig) {
		return false
	}
	lenS := int(sig[5+lenR])
	if lenR+lenS+7 != len(sig) {
		return false
	}
	if sig[2] != 0x02 {
		return false
	}
	if lenR == 0 {
		return false
	}
	if sig[4]&0x80 != 0 {
		return false
	}
	if lenR > 1 && sig[4] == 0 && sig[5]&0x80 == 0 {
		return false
	}
	if sig[lenR+4] != 0x02 {
		return false
	}
	if lenS == 0 {
		return false
	}
	if sig[lenR+6]&0x80 != 0 {
		return false
	}
	if lenS > 1 && sig[lenR+6] == 0 && sig[lenR+7]&0x80 == 0 {
		return false
	}
	return true
}

var ref_half_order = []byte{0x7F, 0xFF, 0xFF, 0xFF, 0xFF, 0xFF, 0xFF, 0xFF, 0xFF, 0xFF, 0xFF, 0xFF, 0xFF, 0xFF, 0xFF, 0xFF,
	0x5D, 0x57, 0x6E, 0x73, 0x57, 0xA4, 0x50, 0x1D, 0xDF, 0xE9, 0x2F, 0x46, 0x68, 0x1B, 0x20, 0xA0}

// ref_low_s: S of a strictly DER-encoded signature is <= n/2 (compared as big-endian byte strings).
func ref_low_s(sig []byte) bool {
	lenR := int(sig[3])
	lenS := int(sig[5+lenR])
	s := sig[6+lenR : 6+lenR+lenS]
	// strip the (single possible) leading zero; strict DER guarantees no more
	for len(s) > 0 && s[0] == 0 {
		s = s[1:]
	}
	if len(s) > 32 {
		return false
	}
	var pad [32]byte
	copy(pad[32-len(s):], s)
	return bytes.Compare(pad[:], ref_half_order) <= 0
}

func ref_check_sig_encoding(sig []byte, flags uint32) bool {
	if len(sig) == 0 {
		return true
	}
	if flags&(VER_DERSIG|VER_LOW_S|VER_STRICTENC) != 0 && !ref_valid_sig_encoding(sig) {
		return false
	}
	if flags&VER_LOW_S != 0 && !ref_low_s(sig) {
		return false
	}
	if flags&VER_STRICTENC != 0 {
		ht := sig[len(sig)-1] &^ 0x80
		if ht < 1 || ht > 3 {
			return false
		}
	}
	return true
}

func ref_check_pubkey_encoding(pk []byte, flags uint32, sigversion int) bool {
	if flags&VER_STRICTENC != 0 {
		ok := false
		if len(pk) >= 33 {
			if pk[0] == 0x04 {
				ok = len(pk) == 65
			} else if pk[0] == 0x02 || pk[0] == 0x03 {
				ok = len(pk) == 33
			}
		}
		if !ok {
			return false
		}
	}
	if flags&VER_WITNESS_PUBKEY != 0 && sigversion == SIGVERSION_WITNESS_V0 {
		if len(pk) != 33 || (pk[0] != 0x02 && pk[0] != 0x03) {
			return false
		}
	}
	return true
}

// ref_minimal_push: CheckMinimalPush.
func ref_minimal_push(data []byte, opcode int) bool {
	if len(data) == 0 {
		return opcode == 0x00
	} else if len(data) == 1 && data[0] >= 1 && data[0] <= 16 {
		return false
	} else if len(data) == 1 && data[0] == 0x81 {
		return false
	} else if len(data) <= 75 {
		return opcode == len(data)
	} else if len(data) <= 255 {
		return opcode == 0x4c
	} else if len(data) <= 65535 {
		return opcode == 0x4d
	}
	return true
}

// ref_get_op: CScript::GetScriptOp on the script starting at b: ok, opcode, pushed data, bytes consumed.
func ref_get_op(b []byte) (ok bool, opcode int, data []byte, n int) {
	if len(b) < 1 {
		return false, 0, nil, 0
	}
	opcode = int(b[0])
	pc := 1
	if opcode <= 0x4e {
		var size uint
		if opcode < 0x4c {
			size = uint(opcode)
		} else if opcode == 0x4c {
			if len(b)-pc < 1 {
				return false, 0, nil, 0
			}
			size = uint(b[pc])
			pc++
		} else if opcode == 0x4d {
			if len(b)-pc < 2 {
				return false, 0, nil, 0
			}
			size = uint(b[pc]) | uint(b[pc+1])<<8
			pc += 2
		} else {
			if len(b)-pc < 4 {
				return false, 0, nil, 0
			}
			size = uint(b[pc]) | uint(b[pc+1])<<8 | uint(b[pc+2])<<16 | uint(b[pc+3])<<24
			pc += 4
		}
		if uint(len(b)-pc) < size {
			return false, 0, nil, 0
		}
		data = b[pc : pc+int(size)]
		pc += int(size)
	}
	return true, opcode, data, pc
}

// ---------------------------------------------------------------------------------------------
// harnesses

// script number decoding: every byte string up to 6 bytes, both size limits, both minimal flags
func H_C01_ScriptNumDecode() {
	L := zzverif.Len("L", 0, 6)
	d := zzverif.Bytes("d", L)
	max := 4 + zzverif.Enum("max5", 2)
	minimal := zzverif.Enum("minimal", 2) == 1
	var got int64
	failed := zzverif.Panics(func() { got = bts2int_ext(d, max, minimal) })
	want, ok := ref_scriptnum_decode(d, max, minimal)
	zzverif.Assert("C01.scriptnum.accept-iff", failed == !ok)
	if ok {
		zzverif.Reach("decoded")
		zzverif.Assert("C01.scriptnum.value", got == want)
	} else {
		zzverif.Reach("refused")
	}
	if max == 4 {
		// the stack helpers used by the arithmetic opcodes
		var st scrStack
		st.push(d)
		var got2 int64
		failed2 := zzverif.Panics(func() { got2 = st.popInt(minimal) })
		zzverif.Assert("C01.scriptnum.popInt", failed2 == !ok && (!ok || got2 == want))
		var st3 scrStack
		st3.push(d)
		var got3 int64
		failed3 := zzverif.Panics(func() { got3 = st3.topInt(-1, minimal) })
		zzverif.Assert("C01.scriptnum.topInt", failed3 == !ok && (!ok || got3 == want))
	}
}

// script number encoding: pushInt == CScriptNum::serialize, and decoding gives the value back
func H_C01_ScriptNumEncode() {
	v := zzverif.I64("v")
	zzverif.Assume(v > -(1<<40) && v < (1<<40))
	zzverif.Bound("pushInt operand", "|v| < 2^40 (script arithmetic results are below 2^33)")
	var st scrStack
	st.pushInt(v)
	got := st.top(-1)
	want := ref_scriptnum_encode(v)
	zzverif.Assert("C01.scriptnum.encode", bytes.Equal(got, want))
	back, ok := ref_scriptnum_decode(got, 8, true)
	zzverif.Assert("C01.scriptnum.encode-minimal-roundtrip", ok && back == v)
	if v < 0 {
		zzverif.Reach("negative")
	}
}

func H_C01_CastToBool() {
	L := zzverif.Len("L", 0, 6)
	d := zzverif.Bytes("d", L)
	zzverif.Assert("C01.casttobool", bts2bool(d) == ref_cast_to_bool(d))
	if bts2bool(d) {
		zzverif.Reach("true")
	}
	var st scrStack
	st.pushBool(zzverif.Bool("b"))
	zzverif.Assert("C01.pushbool", len(st.top(-1)) <= 1)
}

// signature encoding gates for every byte string of every length 0..75 and every flag subset
func H_C01_SigEncoding() {
	var L int
	if zzverif.Tier() == 0 {
		lens := []int{0, 1, 8, 9, 10, 11, 40, 70, 71, 72, 73, 74, 75}
		L = lens[zzverif.Enum("Lidx", len(lens))]
	} else {
		L = zzverif.Len("L", 0, 75)
	}
	sig := zzverif.Bytes("sig", L)
	var flags uint32
	if zzverif.Enum("dersig", 2) == 1 {
		flags |= VER_DERSIG
	}
	if zzverif.Enum("lows", 2) == 1 {
		flags |= VER_LOW_S
	}
	if zzverif.Enum("strictenc", 2) == 1 {
		flags |= VER_STRICTENC
	}
	zzverif.Assert("C01.sigenc.der", IsValidSignatureEncoding(sig) == ref_valid_sig_encoding(sig))
	got := CheckSignatureEncoding(sig, flags)
	want := ref_check_sig_encoding(sig, flags)
	zzverif.Assert("C01.sigenc.check", got == want)
	if got && L > 0 {
		zzverif.Reach("accepted")
	}
	if !got {
		zzverif.Reach("refused")
	}
}

func H_C01_PubKeyEncoding() {
	var L int
	if zzverif.Tier() == 0 {
		lens := []int{0, 1, 32, 33, 34, 64, 65, 66}
		L = lens[zzverif.Enum("Lidx", len(lens))]
	} else {
		L = zzverif.Len("L", 0, 66)
	}
	pk := zzverif.Bytes("pk", L)
	var flags uint32
	if zzverif.Enum("strictenc", 2) == 1 {
		flags |= VER_STRICTENC
	}
	if zzverif.Enum("witness_pubkey", 2) == 1 {
		flags |= VER_WITNESS_PUBKEY
	}
	sv := zzverif.Enum("sigversion", 2) // BASE, WITNESS_V0
	got := CheckPubKeyEncoding(pk, flags, sv)
	zzverif.Assert("C01.pubkeyenc", got == ref_check_pubkey_encoding(pk, flags, sv))
	if got {
		zzverif.Reach("accepted")
	} else {
		zzverif.Reach("refused")
	}
}

func H_C01_MinimalPush() {
	lens := []int{0, 1, 2, 75, 76, 77, 255, 256, 257, 520}
	L := lens[zzverif.Enum("Lidx", len(lens))]
	d := make([]byte, L)
	if L > 0 {
		d[0] = zzverif.U8("d0")
	}
	opcode := int(zzverif.U8("opcode"))
	zzverif.Assume(opcode <= 0x4e)
	got := checkMinimalPush(d, opcode)
	zzverif.Assert("C01.minimalpush", got == ref_minimal_push(d, opcode))
	if got {
		zzverif.Reach("minimal")
	}
}

// opcode fetch: every byte string up to 9 bytes (all push forms, truncated forms, oversized declared sizes)
func H_C01_GetOpcode() {
	L := zzverif.Len("L", 0, 9)
	b := zzverif.Bytes("b", L)
	var op, n int
	var data []byte
	var e error
	if zzverif.Panics(func() { op, data, n, e = btc.GetOpcode(b) }) {
		zzverif.Assert("C01.getopcode.nopanic", false)
	}
	rok, rop, rdata, rn := ref_get_op(b)
	zzverif.Assert("C01.getopcode.accept-iff", (e == nil) == rok)
	if e == nil {
		zzverif.Reach("parsed")
		zzverif.Assert("C01.getopcode.result", op == rop && n == rn && bytes.Equal(data, rdata))
	} else {
		zzverif.Reach("refused")
	}
}

func ref_is_push_only(b []byte) bool {
	for len(b) > 0 {
		ok, op, _, n := ref_get_op(b)
		if !ok {
			return false
		}
		if op > 0x60 {
			return false
		}
		b = b[n:]
	}
	return true
}

func H_C01_IsPushOnly() {
	L := zzverif.Len("L", 0, 6)
	b := zzverif.Bytes("b", L)
	got := btc.IsPushOnly(b)
	zzverif.Assert("C01.ispushonly", got == ref_is_push_only(b))
	if got && L > 2 {
		zzverif.Reach("pushonly")
	}
}

// witness program template: every script of length 0..44
func H_C01_IsWitnessProgram() {
	var L int
	if zzverif.Tier() == 0 {
		lens := []int{0, 3, 4, 5, 22, 34, 41, 42, 43}
		L = lens[zzverif.Enum("Lidx", len(lens))]
	} else {
		L = zzverif.Len("L", 0, 44)
	}
	s := zzverif.Bytes("s", L)
	ver, prog := btc.IsWitnessProgram(s)
	want := L >= 4 && L <= 42 && (s[0] == 0 || (s[0] >= 0x51 && s[0] <= 0x60)) && int(s[1])+2 == L
	zzverif.Assert("C01.witnessprogram.iff", (prog != nil) == want)
	if prog != nil {
		zzverif.Reach("witness-program")
		wv := 0
		if s[0] != 0 {
			wv = int(s[0]) - 0x50
		}
		zzverif.Assert("C01.witnessprogram.parts", ver == wv && bytes.Equal(prog, s[2:]))
	}
	zzverif.Assert("C01.p2sh.template", btc.IsP2SH(s) == (L == 23 && s[0] == 0xa9 && s[1] == 0x14 && s[22] == 0x87))
}

// BIP112 CheckSequence for every tx version, input sequence and operand
func H_C01_CheckSequence() {
	tx := new(btc.Tx)
	tx.Version = zzverif.U32("version")
	tx.TxIn = []*btc.TxIn{{Sequence: zzverif.U32("sequence")}}
	seq := zzverif.I64("operand")
	zzverif.Assume(seq >= 0 && seq < 1<<39)
	got := CheckSequence(tx, 0, seq)
	// reference: BIP112 / GenericTransactionSignatureChecker::CheckSequence
	want := true
	txseq := int64(tx.TxIn[0].Sequence)
	const mask = int64(1<<22 | 0xffff)
	if tx.Version < 2 { // version compared as unsigned (static_cast<uint32_t>)
		want = false
	} else if txseq&(1<<31) != 0 {
		want = false
	} else {
		a, b := txseq&mask, seq&mask
		if !((a < 1<<22 && b < 1<<22) || (a >= 1<<22 && b >= 1<<22)) {
			want = false
		} else if b > a {
			want = false
		}
	}
	zzverif.Assert("C01.checksequence", got == want)
	if got {
		zzverif.Reach("satisfied")
	}
}

// C01: the OP_SUCCESSx set of BIP342 for every opcode value.
func H_C01_OpSuccess() {
	op := int(zzverif.U8("opcode"))
	want := op == 80 || op == 98 || op >= 126 && op <= 129 || op >= 131 && op <= 134 || op >= 137 && op <= 138 ||
		op >= 141 && op <= 142 || op >= 149 && op <= 153 || op >= 187 && op <= 254
	zzverif.Assert("C01.opsuccess", IsOpSuccess(op) == want)
}
