//go:build verif

package script

import (
	"github.com/piotrnar/gocoin/lib/btc"
	"github.com/piotrnar/gocoin/lib/others/zzverif"
)

// h_sig: a signature operand of one of three shapes: empty, a 9-byte strict-DER signature with arbitrary r, s and
// hash type, or an arbitrary byte (not DER).
func h_sig(name string) []byte { return h_sig_n(name, 3, true) }

func h_sig_n(name string, shapes int, symHashType bool) []byte {
	switch zzverif.Enum(name+".shape", shapes) {
	case 0:
		return []byte{}
	case 1:
		b := zzverif.Bytes(name+".rsh", 3)
		if !symHashType {
			// the digest algorithms fork on the hash type (C02's subject): SIGHASH_ALL or the undefined type 4
			b[2] = []byte{1, 4}[zzverif.Enum(name+".hashtype", 2)]
		}
		return []byte{0x30, 0x06, 0x02, 0x01, b[0], 0x02, 0x01, b[1], b[2]}
	}
	return zzverif.Bytes(name+".raw", 1)
}

// h_key: a public-key operand: compressed (arbitrary prefix byte and first X byte), uncompressed-sized with an
// arbitrary prefix, or one arbitrary byte.
func h_key(name string) []byte { return h_key_n(name, 3) }

func h_key_n(name string, shapes int) []byte {
	switch zzverif.Enum(name+".shape", shapes) {
	case 0:
		k := make([]byte, 33)
		copy(k, zzverif.Bytes(name+".head", 2))
		return k
	case 1:
		return zzverif.Bytes(name+".raw", 1)
	}
	k := make([]byte, 65)
	k[0] = zzverif.U8(name + ".prefix")
	return k
}

func h_sig_flags() uint32 {
	var flags uint32
	for _, f := range []struct {
		n string
		v uint32
	}{{"DERSIG", VER_DERSIG}, {"LOW_S", VER_LOW_S}, {"STRICTENC", VER_STRICTENC}, {"NULLFAIL", VER_NULLFAIL}, {"NULLDUMMY", VER_NULLDUMMY},
		{"WITNESS_PUBKEYTYPE", VER_WITNESS_PUBKEY}, {"CONST_SCRIPTCODE", VER_CONST_SCRIPTCODE}} {
		if zzverif.Bool(f.n) {
			flags |= f.v
		}
	}
	return flags
}

// the ECDSA verdict: an uninterpreted function of (key, signature, digest) - the same for the code and the reference
func h_stub_ecdsa() {
	zzverif.Stub("btc.EcdsaVerify: uninterpreted function of (public key, signature, digest); natively imposed through the btc.EC_Verify hook with the model's values")
	verdict := func(k, s, h []byte) bool {
		in := append(append(append([]byte{byte(len(k)), byte(len(s))}, k...), s...), h...)
		return zzverif.Fn("ecdsa-verdict", 1, in)[0]&1 == 1
	}
	if zzverif.Symbolic() {
		zzverif.Replace("btc.EcdsaVerify", verdict)
	} else {
		btc.EC_Verify = verdict // the speed-up hook of lib/btc: EcdsaVerify calls it for non-empty arguments
	}
}

// EcdsaVerify refuses empty keys and signatures before consulting anything: the reference goes through the same gate
func h_ecdsa(k, s, h []byte) bool {
	if !zzverif.Symbolic() && (len(k) == 0 || len(s) == 0) {
		return false
	}
	return btc.EcdsaVerify(k, s, h)
}

func h_sig_tx() *btc.Tx {
	tx := new(btc.Tx)
	tx.Version = 2
	tx.TxIn = []*btc.TxIn{{Sequence: 0xffffffff}}
	tx.TxOut = []*btc.TxOut{{Value: 1, Pk_script: []byte{0x51}}}
	tx.AllocVerVars() // as every caller of the interpreter does
	tx.Spent_outputs = []*btc.TxOut{{Value: 5, Pk_script: []byte{0x51}}}
	return tx
}

// ref_check_ecdsa: GenericTransactionSignatureChecker::CheckECDSASignature
func ref_check_ecdsa(c *SigChecker, sig, key, scriptCode []byte, sv int) bool {
	if len(sig) == 0 {
		return false
	}
	ht := int32(sig[len(sig)-1])
	var sh []byte
	if sv == SIGVERSION_WITNESS_V0 {
		sh = c.Tx.WitnessSigHash(scriptCode, c.Amount, c.Idx, ht)
	} else {
		sh = c.Tx.SignatureHash(scriptCode, c.Idx, ht)
	}
	return h_ecdsa(key, sig, sh)
}

// C01: OP_CHECKSIG / OP_CHECKSIGVERIFY (legacy and segwit v0) for every combination of signature shape, key shape
// and signature-related flags, with the ECDSA verdict an uninterpreted function: encoding gates, FindAndDelete +
// CONST_SCRIPTCODE, NULLFAIL, resulting stack - against interpreter.cpp (EvalChecksigPreTapscript).
func H_C01_CheckSig() {
	h_stub_ecdsa()
	defer func() { btc.EC_Verify = nil }()
	op := []byte{0xac, 0xad}[zzverif.Enum("op", 2)]
	sig, key := h_sig("sig"), h_key("key")
	flags := h_sig_flags()
	sv := zzverif.Enum("sigversion", 2)
	// script: optionally a copy of the signature push in front (FindAndDelete target), then the opcode
	var scr []byte
	embed := zzverif.Bool("sig-embedded-in-script")
	if embed {
		scr = append(append(ref_push(sig), 0x75), op) // <sig> OP_DROP op
	} else {
		scr = []byte{op}
	}
	extra := zzverif.Bool("extra-element")
	var st scrStack
	var rst [][]byte
	if extra {
		st.push([]byte{7})
		rst = append(rst, []byte{7})
	}
	nops := zzverif.Len("operands", 0, 2)
	if nops >= 2 {
		st.push(sig)
		rst = append(rst, sig)
	}
	if nops >= 1 {
		st.push(key)
		rst = append(rst, key)
	}
	checker := &SigChecker{Tx: h_sig_tx(), Idx: 0, Amount: 5}
	var ed btc.ScriptExecutionData
	got := evalScript(scr, &st, checker, flags, sv, &ed)

	// reference
	want := true
	if len(rst) < 2 {
		want = false
	} else {
		vchSig, vchKey := rst[len(rst)-2], rst[len(rst)-1]
		if embed {
			// after <sig> OP_DROP the stack is unchanged; an empty signature pushes OP_0
			if flags&VER_CONST_SCRIPTCODE != 0 && sv == SIGVERSION_BASE {
				if n := func() int { _, c := ref_find_and_delete(scr, ref_push(vchSig)); return c }(); n > 0 {
					want = false
				}
			}
		}
		code := scr
		if sv == SIGVERSION_BASE {
			code, _ = ref_find_and_delete(scr, ref_push(vchSig))
		}
		if want && (!ref_check_sig_encoding(vchSig, flags) || !ref_check_pubkey_encoding(vchKey, flags, sv)) {
			want = false
		}
		if want {
			ok := ref_check_ecdsa(checker, vchSig, vchKey, code, sv)
			if !ok && flags&VER_NULLFAIL != 0 && len(vchSig) > 0 {
				want = false
			} else {
				rst = rst[:len(rst)-2]
				if op == 0xad {
					want = ok
				} else {
					rst = append(rst, ref_bool2vch(ok))
				}
			}
		}
	}
	zzverif.Assert("C01.checksig.verdict", got == want)
	if got {
		zzverif.Reach("accepted")
		zzverif.Assert("C01.checksig.stack", h_same_stack(st.data, rst))
	} else {
		zzverif.Reach("failed")
	}
}

// ref_multisig: OP_CHECKMULTISIG(VERIFY) of interpreter.cpp on the reference stack. nOpCount is not modelled (one
// opcode, at most 20 keys). Returns (script continues, resulting stack).
func ref_multisig(op byte, st [][]byte, scr []byte, flags uint32, sv int, c *SigChecker) (bool, [][]byte) {
	minimal := flags&VER_MINDATA != 0
	top := func(i int) []byte { return st[len(st)-i] }
	i := 1
	if len(st) < i {
		return false, nil
	}
	nKeys, ok := ref_scriptnum_decode(top(i), 4, minimal)
	if !ok || nKeys < 0 || nKeys > 20 {
		return false, nil
	}
	i++
	ikey := i
	ikey2 := int(nKeys) + 2
	i += int(nKeys)
	if len(st) < i {
		return false, nil
	}
	nSigs, ok := ref_scriptnum_decode(top(i), 4, minimal)
	if !ok || nSigs < 0 || nSigs > nKeys {
		return false, nil
	}
	i++
	isig := i
	i += int(nSigs)
	if len(st) < i {
		return false, nil
	}
	code := scr
	for k := 0; k < int(nSigs); k++ {
		if sv == SIGVERSION_BASE {
			var found int
			code, found = ref_find_and_delete(code, ref_push(top(isig+k)))
			if found > 0 && flags&VER_CONST_SCRIPTCODE != 0 {
				return false, nil
			}
		}
	}
	success := true
	for success && nSigs > 0 {
		sig, key := top(isig), top(ikey)
		if !ref_check_sig_encoding(sig, flags) || !ref_check_pubkey_encoding(key, flags, sv) {
			return false, nil
		}
		if ref_check_ecdsa(c, sig, key, code, sv) {
			isig++
			nSigs--
		}
		ikey++
		nKeys--
		if nSigs > nKeys {
			success = false
		}
	}
	for ; i > 1; i-- {
		if !success && flags&VER_NULLFAIL != 0 && ikey2 == 0 && len(top(1)) > 0 {
			return false, nil
		}
		if ikey2 > 0 {
			ikey2--
		}
		st = st[:len(st)-1]
	}
	if len(st) < 1 {
		return false, nil
	}
	if flags&VER_NULLDUMMY != 0 && len(top(1)) > 0 {
		return false, nil
	}
	st = st[:len(st)-1]
	if op == 0xaf {
		return success, st
	}
	return true, append(st, ref_bool2vch(success))
}

func h_multisig_run(op byte, rst [][]byte, scr []byte, flags uint32, sv int, firstSig []byte) {
	var st scrStack
	for _, e := range rst {
		st.push(e)
	}
	checker := &SigChecker{Tx: h_sig_tx(), Idx: 0, Amount: 5}
	var ed btc.ScriptExecutionData
	got := evalScript(scr, &st, checker, flags, sv, &ed)
	want, wst := ref_multisig(op, rst, scr, flags, sv, checker)
	if len(scr) > 1 && flags&VER_MINDATA != 0 && !ref_minimal_push(firstSig, int(scr[0])) {
		want = false // the embedded copy of the signature is itself a non-minimal push
	}
	zzverif.Assert("C01.multisig.verdict", got == want)
	if got {
		zzverif.Reach("accepted")
		zzverif.Assert("C01.multisig.stack", h_same_stack(st.data, wst))
	} else {
		zzverif.Reach("failed")
	}
}

// C01: OP_CHECKMULTISIG(VERIFY) operand handling: count operands of seven encodings (empty, 1, 2, 21, negative,
// non-minimal, 0x00), 0..2 signatures and keys actually on the stack, dummy present / non-null / missing, with
// NULLDUMMY, NULLFAIL and MINIMALDATA in every combination. Signatures are empty and keys one byte, so no
// signature check succeeds: what is decided is the stack discipline and the limits - against interpreter.cpp.
func H_C01_MultiSigOperands() {
	h_stub_ecdsa()
	defer func() { btc.EC_Verify = nil }()
	op := []byte{0xae, 0xaf}[zzverif.Enum("op", 2)]
	var flags uint32
	if zzverif.Bool("NULLDUMMY") {
		flags |= VER_NULLDUMMY
	}
	if zzverif.Bool("NULLFAIL") {
		flags |= VER_NULLFAIL
	}
	if zzverif.Bool("MINIMALDATA") {
		flags |= VER_MINDATA
	}
	sv := zzverif.Enum("sigversion", 1+zzverif.Tier()) // operand handling does not depend on it: legacy only in the quick tier
	counts := [][]byte{{}, {1}, {2}, {21}, {1, 0}, {0x81}, {0}}
	var rst [][]byte
	switch zzverif.Enum("dummy", 3) {
	case 1:
		rst = append(rst, []byte{})
	case 2:
		rst = append(rst, []byte{1})
	}
	ns := zzverif.Len("signatures-on-stack", 0, 2)
	for i := 0; i < ns; i++ {
		rst = append(rst, zzverif.Bytes("sig", zzverif.Len("sig-len", 0, 1)))
	}
	rst = append(rst, counts[zzverif.Enum("sig-count-operand", len(counts))])
	nk := zzverif.Len("keys-on-stack", 0, 2)
	for i := 0; i < nk; i++ {
		rst = append(rst, zzverif.Bytes("key", 1))
	}
	rst = append(rst, counts[zzverif.Enum("key-count-operand", len(counts))])
	h_multisig_run(op, rst, []byte{op}, flags, sv, nil)
}

// C01: OP_CHECKMULTISIG(VERIFY) signature/key matching walk on a well-formed operand layout: 2 (thorough 3) keys,
// 1..2 (3) signatures of every shape, flag sets from a case split, legacy and segwit v0, the first signature
// optionally embedded in the script (FindAndDelete / CONST_SCRIPTCODE), ECDSA verdicts an uninterpreted function.
func H_C01_MultiSigWalk() {
	h_stub_ecdsa()
	defer func() { btc.EC_Verify = nil }()
	op := []byte{0xae, 0xaf}[zzverif.Enum("op", 2)]
	sets := []uint32{0, VER_NULLFAIL, VER_NULLDUMMY, VER_DERSIG | VER_STRICTENC, VER_LOW_S, VER_WITNESS_PUBKEY, VER_CONST_SCRIPTCODE,
		VER_DERSIG | VER_STRICTENC | VER_LOW_S | VER_NULLDUMMY | VER_NULLFAIL | VER_WITNESS_PUBKEY | VER_CONST_SCRIPTCODE | VER_MINDATA}
	if zzverif.Tier() > 0 {
		sets = append(sets, VER_NULLFAIL|VER_NULLDUMMY, VER_NULLFAIL|VER_STRICTENC, VER_NULLFAIL|VER_CONST_SCRIPTCODE)
	}
	flags := sets[zzverif.Enum("flag-set", len(sets))]
	sv := zzverif.Enum("sigversion", 2)
	nk := 2 + zzverif.Tier()
	ns := zzverif.Len("signatures", 1, nk)
	rst := [][]byte{{}}
	var sigs [][]byte
	for i := 0; i < ns; i++ {
		s := h_sig_n("sig", 3, false)
		sigs = append(sigs, s)
		rst = append(rst, s)
	}
	rst = append(rst, []byte{byte(ns)})
	for i := 0; i < nk; i++ {
		rst = append(rst, h_key_n("key", 2))
	}
	rst = append(rst, []byte{byte(nk)})
	scr := []byte{op}
	if sv == SIGVERSION_BASE && zzverif.Bool("sig-embedded-in-script") {
		scr = append(append(ref_push(sigs[0]), 0x75), op)
	}
	h_multisig_run(op, rst, scr, flags, sv, sigs[0])
}
