//go:build verif

package chain

import (
	"bytes"
	"crypto/sha256"
	"encoding/binary"
	"errors"
	"io"
	"os"

	"github.com/piotrnar/gocoin/lib/btc"
	"github.com/piotrnar/gocoin/lib/others/zzverif"
)

// ---- ghost file system (engine only): files are byte strings

type h16_handle struct {
	name string
	pos  int
}

type h16_fs struct {
	files   map[string][]byte
	handles map[*os.File]*h16_handle
	ops     int // mutating operations performed so far (C07: crash points)
	crashAt int // panic(h16_crash{}) instead of performing this mutating operation; 0 = never
}

type h16_crash struct{}

func (fs *h16_fs) tick() {
	fs.ops++
	if fs.ops == fs.crashAt {
		panic(h16_crash{})
	}
}

type h16_info struct{ name string }

func (fs *h16_fs) open(name string, create bool) (*os.File, error) {
	if _, ok := fs.files[name]; !ok {
		if !create {
			return nil, os.ErrNotExist
		}
		fs.files[name] = []byte{}
	}
	f := new(os.File)
	fs.handles[f] = &h16_handle{name: name}
	return f, nil
}

func (fs *h16_fs) writeAt(name string, pos int, b []byte) {
	d := fs.files[name]
	for len(d) < pos+len(b) {
		d = append(d, 0)
	}
	copy(d[pos:], b)
	fs.files[name] = d
}

func (fs *h16_fs) install() {
	zzverif.Stub("os file functions: an in-memory file map (Create / Open / OpenFile / Stat / Remove / MkdirAll and *os.File Read / ReadAt / Write / WriteAt / Seek / Close / Sync)")
	zzverif.Replace("os.MkdirAll", func(name string, perm os.FileMode) error { return nil })
	zzverif.Replace("os.Create", func(name string) (*os.File, error) {
		fs.tick()
		fs.files[name] = []byte{}
		return fs.open(name, true)
	})
	zzverif.Replace("os.Open", func(name string) (*os.File, error) { return fs.open(name, false) })
	zzverif.Replace("os.OpenFile", func(name string, flag int, perm os.FileMode) (*os.File, error) {
		return fs.open(name, flag&os.O_CREATE != 0)
	})
	zzverif.Replace("os.Stat", func(name string) (os.FileInfo, error) {
		if _, ok := fs.files[name]; !ok {
			return nil, os.ErrNotExist
		}
		return nil, nil
	})
	zzverif.Replace("os.Remove", func(name string) error {
		if _, ok := fs.files[name]; !ok {
			return os.ErrNotExist
		}
		fs.tick()
		delete(fs.files, name)
		return nil
	})
	zzverif.Replace("(*os.File).Write", func(f *os.File, b []byte) (int, error) {
		h := fs.handles[f]
		fs.tick()
		fs.writeAt(h.name, h.pos, b)
		h.pos += len(b)
		return len(b), nil
	})
	zzverif.Replace("(*os.File).WriteAt", func(f *os.File, b []byte, off int64) (int, error) {
		if off < 0 {
			return 0, errors.New("negative offset")
		}
		fs.tick()
		fs.writeAt(fs.handles[f].name, int(off), b)
		return len(b), nil
	})
	read := func(name string, pos int, b []byte) (int, error) {
		d := fs.files[name]
		if pos >= len(d) {
			if len(b) == 0 {
				return 0, nil
			}
			return 0, io.EOF
		}
		return copy(b, d[pos:]), nil
	}
	zzverif.Replace("(*os.File).Read", func(f *os.File, b []byte) (int, error) {
		h := fs.handles[f]
		n, e := read(h.name, h.pos, b)
		h.pos += n
		return n, e
	})
	zzverif.Replace("(*os.File).ReadAt", func(f *os.File, b []byte, off int64) (int, error) {
		if off < 0 {
			return 0, errors.New("negative offset")
		}
		n, e := read(fs.handles[f].name, int(off), b)
		if e == nil && n < len(b) {
			e = io.EOF
		}
		return n, e
	})
	zzverif.Replace("(*os.File).Seek", func(f *os.File, off int64, whence int) (int64, error) {
		h := fs.handles[f]
		switch whence {
		case 0:
			h.pos = int(off)
		case 1:
			h.pos += int(off)
		case 2:
			h.pos = len(fs.files[h.name]) + int(off)
		}
		return int64(h.pos), nil
	})
	zzverif.Replace("(*os.File).Close", func(f *os.File) error { return nil })
	zzverif.Replace("(*os.File).Sync", func(f *os.File) error { return nil })
}

// h16_block: a block of 81..82 bytes with a fixed (distinct, incompressible) header and arbitrary bytes after it
func h16_block(tag byte, name string) *btc.Block {
	raw := make([]byte, 0, 96)
	for i := byte(0); i < 3; i++ {
		h := sha256.Sum256([]byte{tag, i})
		raw = append(raw, h[:]...)
	}
	raw = raw[:80]
	raw = append(raw, zzverif.Bytes(name, 1+int(tag&1))...) // 81 or 82 bytes
	bl, _ := btc.NewBlock(raw)
	bl.TxCount = int(tag)
	return bl
}

// h16_snappy_literal: the snappy stream of an input of 61..256 bytes in which the encoder finds no repeated
// 4-byte sequence: length varint, one literal element. This is what snappy.Encode emits for the blocks of this
// harness (their headers are SHA-256 output; the encoder does not look for matches in the last 15 bytes).
func h16_snappy_literal(src []byte) []byte {
	out := []byte{byte(len(src)), 0xf0, byte(len(src) - 1)}
	if len(src) >= 128 {
		out = []byte{byte(len(src)) | 0x80, 1, 0xf0, byte(len(src) - 1)}
	}
	return append(out, src...)
}

func h16_install_snappy() {
	zzverif.Stub("snappy assembly kernels encodeBlock / decode: one literal element for the harness blocks (their headers are SHA-256 output, so the real encoder finds no match), and a decoder of literal elements; snappy.Encode / Decode themselves are the real code")
	zzverif.Replace("github.com/piotrnar/gocoin/lib/others/snappy.encodeBlock", func(dst, src []byte) int {
		dst[0], dst[1] = 0xf0, byte(len(src)-1) // 61..256 bytes
		return 2 + copy(dst[2:], src)
	})
	zzverif.Replace("github.com/piotrnar/gocoin/lib/others/snappy.decode", func(dst, src []byte) int {
		d, s := 0, 0
		for s < len(src) {
			if src[s]&3 != 0 {
				return 1 // a copy element: not produced by the encoder stub
			}
			n := int(src[s] >> 2)
			s++
			if n == 60 {
				if s >= len(src) {
					return 1
				}
				n = int(src[s])
				s++
			} else if n > 60 {
				return 1
			}
			n++
			if n > len(dst)-d || n > len(src)-s {
				return 1
			}
			copy(dst[d:], src[s:s+n])
			d, s = d+n, s+n
		}
		if d != len(dst) {
			return 1
		}
		return 0
	})
}

// C16 (inductive step): the block store opened on an arbitrary well-formed on-disk state of two blocks (each with an
// arbitrary flag byte: trusted and/or invalid), then one new block added, optionally flushed, optionally one of the
// three blocks marked trusted or invalid, the store closed and opened again. At every stage every block that is not
// marked invalid is returned byte-identical by its hash, the index walk lists exactly the non-invalid blocks with
// their heights, sizes, transaction counts and trusted flags, and appending overwrote none of them.
func H_C16_StoreStep() { h16_step(false) }

// C16: the same step with the store compressing on disk: the two stored blocks are snappy streams (longer than the
// blocks, as for any incompressible block), the new block is compressed when written.
func H_C16_StoreStepCompressed() { h16_step(true) }

func h16_step(compress bool) {
	fs := &h16_fs{files: map[string][]byte{}, handles: map[*os.File]*h16_handle{}}
	dir := "/blocks/"
	if zzverif.Symbolic() {
		fs.install()
		if compress {
			h16_install_snappy()
		}
	} else {
		// natively the same steps run on real files
		tmp, _ := os.MkdirTemp("", "zzverif_c16_")
		defer os.RemoveAll(tmp)
		dir = tmp + "/"
	}
	A, B, C := h16_block(0xA1, "A"), h16_block(0xB2, "B"), h16_block(0xC3, "C")
	pre := []*btc.Block{A, B}
	flags := []byte{byte(zzverif.Enum("A.flags", 4)), 0} // bit 0 trusted, bit 1 invalid
	if zzverif.Tier() == 0 {
		flags[1] = byte(2 * zzverif.Enum("B.invalid", 2)) // quick: the second block plain or invalid
	} else {
		flags[1] = byte(zzverif.Enum("B.flags", 4))
	}
	zzverif.Bound("store state", "two stored blocks of 81..82 bytes (fixed distinct headers, arbitrary bodies) with arbitrary trusted/invalid flags (quick: the second block plain or invalid), uncompressed (StoreStep) or snappy streams of one literal element (StoreStepCompressed); one new block, written to the same data file or to a new one (roll-over); cache of 1 or 10 blocks")
	// ---- the on-disk pre-state in the store's own format
	var idx, dat []byte
	for i, bl := range pre {
		var rec [136]byte
		rec[0] = flags[i] | BLOCK_LENGTH | BLOCK_INDEX
		binary.LittleEndian.PutUint32(rec[32:36], uint32(len(bl.Raw)))
		binary.LittleEndian.PutUint32(rec[36:40], uint32(100+i))
		binary.LittleEndian.PutUint64(rec[40:48], uint64(len(dat)))
		stored := bl.Raw
		if compress {
			rec[0] |= BLOCK_COMPRSD | BLOCK_SNAPPED
			stored = h16_snappy_literal(bl.Raw)
		}
		binary.LittleEndian.PutUint32(rec[48:52], uint32(len(stored)))
		binary.LittleEndian.PutUint32(rec[52:56], uint32(bl.TxCount))
		copy(rec[56:136], bl.Raw[:80])
		idx = append(idx, rec[:]...)
		dat = append(dat, stored...)
	}
	if zzverif.Symbolic() {
		fs.files[dir+"blockchain.new"] = idx
		fs.files[dir+"blockchain.dat"] = dat
	} else {
		os.WriteFile(dir+"blockchain.new", idx, 0660)
		os.WriteFile(dir+"blockchain.dat", dat, 0660)
	}
	cache := []int{1, 10}[zzverif.Enum("cache-size", 2)]
	var maxDat uint64
	if zzverif.Bool("data-file-roll-over") {
		maxDat = 100 // the existing data file is already larger: the new block starts blockchain-00000001.dat
	}

	type listed struct {
		height, blen, txs uint32
	}
	open := func() (*BlockDB, map[[32]byte]listed) {
		db := NewBlockDBExt(dir, &BlockDBOpts{MaxCachedBlocks: cache, MaxDataFileSize: maxDat, CompressOnDisk: compress})
		got := map[[32]byte]listed{}
		db.LoadBlockIndex(nil, func(ch *Chain, hash, hdr []byte, height, blen, txs uint32) {
			var h [32]byte
			copy(h[:], hash)
			got[h] = listed{height, blen, txs}
		})
		return db, got
	}
	invalid := map[*btc.Block]bool{A: flags[0]&2 != 0, B: flags[1]&2 != 0}
	trusted := map[*btc.Block]bool{A: flags[0]&1 != 0, B: flags[1]&1 != 0}
	height := map[*btc.Block]uint32{A: 100, B: 101, C: 102}
	check := func(stage string, db *BlockDB, list map[[32]byte]listed, blocks []*btc.Block, afterReopen bool) {
		n := 0
		for _, bl := range blocks {
			if invalid[bl] && afterReopen {
				_, in := list[bl.Hash.Hash]
				zzverif.Assert("C16."+stage+".invalid-not-listed", !in)
				continue
			}
			if invalid[bl] {
				continue // marked invalid in this session: nothing is promised about it any more
			}
			n++
			if list != nil {
				l, in := list[bl.Hash.Hash]
				zzverif.Assert("C16."+stage+".listed", in && l.height == height[bl] && l.blen == uint32(len(bl.Raw)) && l.txs == uint32(bl.TxCount))
			}
			data, tr, er := db.BlockGet(bl.Hash)
			zzverif.Assert("C16."+stage+".read-back", er == nil && bytes.Equal(data, bl.Raw))
			zzverif.Assert("C16."+stage+".trusted-flag", tr == trusted[bl])
		}
		if list != nil {
			zzverif.Assert("C16."+stage+".lists-nothing-else", len(list) == n)
		}
	}
	db, list := open()
	check("open", db, list, pre, true)

	// ---- one step: add C, maybe flush, maybe flag an old block
	db.BlockAdd(height[C], C)
	if zzverif.Bool("flush-after-add") {
		db.Idle()
	}
	switch zzverif.Enum("flag-op", 7) {
	case 1:
		if !invalid[A] {
			db.BlockTrusted(A.Hash.Hash[:])
			trusted[A] = true
		}
	case 2:
		if !invalid[B] {
			db.BlockTrusted(B.Hash.Hash[:])
			trusted[B] = true
		}
	case 3:
		if !invalid[A] && !trusted[A] {
			db.BlockInvalid(A.Hash.Hash[:])
			invalid[A] = true
		}
	case 4:
		if !invalid[B] && !trusted[B] {
			db.BlockInvalid(B.Hash.Hash[:])
			invalid[B] = true
		}
	case 5: // the new block, still queued or already written
		db.BlockTrusted(C.Hash.Hash[:])
		trusted[C] = true
	case 6:
		db.BlockInvalid(C.Hash.Hash[:])
		invalid[C] = true
	}
	all := []*btc.Block{A, B, C}
	check("after-add", db, nil, all, false)
	db.Close()
	fs.handles = map[*os.File]*h16_handle{}
	db2, list2 := open()
	check("reopen", db2, list2, all, true)
	zzverif.Reach("reopened")
}
