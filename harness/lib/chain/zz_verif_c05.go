//go:build verif

package chain

import (
	"encoding/binary"
	"time"

	"github.com/piotrnar/gocoin/lib/btc"
	"github.com/piotrnar/gocoin/lib/others/zzverif"
)

// ref_mtp: median of the timestamps of the last min(11, n) blocks, as in Bitcoin Core
// (sorted ascending, element n/2), written as a branch-free compare-exchange network.
func ref_mtp(ts []uint32) uint32 {
	a := make([]uint64, len(ts))
	for i := range ts {
		a[i] = uint64(ts[i])
	}
	n := len(a)
	for i := 0; i < n; i++ {
		for j := 0; j+1 < n-i; j++ {
			sw := a[j+1] < a[j]
			lo := zzverif.Ite64(sw, a[j+1], a[j])
			hi := zzverif.Ite64(sw, a[j], a[j+1])
			a[j], a[j+1] = lo, hi
		}
	}
	return uint32(a[n/2])
}

// h_chain builds a chain object with mainnet activation heights and a branch of n ancestors whose
// timestamps and bits are symbolic; the tip (the new block's parent) has height `height`.
func h_chain(n int, height uint32) (*Chain, *BlockTreeNode, []uint32) {
	ch := new(Chain)
	ch.BlockIndex = make(map[[btc.Uint256IdxLen]byte]*BlockTreeNode)
	ch.Genesis = btc.NewUint256(make([]byte, 32)) // mainnet-like (neither testnet marker byte)
	ch.Consensus.BIP34Height = 227931
	ch.Consensus.BIP66Height = 363725
	ch.Consensus.BIP65Height = 388381
	ch.Consensus.Enforce_CSV = 419328
	ch.Consensus.Enforce_SEGWIT = 481824
	ch.Consensus.Enforce_Taproot = 709632
	var prev *BlockTreeNode
	var stamps []uint32
	for i := 0; i < n; i++ {
		nd := new(BlockTreeNode)
		nd.Height = height - uint32(n-1-i)
		t := zzverif.U32("anc.time")
		binary.LittleEndian.PutUint32(nd.BlockHeader[68:72], t)
		binary.LittleEndian.PutUint32(nd.BlockHeader[72:76], zzverif.U32("anc.bits"))
		h := make([]byte, 32)
		h[0] = byte(i + 1)
		nd.BlockHash = btc.NewUint256(h)
		nd.Parent = prev
		if prev != nil {
			prev.Childs = []*BlockTreeNode{nd}
		} else {
			ch.BlockTreeRoot = nd
		}
		ch.BlockIndex[nd.BlockHash.BIdx()] = nd
		stamps = append(stamps, t)
		prev = nd
	}
	ch.blockTreeEnd = prev
	return ch, prev, stamps
}

// C05: median-time-past over 1..11 ancestors with arbitrary timestamps.
func H_C05_MedianTimePast() {
	n := zzverif.Len("ancestors", 1, 11)
	_, tip, stamps := h_chain(n, 1000)
	got := tip.GetMedianTimePast()
	zzverif.Assert("C05.mtp", got == ref_mtp(stamps))
	if n == 11 {
		zzverif.Reach("eleven")
	}
}

// C05: header acceptance (PreCheckBlock): a header is accepted only if the proof-of-work check passed, its bits
// equal the required bits, its time exceeds the median time past and is at most two hours ahead, and its (signed)
// version is permitted at its height. Proof-of-work and retarget computations are stubbed with arbitrary results
// here (decided by their own harnesses).
func H_C05_PreCheckBlock() {
	n := 11
	if zzverif.Tier() == 0 {
		n = 3 + zzverif.Enum("ancestors-3", 2)*8 // 3 or 11
	} else {
		n = zzverif.Len("ancestors", 1, 11)
	}
	height := zzverif.U32("parent.height")
	zzverif.Assume(height >= 11 && height < 0x7fffffff)
	ch, tip, stamps := h_chain(n, height)
	powOK := zzverif.Bool("pow.ok")
	gnwr := zzverif.U32("required.bits")
	zzverif.Replace("btc.CheckProofOfWork", func(h *btc.Uint256, bits uint32) bool { return powOK })
	zzverif.Replace("(*chain.Chain).GetNextWorkRequired", func(c *Chain, lst *BlockTreeNode, ts uint32) uint32 { return gnwr })
	zzverif.Stub("btc.CheckProofOfWork and Chain.GetNextWorkRequired return arbitrary values here (decided in H_C05_Target*)")

	hdr := zzverif.Bytes("header", 80)
	copy(hdr[4:36], tip.BlockHash.Hash[:]) // builds on the tip (unknown parents are refused: see H_C05_PreCheckOrphan)
	if !zzverif.Symbolic() {
		// native replay: realise the two stubs on the real code. An easy target (2^255) is put into the header
		// and its parent (so the non-boundary retarget rule requires exactly it) and the nonce is ground until
		// the real proof-of-work check agrees with the model's verdict.
		if (height+1)%2016 == 0 {
			return
		}
		binary.LittleEndian.PutUint32(hdr[72:76], 0x207fffff)
		binary.LittleEndian.PutUint32(tip.BlockHeader[72:76], 0x207fffff)
		for nonce := uint32(0); nonce < 1000; nonce++ {
			binary.LittleEndian.PutUint32(hdr[76:80], nonce)
			b, _ := btc.NewBlock(hdr)
			if btc.CheckProofOfWork(b.Hash, 0x207fffff) == powOK {
				break
			}
		}
		gnwr = 0x207fffff
	}
	bl, _ := btc.NewBlock(hdr)
	now0 := time.Now().Unix()
	_, _, er := ch.PreCheckBlock(bl)
	now1 := time.Now().Unix()
	if er != nil {
		zzverif.Reach("refused")
		return
	}
	zzverif.Reach("accepted")
	ver := int32(binary.LittleEndian.Uint32(hdr[0:4]))
	tm := binary.LittleEndian.Uint32(hdr[68:72])
	bits := binary.LittleEndian.Uint32(hdr[72:76])
	h := height + 1
	zzverif.Assert("C05.header.pow", powOK)
	zzverif.Assert("C05.header.bits", bits == gnwr)
	zzverif.Assert("C05.header.time-too-old", tm > ref_mtp(stamps))
	zzverif.Assert("C05.header.time-too-new", int64(tm) <= now1+7200 && now0 <= now1)
	zzverif.Known("C05-negative-version", ver < 0)
	zzverif.Assert("C05.header.version", !(ver < 2 && h >= 227931) && !(ver < 3 && h >= 363725) && !(ver < 4 && h >= 388381))
	zzverif.Assert("C05.header.height", bl.Height == h && bl.MedianPastTime == ref_mtp(stamps))
}

// C05: a header whose parent is unknown, or which is already indexed, is never accepted.
func H_C05_PreCheckOrphan() {
	ch, tip, _ := h_chain(2, 500000)
	zzverif.Replace("btc.CheckProofOfWork", func(h *btc.Uint256, bits uint32) bool { return true })
	zzverif.Replace("(*chain.Chain).GetNextWorkRequired", func(c *Chain, lst *BlockTreeNode, ts uint32) uint32 { return zzverif.U32("required.bits") })
	hdr := zzverif.Bytes("header", 80)
	bl, _ := btc.NewBlock(hdr)
	_, later, er := ch.PreCheckBlock(bl)
	parentKnown := btc.NewUint256(hdr[4:36]).BIdx() == tip.BlockHash.BIdx() || btc.NewUint256(hdr[4:36]).BIdx() == tip.Parent.BlockHash.BIdx()
	if er == nil {
		zzverif.Reach("accepted")
		zzverif.Assert("C05.header.parent-known", parentKnown)
	} else if later {
		zzverif.Reach("orphan")
		zzverif.Assert("C05.header.orphan-flag", !parentKnown)
	}
}

// C05: verification flags as a function of (height, time) on mainnet parameters.
func H_C05_BlockFlags() {
	ch, _, _ := h_chain(1, 1)
	height := zzverif.U32("height")
	tm := zzverif.U32("time")
	f := ch.GetBlockFlags(height, tm)
	has := func(bit uint32) bool { return f&bit != 0 }
	// script flag bits as defined in lib/script: P2SH=1<<0 DERSIG=1<<2 NULLDUMMY=1<<4 CLTV=1<<9 CSV=1<<10 WITNESS=1<<11 TAPROOT=1<<17
	zzverif.Assert("C05.flags.p2sh", has(1<<0) == (tm == 0 || tm >= 1333238400))
	zzverif.Assert("C05.flags.dersig", has(1<<2) == (height >= 363725))
	zzverif.Assert("C05.flags.cltv", has(1<<9) == (height >= 388381))
	zzverif.Assert("C05.flags.csv", has(1<<10) == (height >= 419328))
	zzverif.Assert("C05.flags.witness", has(1<<11) == (height >= 481824) && has(1<<4) == (height >= 481824))
	zzverif.Assert("C05.flags.taproot", has(1<<17) == (height >= 709632))
	if has(1 << 17) {
		zzverif.Reach("taproot-active")
	}
}
