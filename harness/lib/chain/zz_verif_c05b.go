//go:build verif

package chain

import (
	"bytes"
	"crypto/sha256"
	"encoding/binary"
	"math/big"

	"github.com/piotrnar/gocoin/lib/btc"
	"github.com/piotrnar/gocoin/lib/others/zzverif"
	"github.com/piotrnar/gocoin/lib/script"
)

// ref_bip34_prefix: CScript() << height  (Bitcoin Core: OP_0 / OP_1..OP_16 / minimal script-number push).
func ref_bip34_prefix(h uint32) []byte {
	if h == 0 {
		return []byte{0x00}
	}
	if h <= 16 {
		return []byte{byte(0x50 + h)}
	}
	var num []byte
	v := uint64(h)
	for v != 0 {
		num = append(num, byte(v))
		v >>= 8
	}
	if num[len(num)-1]&0x80 != 0 {
		num = append(num, 0)
	}
	return append([]byte{byte(len(num))}, num...)
}

// C05: the BIP34 coinbase prefix for every uint32 height.
func H_C05_BIP34Prefix() {
	h := zzverif.U32("height")
	zzverif.Assert("C05.bip34.prefix", bytes.Equal(script.UintToScript(h), ref_bip34_prefix(h)))
	if h > 0x7fffff {
		zzverif.Reach("four-or-five-byte-number")
	}
}

// C05: transaction finality (IsFinalTx) for every lock time, cut-offs and sequence numbers.
func H_C05_IsFinal() {
	nin := 1 + zzverif.Enum("nin-1", 3)
	tx := new(btc.Tx)
	tx.Lock_time = zzverif.U32("locktime")
	allFinal := true
	for i := 0; i < nin; i++ {
		s := zzverif.U32("seq")
		tx.TxIn = append(tx.TxIn, &btc.TxIn{Sequence: s})
		allFinal = allFinal && s == 0xffffffff
	}
	height := zzverif.U32("height")
	tm := zzverif.U32("time")
	want := false
	if tx.Lock_time == 0 {
		want = true
	} else {
		cut := int64(tm)
		if tx.Lock_time < 500000000 {
			cut = int64(height)
		}
		if int64(tx.Lock_time) < cut {
			want = true
		} else {
			want = allFinal
		}
	}
	zzverif.Assert("C05.isfinal", tx.IsFinal(height, tm) == want)
	if !want {
		zzverif.Reach("non-final")
	}
}

func ref_dsha(a, b []byte) [32]byte {
	s := sha256.New()
	s.Write(a)
	s.Write(b)
	t := s.Sum(nil)
	s.Reset()
	s.Write(t)
	var out [32]byte
	copy(out[:], s.Sum(nil))
	return out
}

// ref_merkle: ComputeMerkleRoot with the CVE-2012-2459 mutation flag (Bitcoin Core consensus/merkle.cpp).
func ref_merkle(leaves [][32]byte) (root [32]byte, mutated bool) {
	if len(leaves) == 0 {
		return
	}
	level := append([][32]byte{}, leaves...)
	for len(level) > 1 {
		for pos := 0; pos+1 < len(level); pos += 2 {
			if level[pos] == level[pos+1] {
				mutated = true
			}
		}
		if len(level)&1 == 1 {
			level = append(level, level[len(level)-1])
		}
		next := make([][32]byte, 0, len(level)/2)
		for pos := 0; pos < len(level); pos += 2 {
			next = append(next, ref_dsha(level[pos][:], level[pos+1][:]))
		}
		level = next
	}
	return level[0], mutated
}

// C05: Merkle root and duplicate-subtree (mutation) detection over n symbolic leaf hashes.
func H_C05_Merkle() {
	maxN := 5 + 3*zzverif.Tier()
	n := zzverif.Len("leaves", 1, maxN)
	leaves := make([][32]byte, n)
	for i := range leaves {
		copy(leaves[i][:], zzverif.Bytes("leaf", 32))
	}
	in := make([][32]byte, n, 3*n)
	copy(in, leaves)
	got, mut := btc.CalcMerkle(in)
	want, wmut := ref_merkle(leaves)
	zzverif.Assert("C05.merkle.mutation-flag", mut == wmut)
	zzverif.Assert("C05.merkle.root", bytes.Equal(got, want[:]))
	if wmut {
		zzverif.Reach("mutated")
	}
}

// ref_next_work: Bitcoin Core's GetNextWorkRequired / CalculateNextWorkRequired (pow.cpp) for main net rules
func ref_next_work(height uint32, lastBits, lastTime, firstTime uint32, limit *big.Int) uint32 {
	if (height+1)%2016 != 0 {
		return lastBits
	}
	span := int64(lastTime) - int64(firstTime)
	const T = 14 * 24 * 60 * 60
	if span < T/4 {
		span = T / 4
	}
	if span > T*4 {
		span = T * 4
	}
	bn := btc.SetCompact(lastBits) // decided against arith_uint256::SetCompact by H_C05_CompactDecode
	bn.Mul(bn, big.NewInt(span))
	bn.Div(bn, big.NewInt(T))
	if bn.Cmp(limit) > 0 {
		bn = limit
	}
	return btc.GetCompact(bn) // decided against arith_uint256::GetCompact by H_C05_CompactEncode
}

// C05: difficulty retargeting on main net: the required bits after a parent at a period boundary (and inside a
// period) for arbitrary timestamps of the first and last block of the period and a case split of the parent's
// target, against pow.cpp.
func H_C05_Retarget() {
	zzverif.IntMode()
	ch := new(Chain)
	ch.Genesis = btc.NewUint256(make([]byte, 32)) // mainnet-like (neither testnet marker byte)
	ch.Consensus.MaxPOWBits = 0x1d00ffff
	ch.Consensus.MaxPOWValue, _ = new(big.Int).SetString("00000000FFFFFFFFFFFFFFFFFFFFFFFFFFFFFFFFFFFFFFFFFFFFFFFFFFFFFFFF", 16)
	heights := []uint32{2015, 2014, 2016, 4031}
	height := heights[zzverif.Enum("parent-height", len(heights))]
	bitsCases := []uint32{0x1d00ffff, 0x1c7fffff, 0x1b0404cb, 0x1701f0cc, 0x1d00c000, 0x03123456}
	bits := bitsCases[zzverif.Enum("parent-bits", len(bitsCases))]
	zzverif.Bound("retarget", "parent heights 2015, 2014, 2016, 4031; parent targets 1d00ffff, 1c7fffff, 1b0404cb, 1701f0cc, 1d00c000, 03123456; first and last timestamp of the period arbitrary")
	tFirst, tLast := zzverif.U32("time.first"), zzverif.U32("time.last")
	// the parent and its 2015 ancestors
	var first, lst *BlockTreeNode
	var prev *BlockTreeNode
	base := height - 2015
	if height < 2015 {
		base = 0
	}
	for h := base; h <= height; h++ {
		n := &BlockTreeNode{Height: h, Parent: prev}
		binary.LittleEndian.PutUint32(n.BlockHeader[72:76], bits)
		if prev == nil {
			first = n
			if h > 0 {
				n.Parent = &BlockTreeNode{Height: h - 1} // not the genesis block
			}
		}
		prev = n
	}
	lst = prev
	binary.LittleEndian.PutUint32(first.BlockHeader[68:72], tFirst)
	binary.LittleEndian.PutUint32(lst.BlockHeader[68:72], tLast)
	got := ch.GetNextWorkRequired(lst, zzverif.U32("time.new"))
	want := ref_next_work(height, bits, tLast, tFirst, ch.Consensus.MaxPOWValue)
	zzverif.Assert("C05.retarget", got == want)
	if (height+1)%2016 == 0 {
		if int64(tLast)-int64(tFirst) < 14*24*60*60/4 {
			zzverif.Reach("clamped-low")
		}
		if int64(tLast)-int64(tFirst) > 14*24*60*60*4 {
			zzverif.Reach("clamped-high")
		}
	}
}

// C05: the BIP141 witness commitment in PostCheckBlock. A block of a coinbase (1..2 outputs of five kinds: plain,
// correct commitment, commitment with an arbitrary hash, correct commitment in a 39-byte script, 37-byte
// look-alike) and one more transaction, coinbase witness of four shapes, second transaction with or without
// witness: accepted exactly when the LAST commitment-shaped output commits to the witness merkle root with a
// single 32-byte nonce, or there is no commitment and no witness data at all. Merkle root matches by construction.
func H_C05_WitnessCommitment() {
	const height = 840000
	ch, _, _ := h_chain(1, height-1)
	raw := make([]byte, 81)
	raw[0] = 4
	bl, _ := btc.NewBlock(raw)
	bl.Height = height
	cb := new(btc.Tx)
	cb.Version = 1
	cb.TxIn = []*btc.TxIn{{Input: btc.TxPrevOut{Vout: 0xffffffff}, ScriptSig: append(script.UintToScript(height), 0x51), Sequence: 0xffffffff}}
	cb.Hash.Hash = h_id(0xC0)
	tx2 := new(btc.Tx)
	tx2.Version = 1
	tx2.TxIn = []*btc.TxIn{{Input: btc.TxPrevOut{Hash: h_id(0xA1)}, ScriptSig: []byte{}, Sequence: 0xffffffff}}
	tx2.TxOut = []*btc.TxOut{{Value: 1, Pk_script: []byte{0x51}}}
	copy(tx2.Hash.Hash[:], zzverif.Bytes("tx2.txid", 32))
	zzverif.Assume(tx2.Hash.Hash != cb.Hash.Hash) // equal txids are the CVE-2012-2459 mutation case (H_C05_Merkle)
	if zzverif.Bool("tx2.has-witness") {
		tx2.SegWit = [][][]byte{{{1}}}
	}
	nonce := zzverif.Bytes("nonce", 32)
	switch zzverif.Enum("coinbase-witness", 4) {
	case 1:
		cb.SegWit = [][][]byte{{nonce}}
	case 2:
		cb.SegWit = [][][]byte{{nonce[:31]}}
	case 3:
		cb.SegWit = [][][]byte{{nonce, nonce}}
	}
	bl.Txs = []*btc.Tx{cb, tx2}
	// the commitment value for this block (the same library functions the check uses; the hash itself is a ghost)
	wm, _ := btc.GetWitnessMerkle(bl.Txs)
	commit := btc.Sha2Sum(append(append([]byte{}, wm...), nonce...))
	hdr := []byte{0x6a, 0x24, 0xaa, 0x21, 0xa9, 0xed}
	nout := 1 + zzverif.Enum("coinbase-outputs-1", 2)
	for i := 0; i < nout; i++ {
		var scr []byte
		switch zzverif.Enum("output-kind", 5) {
		case 0:
			scr = []byte{0x51}
		case 1:
			scr = append(append([]byte{}, hdr...), commit[:]...)
		case 2:
			// an arbitrary hash other than the commitment (equality is kind 1; a model that sets it equal to the ghost digest
			// could not be realised natively)
			other := zzverif.Bytes("other-hash", 32)
			zzverif.Assume(!bytes.Equal(other, commit[:]))
			scr = append(append([]byte{}, hdr...), other...)
		case 3:
			scr = append(append(append([]byte{}, hdr...), commit[:]...), 0x00)
		case 4:
			scr = append(append([]byte{}, hdr...), commit[:31]...)
		}
		cb.TxOut = append(cb.TxOut, &btc.TxOut{Value: 0, Pk_script: scr})
	}
	m, _ := bl.GetMerkle()
	copy(bl.Raw[36:68], m)

	// reference (validation.cpp: GetWitnessCommitmentIndex, CheckWitnessMalleation)
	pos := -1
	for i, o := range cb.TxOut {
		if len(o.Pk_script) >= 38 && bytes.Equal(o.Pk_script[:6], hdr) {
			pos = i
		}
	}
	want := false
	if pos >= 0 {
		want = len(cb.SegWit) == 1 && len(cb.SegWit[0]) == 1 && len(cb.SegWit[0][0]) == 32 &&
			bytes.Equal(cb.TxOut[pos].Pk_script[6:38], commit[:])
	} else {
		want = cb.SegWit == nil && tx2.SegWit == nil
	}
	er := ch.PostCheckBlock(bl)
	zzverif.Assert("C05.witness-commitment", (er == nil) == want)
	if er == nil && pos >= 0 {
		zzverif.Reach("committed")
	}
	if er == nil && pos < 0 {
		zzverif.Reach("no-witness")
	}
}

// C05: coinbase rules of PostCheckBlock / CheckTransactions: exactly the first transaction is a coinbase, its script
// has 2..100 bytes and, from the BIP34 height on, starts with the serialised block height. Two-transaction blocks
// with each transaction coinbase-shaped or not, scripts of 1, 2, 4..5, 100 and 101 bytes, the height push right, one
// above, one below or absent, at a height before and after BIP34 activation. Merkle root matches by construction,
// no witness data.
func H_C05_CoinbaseRules() {
	heights := []uint32{1000, 840000}
	height := heights[zzverif.Enum("height", 2)]
	ch, _, _ := h_chain(1, height-1)
	raw := make([]byte, 81)
	raw[0] = 4
	bl, _ := btc.NewBlock(raw)
	bl.Height = height
	mk := func(name string, id byte) (*btc.Tx, bool) {
		tx := new(btc.Tx)
		tx.Version = 1
		tx.Hash.Hash = h_id(id)
		cb := zzverif.Bool(name + ".coinbase-shaped")
		in := &btc.TxIn{Sequence: 0xffffffff, ScriptSig: []byte{}}
		if cb {
			in.Input.Vout = 0xffffffff
		} else {
			in.Input.Hash = h_id(0xA1)
		}
		tx.TxIn = []*btc.TxIn{in}
		tx.TxOut = []*btc.TxOut{{Value: 0, Pk_script: []byte{0x51}}}
		return tx, cb
	}
	tx0, cb0 := mk("tx0", 0xC0)
	tx1, cb1 := mk("tx1", 0xD1)
	// coinbase script: [height push variant] + padding up to a chosen total length
	pushH := []uint32{height, height + 1, height - 1}[zzverif.Enum("height-push", 3)]
	scr := script.UintToScript(pushH)
	if zzverif.Bool("no-height-push") {
		scr = []byte{}
	}
	total := []int{0, 1, 2, 100, 101}[zzverif.Enum("script-len", 5)]
	for len(scr) < total {
		scr = append(scr, 0x51)
	}
	tx0.TxIn[0].ScriptSig = scr
	if cb1 {
		tx1.TxIn[0].ScriptSig = []byte{0x51, 0x51}
	}
	bl.Txs = []*btc.Tx{tx0, tx1}
	m, _ := bl.GetMerkle()
	copy(bl.Raw[36:68], m)

	want := cb0 && !cb1 && len(scr) >= 2 && len(scr) <= 100
	if height >= ch.Consensus.BIP34Height {
		want = want && bytes.HasPrefix(scr, script.UintToScript(height)) // the encoding itself: H_C05_BIP34Prefix
	}
	er := ch.PostCheckBlock(bl)
	zzverif.Assert("C05.coinbase-rules", (er == nil) == want)
	if er == nil {
		zzverif.Reach("accepted")
	} else {
		zzverif.Reach("refused")
	}
}
