//go:build verif

package chain

import (
	"bytes"
	"crypto/sha256"

	"github.com/piotrnar/gocoin/lib/btc"
	"github.com/piotrnar/gocoin/lib/others/zzverif"
	"github.com/piotrnar/gocoin/lib/script"
)

// ref_bip34_prefix: CScript() << height  (Bitcoin Core: OP_0 / OP_1..OP_16 / minimal script-number push).
func ref_bip34_prefix(h uint32) []byte {
	if h == 0 {
		return []byte{0x00}
	}
	if h <= 16 {
		return []byte{byte(0x50 + h)}
	}
	var num []byte
	v := uint64(h)
	for v != 0 {
		num = append(num, byte(v))
		v >>= 8
	}
	if num[len(num)-1]&0x80 != 0 {
		num = append(num, 0)
	}
	return append([]byte{byte(len(num))}, num...)
}

// C05: the BIP34 coinbase prefix for every uint32 height.
func H_C05_BIP34Prefix() {
	h := zzverif.U32("height")
	zzverif.Assert("C05.bip34.prefix", bytes.Equal(script.UintToScript(h), ref_bip34_prefix(h)))
	if h > 0x7fffff {
		zzverif.Reach("four-or-five-byte-number")
	}
}

// C05: transaction finality (IsFinalTx) for every lock time, cut-offs and sequence numbers.
func H_C05_IsFinal() {
	nin := 1 + zzverif.Enum("nin-1", 3)
	tx := new(btc.Tx)
	tx.Lock_time = zzverif.U32("locktime")
	allFinal := true
	for i := 0; i < nin; i++ {
		s := zzverif.U32("seq")
		tx.TxIn = append(tx.TxIn, &btc.TxIn{Sequence: s})
		allFinal = allFinal && s == 0xffffffff
	}
	height := zzverif.U32("height")
	tm := zzverif.U32("time")
	want := false
	if tx.Lock_time == 0 {
		want = true
	} else {
		cut := int64(tm)
		if tx.Lock_time < 500000000 {
			cut = int64(height)
		}
		if int64(tx.Lock_time) < cut {
			want = true
		} else {
			want = allFinal
		}
	}
	zzverif.Assert("C05.isfinal", tx.IsFinal(height, tm) == want)
	if !want {
		zzverif.Reach("non-final")
	}
}

func ref_dsha(a, b []byte) [32]byte {
	s := sha256.New()
	s.Write(a)
	s.Write(b)
	t := s.Sum(nil)
	s.Reset()
	s.Write(t)
	var out [32]byte
	copy(out[:], s.Sum(nil))
	return out
}

// ref_merkle: ComputeMerkleRoot with the CVE-2012-2459 mutation flag (Bitcoin Core consensus/merkle.cpp).
func ref_merkle(leaves [][32]byte) (root [32]byte, mutated bool) {
	if len(leaves) == 0 {
		return
	}
	level := append([][32]byte{}, leaves...)
	for len(level) > 1 {
		for pos := 0; pos+1 < len(level); pos += 2 {
			if level[pos] == level[pos+1] {
				mutated = true
			}
		}
		if len(level)&1 == 1 {
			level = append(level, level[len(level)-1])
		}
		next := make([][32]byte, 0, len(level)/2)
		for pos := 0; pos < len(level); pos += 2 {
			next = append(next, ref_dsha(level[pos][:], level[pos+1][:]))
		}
		level = next
	}
	return level[0], mutated
}

// C05: Merkle root and duplicate-subtree (mutation) detection over n symbolic leaf hashes.
func H_C05_Merkle() {
	maxN := 5 + 3*zzverif.Tier()
	n := zzverif.Len("leaves", 1, maxN)
	leaves := make([][32]byte, n)
	for i := range leaves {
		copy(leaves[i][:], zzverif.Bytes("leaf", 32))
	}
	in := make([][32]byte, n, 3*n)
	copy(in, leaves)
	got, mut := btc.CalcMerkle(in)
	want, wmut := ref_merkle(leaves)
	zzverif.Assert("C05.merkle.mutation-flag", mut == wmut)
	zzverif.Assert("C05.merkle.root", bytes.Equal(got, want[:]))
	if wmut {
		zzverif.Reach("mutated")
	}
}
