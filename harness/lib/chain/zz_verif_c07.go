//go:build verif

package chain

import (
	"bytes"
	"crypto/sha256"
	"encoding/binary"
	"os"
	"time"

	"github.com/piotrnar/gocoin/lib/btc"
	"github.com/piotrnar/gocoin/lib/others/zzverif"
)

// C07 (the block store): a session on a store that holds two blocks - add a block, maybe flush, maybe mark a block
// trusted or invalid, add another block, maybe flush, Close - that ends cleanly or in a crash before an arbitrary
// file operation; the directory is then opened again. Every block the index lists must be returned byte-identical
// with its height, size and transaction count; the two old blocks and every block whose write had completed are
// still there; the second new block is never listed without the first; a flag whose update had completed is set, a
// flag never asked for is not; and adding the missing blocks again and restarting gives the complete store.
func H_C07_BlockStore() {
	fs := &h16_fs{files: map[string][]byte{}, handles: map[*os.File]*h16_handle{}}
	dir := "/blocks/"
	if zzverif.Symbolic() {
		fs.install()
	}
	// fixed blocks of 81..82 bytes; the first new block ends in two arbitrary bytes
	mk := func(tag byte, tail []byte) *btc.Block {
		h1, h2, h3 := sha256.Sum256([]byte{tag, 0}), sha256.Sum256([]byte{tag, 1}), sha256.Sum256([]byte{tag, 2})
		raw := append(append(append(append([]byte{}, h1[:]...), h2[:]...), h3[:16]...), tail...)
		bl, _ := btc.NewBlock(raw)
		bl.TxCount = int(tag)
		return bl
	}
	A, B, C, D := mk(0xA1, []byte{1, 2}), mk(0xB2, []byte{3}), mk(0xC3, zzverif.Bytes("C.tail", 2)), mk(0xD4, []byte{4})
	height := map[*btc.Block]uint32{A: 100, B: 101, C: 102, D: 103}
	preTrustedA := zzverif.Bool("A.trusted")
	flush1 := zzverif.Bool("flush-after-first-add")
	flagOp := zzverif.Enum("flag-op", 5) // 0 none, 1 trust A, 2 trust C, 3 invalid B, 4 invalid C
	flush2 := zzverif.Bool("flush-after-second-add")
	crashAt := zzverif.Enum("crash-before-file-op", 9+3*zzverif.Tier()) // 0: none
	compress, roll := false, false
	if zzverif.Tier() == 1 {
		// thorough: also with compression on disk (see H_C16_StoreStepCompressed) and with the first write starting a new data file
		compress = zzverif.Bool("compress-on-disk")
		roll = zzverif.Bool("data-file-roll-over")
		if compress && zzverif.Symbolic() {
			h16_install_snappy()
		}
	}
	zzverif.Bound("store session", "two stored blocks of 81..82 bytes (fixed), new blocks C (two arbitrary bytes) and D; add C, optional flush, optional BlockTrusted / BlockInvalid of an old or the new block, add D, optional flush, Close; crash before the k-th create / write, k in 1..8 (thorough 11), or none; uncompressed, one data file (thorough: also compressed on disk, also with the first write starting a new data file)")

	writePre := func() {
		var idx, dat []byte
		for i, bl := range []*btc.Block{A, B} {
			var rec [136]byte
			rec[0] = BLOCK_LENGTH | BLOCK_INDEX
			if i == 0 && preTrustedA {
				rec[0] |= BLOCK_TRUSTED
			}
			binary.LittleEndian.PutUint32(rec[32:36], uint32(len(bl.Raw)))
			binary.LittleEndian.PutUint32(rec[36:40], height[bl])
			binary.LittleEndian.PutUint64(rec[40:48], uint64(len(dat)))
			stored := bl.Raw
			if compress {
				rec[0] |= BLOCK_COMPRSD | BLOCK_SNAPPED
				stored = h16_snappy_literal(bl.Raw)
			}
			binary.LittleEndian.PutUint32(rec[48:52], uint32(len(stored)))
			binary.LittleEndian.PutUint32(rec[52:56], uint32(bl.TxCount))
			copy(rec[56:136], bl.Raw[:80])
			idx = append(idx, rec[:]...)
			dat = append(dat, stored...)
		}
		if zzverif.Symbolic() {
			fs.files = map[string][]byte{dir + "blockchain.new": idx, dir + "blockchain.dat": dat}
		} else {
			os.RemoveAll(dir)
			os.MkdirAll(dir, 0770)
			os.WriteFile(dir+"blockchain.new", idx, 0660)
			os.WriteFile(dir+"blockchain.dat", dat, 0660)
		}
	}
	type listed struct{ height, blen, txs uint32 }
	open := func() (*BlockDB, map[[32]byte]listed) {
		opts := &BlockDBOpts{MaxCachedBlocks: 10, CompressOnDisk: compress}
		if roll {
			opts.MaxDataFileSize = 100 // the existing data file is already larger
		}
		db := NewBlockDBExt(dir, opts)
		got := map[[32]byte]listed{}
		db.LoadBlockIndex(nil, func(ch *Chain, hash, hdr []byte, height, blen, txs uint32) {
			var h [32]byte
			copy(h[:], hash)
			got[h] = listed{height, blen, txs}
		})
		return db, got
	}

	// what the session has completed (done) or at least begun (begun)
	type progress struct{ cFlushed, dFlushed, flagBegun, flagDone, closed bool }
	journal := "" // natively, in the workload child: the scratch directory whose journal records the progress
	run := func() (crashed bool, p progress) {
		mark := func(what string, f *bool) {
			*f = true
			if journal != "" {
				zzverif.Journal(journal, what)
			}
		}
		crashed = zzverif.Panics(func() {
			db, _ := open()
			db.BlockAdd(height[C], C)
			if flush1 {
				db.Idle()
				mark("cFlushed", &p.cFlushed)
			}
			if flagOp != 0 {
				mark("flagBegun", &p.flagBegun)
				switch flagOp {
				case 1:
					db.BlockTrusted(A.Hash.Hash[:])
				case 2:
					db.BlockTrusted(C.Hash.Hash[:])
				case 3:
					db.BlockInvalid(B.Hash.Hash[:])
				case 4:
					db.BlockInvalid(C.Hash.Hash[:])
				}
				mark("flagDone", &p.flagDone)
			}
			db.BlockAdd(height[D], D)
			if flush2 {
				db.Idle()
				mark("cFlushed", &p.cFlushed)
				mark("dFlushed", &p.dFlushed)
			}
			db.Close()
			mark("cFlushed", &p.cFlushed)
			mark("dFlushed", &p.dFlushed)
			mark("closed", &p.closed)
		})
		return
	}
	check := func(crashed bool, p progress, fail func(string)) {
		db, list := open()
		has := func(bl *btc.Block) bool { _, in := list[bl.Hash.Hash]; return in }
		intact := func(bl *btc.Block) bool {
			l := list[bl.Hash.Hash]
			data, _, er := db.BlockGet(bl.Hash)
			return l.height == height[bl] && l.blen == uint32(len(bl.Raw)) && l.txs == uint32(bl.TxCount) && er == nil && bytes.Equal(data, bl.Raw)
		}
		for _, bl := range []*btc.Block{A, B, C, D} {
			if has(bl) && !intact(bl) {
				fail("C07.blocks.listed-block-intact")
				return
			}
		}
		invB, invC := flagOp == 3 && p.flagBegun, flagOp == 4 && p.flagBegun
		if !has(A) || (!has(B) && !invB) || (p.cFlushed && !invC && !has(C)) || (p.dFlushed && !has(D)) {
			fail("C07.blocks.completed-write-kept")
			return
		}
		if (flagOp == 3 && p.flagDone && has(B)) || (flagOp == 4 && p.flagDone && has(C)) {
			fail("C07.blocks.invalid-flag-kept")
			return
		}
		if has(D) && !has(C) && !invC {
			fail("C07.blocks.append-order")
			return
		}
		trusted := func(bl *btc.Block) bool { _, tr, _ := db.BlockGet(bl.Hash); return tr }
		wantA, mayA := preTrustedA || (flagOp == 1 && p.flagDone), preTrustedA || (flagOp == 1 && p.flagBegun)
		if trusted(A) != wantA && trusted(A) != mayA {
			fail("C07.blocks.trusted-flag")
			return
		}
		if has(C) {
			wantC, mayC := flagOp == 2 && p.flagDone, flagOp == 2 && p.flagBegun
			if trusted(C) != wantC && trusted(C) != mayC {
				fail("C07.blocks.trusted-flag")
				return
			}
		}
		if has(B) && trusted(B) || has(D) && trusted(D) {
			fail("C07.blocks.trusted-flag")
			return
		}
		// feeding the remaining blocks, and a clean restart
		want := []*btc.Block{A}
		if !invB {
			want = append(want, B)
		}
		if !invC {
			if !has(C) {
				db.BlockAdd(height[C], C)
			}
			want = append(want, C)
		}
		if !has(D) {
			db.BlockAdd(height[D], D)
		}
		want = append(want, D)
		db.Close()
		fs.handles = map[*os.File]*h16_handle{}
		db, list = open()
		for _, bl := range want {
			if !has(bl) || !intact(bl) {
				fail("C07.blocks.catch-up")
				return
			}
		}
		db.Close()
	}

	if zzverif.Symbolic() {
		writePre()
		fs.ops, fs.crashAt = 0, crashAt
		crashed, p := run()
		if crashed {
			zzverif.Reach("crashed")
		} else {
			zzverif.Assume(crashAt == 0 || fs.ops < crashAt)
			zzverif.Reach("clean-close")
		}
		fs.crashAt = 0
		fs.handles = map[*os.File]*h16_handle{}
		check(crashed, p, func(label string) { zzverif.Assert(label, false) })
		return
	}
	// ---- native: the same session in a child process killed at every file-operation boundary (see zzverif/crash.go)
	if d, ok := zzverif.InCrashChild(); ok {
		dir = d + "/db/"
		writePre()
		journal = d
		zzverif.CrashMark()
		run()
		zzverif.Journal(d, "END")
		os.Exit(0)
	}
	want := zzverif.ReplayLabel()
	var failures []string
	start := time.Now()
	for n := -1; n < 200 && time.Since(start) < 16*time.Second; n++ {
		if n > 0 && n%2 == 1 {
			continue // the state after a call's return is the state at the next call's entry
		}
		d, _ := os.MkdirTemp("", "zzverif_c07_")
		finished := zzverif.RunCrashChild(d, n, zzverif.FileSyscalls)
		var p progress
		p.cFlushed, p.dFlushed, p.closed = zzverif.JournalHas(d, "cFlushed"), zzverif.JournalHas(d, "dFlushed"), zzverif.JournalHas(d, "closed")
		p.flagBegun, p.flagDone = zzverif.JournalHas(d, "flagBegun"), zzverif.JournalHas(d, "flagDone")
		dir = d + "/db/"
		check(!finished, p, func(label string) { failures = append(failures, label) })
		os.RemoveAll(d)
		if finished && n >= 0 || !zzverif.HaveGdb() {
			break
		}
	}
	if len(failures) > 0 {
		label := failures[0]
		for _, f := range failures {
			if f == want {
				label = want
			}
		}
		zzverif.Assert(label, false)
	}
}

// C07 (the block store after a power loss): the index and the data file of a store of three blocks cut to an
// arbitrary prefix each (a case split over the cut points that matter: none, one byte short, inside / at the start of
// the last record or block, inside the second). The store must open, list exactly the complete index records, return
// every listed block byte-identical or refuse it - never other bytes - and stay like that when the next block is
// appended and the store restarted.
func H_C07_BlockStoreTruncated() {
	fs := &h16_fs{files: map[string][]byte{}, handles: map[*os.File]*h16_handle{}}
	dir := "/blocks/"
	if zzverif.Symbolic() {
		fs.install()
	} else {
		tmp, _ := os.MkdirTemp("", "zzverif_c07t_")
		defer os.RemoveAll(tmp)
		dir = tmp + "/"
	}
	mk := func(tag byte, tail []byte) *btc.Block {
		h1, h2, h3 := sha256.Sum256([]byte{tag, 0}), sha256.Sum256([]byte{tag, 1}), sha256.Sum256([]byte{tag, 2})
		raw := append(append(append(append([]byte{}, h1[:]...), h2[:]...), h3[:16]...), tail...)
		bl, _ := btc.NewBlock(raw)
		bl.TxCount = int(tag)
		return bl
	}
	A, B, C, D := mk(0xA1, []byte{1, 2}), mk(0xB2, []byte{3}), mk(0xC3, zzverif.Bytes("C.tail", 2)), mk(0xD4, []byte{4})
	blocks := []*btc.Block{A, B, C}
	height := map[*btc.Block]uint32{A: 100, B: 101, C: 102, D: 103}
	var idx, dat []byte
	end := map[*btc.Block]int{} // where the block's data ends in the data file
	for _, bl := range blocks {
		var rec [136]byte
		rec[0] = BLOCK_LENGTH | BLOCK_INDEX
		binary.LittleEndian.PutUint32(rec[32:36], uint32(len(bl.Raw)))
		binary.LittleEndian.PutUint32(rec[36:40], height[bl])
		binary.LittleEndian.PutUint64(rec[40:48], uint64(len(dat)))
		binary.LittleEndian.PutUint32(rec[48:52], uint32(len(bl.Raw)))
		binary.LittleEndian.PutUint32(rec[52:56], uint32(bl.TxCount))
		copy(rec[56:136], bl.Raw[:80])
		idx = append(idx, rec[:]...)
		dat = append(dat, bl.Raw...)
		end[bl] = len(dat)
	}
	idxCut := []int{408, 407, 300, 273, 272, 136, 0}[zzverif.Enum("index-cut", 7)]
	datCut := []int{len(dat), len(dat) - 1, end[B] + 1, end[B], end[A] + 5}[zzverif.Enum("data-cut", 5)]
	zzverif.Bound("truncation", "three stored blocks of 81..82 bytes; index cut to 408 / 407 / 300 / 273 / 272 / 136 / 0 bytes, data file cut to its full length, one byte less, one byte into / at the start of the third block, five bytes into the second; then one block appended and a restart")
	if zzverif.Symbolic() {
		fs.files[dir+"blockchain.new"] = idx[:idxCut]
		fs.files[dir+"blockchain.dat"] = dat[:datCut]
	} else {
		os.WriteFile(dir+"blockchain.new", idx[:idxCut], 0660)
		os.WriteFile(dir+"blockchain.dat", dat[:datCut], 0660)
	}
	type listed struct{ height, blen, txs uint32 }
	open := func() (*BlockDB, map[[32]byte]listed) {
		db := NewBlockDBExt(dir, &BlockDBOpts{MaxCachedBlocks: 10})
		got := map[[32]byte]listed{}
		db.LoadBlockIndex(nil, func(ch *Chain, hash, hdr []byte, height, blen, txs uint32) {
			var h [32]byte
			copy(h[:], hash)
			got[h] = listed{height, blen, txs}
		})
		return db, got
	}
	db, list := open()
	zzverif.Assert("C07.trunc.lists-complete-records", len(list) == idxCut/136)
	// a block whose data lies beyond the end of the data file: the harness marks the region of the known finding
	lost := false
	for i, bl := range blocks {
		if i < idxCut/136 && end[bl] > datCut {
			lost = true
		}
	}
	look := func(stage string) {
		for i, bl := range blocks {
			_, in := list[bl.Hash.Hash]
			zzverif.Assert("C07.trunc.lists-prefix", in == (i < idxCut/136))
			if !in {
				continue
			}
			data, _, er := db.BlockGet(bl.Hash)
			if end[bl] <= datCut {
				zzverif.Assert("C07.trunc."+stage+".intact", er == nil && bytes.Equal(data, bl.Raw))
			} else {
				// known finding: once the next block has been appended past the hole, the gap is returned as the block
				zzverif.Known("C07-index-beyond-data-file", lost && stage == "after-append")
				zzverif.Assert("C07.trunc."+stage+".no-wrong-data", er != nil || bytes.Equal(data, bl.Raw))
				zzverif.Known("C07-index-beyond-data-file", false)
			}
		}
	}
	look("open")
	db.BlockAdd(height[D], D)
	db.Close()
	fs.handles = map[*os.File]*h16_handle{}
	db, list = open()
	l, in := list[D.Hash.Hash]
	data, _, er := db.BlockGet(D.Hash)
	zzverif.Assert("C07.trunc.append-intact", in && l.height == 103 && er == nil && bytes.Equal(data, D.Raw))
	look("after-append")
	zzverif.Reach("restarted")
}
