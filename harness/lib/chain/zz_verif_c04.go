//go:build verif

package chain

import (
	"bytes"
	"github.com/piotrnar/gocoin/lib/btc"
	"github.com/piotrnar/gocoin/lib/others/zzverif"
	"github.com/piotrnar/gocoin/lib/script"
	"github.com/piotrnar/gocoin/lib/utxo"
)

const h_max_money = 21000000 * 100000000

// a declared entry of the symbolic UTXO pre-state
type h_utxo_entry struct {
	id       [32]byte
	exists   bool
	coinbase bool
	height   uint32
	unspent  [2]bool
	value    [2]uint64
}

func h_id(b byte) (id [32]byte) {
	for i := range id {
		id[i] = b
	}
	return
}

// C04: connecting a block of coinbase + 1 transaction on a symbolic UTXO pre-state.
func H_C04_CommitTxs() {
	zzverif.Bound("block shape", "coinbase + 1 transaction of 1..2 inputs and 1..2 outputs; inputs choose among two pre-state txids, the block's own coinbase and the transaction itself; vout in 0..2; six heights at subsidy-era boundaries")
	// the block height is case-split over subsidy-era boundaries (the subsidy schedule itself is decided for every
	// height by H_C04_Subsidy); everything else that depends on it (maturity) stays symbolic through the pre-state heights
	heights := []uint32{1000, 209999, 210000, 840000, 6929999, 6930000}
	h_c04_commit(1, 2, 2, heights)
}

// C04: order of transactions inside a block: two transactions, every in-block reference (earlier, self, later)
// available to both. Quick: one input and one output each; thorough: 1..2 inputs.
func H_C04_InBlockOrder() {
	zzverif.Bound("block shape", "coinbase + 2 transactions, each 1 (thorough 1..2) inputs and 1 output; inputs choose among two pre-state txids, the block's own coinbase and both transactions of the block; vout in 0..2; one height")
	h_c04_commit(2, 1+zzverif.Tier(), 1, []uint32{840000})
}

func h_c04_commit(ntx, maxin, maxout int, heights []uint32) {
	zzverif.IntMode() // value sums are compared as mathematical integers (associativity of 64-bit adder chains stalls bit-blasting)
	height := heights[zzverif.Enum("height", len(heights))]

	// ---- symbolic pre-state (representation invariant: confirmed below this block, values in range)
	pre := []*h_utxo_entry{{id: h_id(0xA1)}, {id: h_id(0xB2)}}
	for _, e := range pre {
		e.exists = zzverif.Bool("utxo.exists")
		e.coinbase = zzverif.Bool("utxo.coinbase")
		e.height = zzverif.U32("utxo.height")
		zzverif.Assume(e.height < height)
		for v := 0; v < 2; v++ {
			e.unspent[v] = zzverif.Bool("utxo.unspent")
			e.value[v] = zzverif.U64("utxo.value")
			zzverif.Assume(e.value[v] <= h_max_money)
		}
	}
	lookup := func(po *btc.TxPrevOut) *btc.TxOut {
		for _, e := range pre {
			if e.id == po.Hash {
				if !e.exists || po.Vout >= 2 || !e.unspent[po.Vout] {
					return nil
				}
				return &btc.TxOut{Value: e.value[po.Vout], BlockHeight: e.height, VoutCount: 2, WasCoinbase: e.coinbase, Pk_script: []byte{0x51}}
			}
		}
		return nil
	}
	ch := new(Chain)
	ch.Unspent = new(utxo.UnspentDB)
	ch.Unspent.UnwindBufLen = 2560
	if zzverif.Symbolic() {
		zzverif.Replace("(*utxo.UnspentDB).UnspentGet", func(db *utxo.UnspentDB, po *btc.TxPrevOut) *btc.TxOut { return lookup(po) })
	} else {
		// native replay: the same pre-state as real serialized records
		for _, e := range pre {
			if !e.exists {
				continue
			}
			rec := &utxo.UtxoRec{TxID: e.id, Coinbase: e.coinbase, InBlock: e.height, Outs: make([]*utxo.UtxoTxOut, 2)}
			any := false
			for v := 0; v < 2; v++ {
				if e.unspent[v] {
					rec.Outs[v] = &utxo.UtxoTxOut{Value: e.value[v], PKScr: []byte{0x51}}
					any = true
				}
			}
			if any {
				var k utxo.UtxoKeyType
				copy(k[:], e.id[:])
				ch.Unspent.HashMap[k[0]] = map[utxo.UtxoKeyType]*[]byte{k: utxo.SerializeU(rec, nil)}
			}
		}
	}
	// script verdicts are arbitrary
	var verdicts []bool
	script.HookVerifyTxScript = func(pk []byte, c *script.SigChecker, flags uint32) bool {
		v := zzverif.Bool("script.ok")
		verdicts = append(verdicts, v)
		return v
	}
	defer func() { script.HookVerifyTxScript = nil }()

	// ---- the block
	bl := new(btc.Block)
	bl.Height = height
	bl.VerifyFlags = 0
	cb := new(btc.Tx)
	cb.Hash.Hash = h_id(0xC0)
	cb.TxIn = []*btc.TxIn{{Input: btc.TxPrevOut{Vout: 0xffffffff}, ScriptSig: []byte{1, 1}}}
	cb.TxOut = []*btc.TxOut{{Value: zzverif.U64("coinbase.value"), Pk_script: []byte{0x51}, WasCoinbase: true}}
	bl.Txs = []*btc.Tx{cb}
	txids := [][32]byte{h_id(0xD1), h_id(0xD2)}
	type spend struct {
		id   [32]byte
		vout uint32
	}
	var spends []spend
	for t := 0; t < ntx; t++ {
		tx := new(btc.Tx)
		tx.Hash.Hash = txids[t]
		tx.Version = 1
		nin := 1 + zzverif.Enum("nin-1", maxin)
		for j := 0; j < nin; j++ {
			// candidates: the two pre-state txids, the block's own coinbase, and every transaction of the block
			// (an earlier one is legitimate; the transaction itself or a later one must be refused)
			cands := [][32]byte{pre[0].id, pre[1].id, cb.Hash.Hash, txids[0]}
			if ntx > 1 {
				cands = append(cands, txids[1])
			}
			id := cands[zzverif.Enum("prev", len(cands))]
			vout := uint32(zzverif.Enum("vout", 3))
			tx.TxIn = append(tx.TxIn, &btc.TxIn{Input: btc.TxPrevOut{Hash: id, Vout: vout}, ScriptSig: []byte{}})
			spends = append(spends, spend{id, vout})
		}
		nout := 1 + zzverif.Enum("nout-1", maxout)
		for j := 0; j < nout; j++ {
			tx.TxOut = append(tx.TxOut, &btc.TxOut{Value: zzverif.U64("out.value"), Pk_script: []byte{0x51}})
		}
		bl.Txs = append(bl.Txs, tx)
		bl.TotalInputs += nin
	}
	// the context-free per-transaction rules run before a block is connected (PostCheckBlock -> CheckTransactions)
	for _, tx := range bl.Txs {
		if tx.CheckTransaction() != nil {
			zzverif.Reach("refused-by-CheckTransaction")
			return
		}
	}
	changes, _, e := ch.ProcessBlockTransactions(bl, height, height)
	if e != nil {
		zzverif.Reach("refused")
		return
	}
	zzverif.Reach("connected")

	// ---- the change set handed to the UTXO database is exactly what the block spends and creates
	for _, pe := range pre {
		var mask [2]bool
		any := false
		for _, s := range spends {
			if s.id == pe.id && s.vout < 2 {
				mask[s.vout], any = true, true
			}
		}
		dm, has := changes.DeledTxs[pe.id]
		zzverif.Assert("C04.changes.deleted-keys", has == any)
		ur := changes.UndoData[pe.id]
		zzverif.Assert("C04.changes.undo-keys", (ur != nil) == any)
		if any && has && ur != nil {
			zzverif.Assert("C04.changes.deleted-mask", len(dm) == 2 && dm[0] == mask[0] && dm[1] == mask[1])
			zzverif.Assert("C04.changes.undo-meta", ur.TxID == pe.id && ur.Coinbase == pe.coinbase && ur.InBlock == pe.height && len(ur.Outs) == 2)
			for v := 0; v < 2; v++ {
				if mask[v] {
					zzverif.Assert("C04.changes.undo-output", ur.Outs[v] != nil && ur.Outs[v].Value == pe.value[v])
				} else {
					zzverif.Assert("C04.changes.undo-untouched", ur.Outs[v] == nil)
				}
			}
		}
	}
	zzverif.Assert("C04.changes.no-other-deletions", len(changes.DeledTxs) <= len(pre) && len(changes.UndoData) <= len(pre))
	for ti, tx := range bl.Txs {
		var rec *utxo.UtxoRec
		for _, r := range changes.AddList {
			if r.TxID == tx.Hash.Hash {
				zzverif.Assert("C04.changes.added-once", rec == nil)
				rec = r
			}
		}
		unspent := 0
		for vo := range tx.TxOut {
			spentInBlock := false
			for _, s := range spends {
				if s.id == tx.Hash.Hash && int(s.vout) == vo {
					spentInBlock = true
				}
			}
			if !spentInBlock {
				unspent++
				zzverif.Assert("C04.changes.added-output", rec != nil && len(rec.Outs) == len(tx.TxOut) && rec.Outs[vo] != nil && rec.Outs[vo].Value == tx.TxOut[vo].Value)
			} else {
				zzverif.Assert("C04.changes.spent-in-block-not-added", rec == nil || rec.Outs[vo] == nil)
			}
		}
		zzverif.Assert("C04.changes.added-record", (rec != nil) == (unspent > 0))
		if rec != nil {
			zzverif.Assert("C04.changes.added-meta", rec.Coinbase == (ti == 0) && rec.InBlock == height)
		}
	}
	zzverif.Assert("C04.changes.no-other-additions", len(changes.AddList) <= len(bl.Txs))

	// ---- what must hold for a connected block
	for _, v := range verdicts {
		zzverif.Assert("C04.scripts-verified", v)
	}
	zzverif.Assert("C04.scripts-all-run", len(verdicts) == len(spends))
	for i, s := range spends {
		for k := 0; k < i; k++ {
			zzverif.Assert("C04.no-double-spend", !(spends[k].id == s.id && spends[k].vout == s.vout))
		}
		zzverif.Assert("C04.no-own-coinbase-spend", s.id != cb.Hash.Hash)
	}
	var fees uint64
	si := 0
	for t := 1; t < len(bl.Txs); t++ {
		tx := bl.Txs[t]
		var in, out uint64
		for range tx.TxIn {
			s := spends[si]
			si++
			var val uint64
			found := false
			for _, e := range pre {
				if e.id == s.id {
					zzverif.Assert("C04.input-exists-unspent", e.exists && s.vout < 2 && e.unspent[s.vout])
					zzverif.Assert("C04.coinbase-maturity", !e.coinbase || height-e.height >= 100)
					val, found = e.value[s.vout], true
				}
			}
			if !found && (s.id == txids[0] || s.id == txids[1]) {
				zzverif.Assert("C04.input-created-earlier-in-block", t == 2 && s.id == txids[0] && int(s.vout) < len(bl.Txs[1].TxOut))
				val, found = bl.Txs[1].TxOut[s.vout].Value, true
			}
			zzverif.Assert("C04.input-resolves", found)
			in += val // no wrap: every input value <= MAX_MONEY (asserted/assumed), at most two inputs
		}
		for _, o := range tx.TxOut {
			zzverif.Assert("C04.output-value-range", o.Value <= h_max_money)
			out += o.Value
		}
		zzverif.Assert("C04.output-total-range", out <= h_max_money)
		zzverif.Assert("C04.inputs-cover-outputs", in >= out)
		fees += in - out
	}
	zzverif.Assert("C04.coinbase-value-range", cb.TxOut[0].Value <= h_max_money)
	zzverif.Assert("C04.coinbase-claim", cb.TxOut[0].Value <= btc.GetBlockReward(height)+fees)
}

// C04: block subsidy schedule.
func H_C04_Subsidy() {
	h := zzverif.U32("height")
	want := uint64(0)
	halvings := h / 210000
	if halvings < 64 {
		want = uint64(50*100000000) >> halvings
	}
	zzverif.Assert("C04.subsidy", btc.GetBlockReward(h) == want)
	if halvings >= 33 {
		zzverif.Reach("zero-subsidy")
	}
}

// C04: relative lock-times (BIP68). One version-1/2 transaction spending one confirmed, mature output with an
// arbitrary sequence number, CSV active: a connected block must satisfy the height-based relative lock
// (the time-based variant needs the median-time-past of the output's block and is outside this harness).
func H_C04_BIP68() {
	zzverif.IntMode()
	const height = 840000
	zzverif.Bound("block shape", "coinbase + 1 transaction with 1 input (confirmed, non-coinbase output at an arbitrary earlier height) and 1 output; height 840000 (CSV active); height-based locks only")
	cheight := zzverif.U32("utxo.height")
	zzverif.Assume(cheight < height)
	cval := zzverif.Range64("utxo.value", h_max_money)
	pid := h_id(0xA1)
	ch := new(Chain)
	ch.Unspent = new(utxo.UnspentDB)
	ch.Unspent.UnwindBufLen = 2560
	if zzverif.Symbolic() {
		zzverif.Replace("(*utxo.UnspentDB).UnspentGet", func(db *utxo.UnspentDB, po *btc.TxPrevOut) *btc.TxOut {
			if po.Hash != pid || po.Vout != 0 {
				return nil
			}
			return &btc.TxOut{Value: cval, BlockHeight: cheight, VoutCount: 1, Pk_script: []byte{0x51}}
		})
	} else {
		rec := &utxo.UtxoRec{TxID: pid, InBlock: cheight, Outs: []*utxo.UtxoTxOut{{Value: cval, PKScr: []byte{0x51}}}}
		var k utxo.UtxoKeyType
		copy(k[:], pid[:])
		ch.Unspent.HashMap[k[0]] = map[utxo.UtxoKeyType]*[]byte{k: utxo.SerializeU(rec, nil)}
	}
	script.HookVerifyTxScript = func(pk []byte, c *script.SigChecker, flags uint32) bool { return true }
	defer func() { script.HookVerifyTxScript = nil }()

	bl := new(btc.Block)
	bl.Height = height
	bl.VerifyFlags = script.VER_CSV | script.VER_CLTV | script.VER_P2SH
	cb := new(btc.Tx)
	cb.Hash.Hash = h_id(0xC0)
	cb.TxIn = []*btc.TxIn{{Input: btc.TxPrevOut{Vout: 0xffffffff}, ScriptSig: []byte{1, 1}}}
	cb.TxOut = []*btc.TxOut{{Value: 0, Pk_script: []byte{0x51}, WasCoinbase: true}}
	tx := new(btc.Tx)
	tx.Hash.Hash = h_id(0xD1)
	tx.Version = 1 + uint32(zzverif.Enum("version-1", 2))
	seq := zzverif.U32("sequence")
	tx.TxIn = []*btc.TxIn{{Input: btc.TxPrevOut{Hash: pid, Vout: 0}, ScriptSig: []byte{}, Sequence: seq}}
	tx.TxOut = []*btc.TxOut{{Value: 0, Pk_script: []byte{0x51}}}
	bl.Txs = []*btc.Tx{cb, tx}
	bl.TotalInputs = 1
	for _, t := range bl.Txs {
		if t.CheckTransaction() != nil {
			return
		}
	}
	locked := tx.Version >= 2 && seq&(1<<31) == 0
	zzverif.Known("C04-bip68-not-enforced", locked)
	if _, _, e := ch.ProcessBlockTransactions(bl, height, height); e != nil {
		return
	}
	zzverif.Reach("connected")
	if locked && seq&(1<<22) == 0 {
		// BIP68: the input may be included in a block of height > coinHeight + lock - 1
		zzverif.Assert("C04.bip68.height-lock", uint64(cheight)+uint64(seq&0xffff) <= height)
	}
}

// C04: the block signature-operation cost limit. The per-script counters are replaced by arbitrary values per script
// (they are decided against Core's by H_C04_SigOpCount*); every script of the block has its own tag byte, so the
// expected cost is computed from the block, not from the calls made: a connected block has
// 4*legacy(all scriptSigs and output scripts of all transactions, coinbase included) + 4*P2SH + witness <= 80000,
// and a block refused for no other reason exceeds it.
func H_C04_SigOpLimit() {
	zzverif.IntMode()
	const height = 840000
	zzverif.Bound("block shape", "coinbase + 1 transaction with 1 input (confirmed P2SH output, push-only scriptSig) and 1 output; counters arbitrary in 0..30000 per script")
	zzverif.Stub("btc.GetSigOpCount, btc.GetP2SHSigOpCount return arbitrary counts that depend on the script only (natively: scripts of that many OP_CHECKSIG); no witness sigops")
	pid := h_id(0xA1)
	p2sh := append(append([]byte{0xa9, 0x14}, make([]byte, 20)...), 0x87)
	ch := new(Chain)
	ch.Unspent = new(utxo.UnspentDB)
	ch.Unspent.UnwindBufLen = 2560
	// one arbitrary legacy count per script: coinbase scriptSig, coinbase output, the transaction's output; the
	// transaction's scriptSig is push-only (legacy count 0) and carries the redeem script with its own count
	cbSig, cbOut, txOut := zzverif.Range64("legacy-count", 99), zzverif.Range64("legacy-count", 30001), zzverif.Range64("legacy-count", 30001) // a coinbase script has 2..100 bytes
	p2shCount := zzverif.Range64("p2sh-count", 30001)
	scripts := [][]byte{{1, 0}, {0x51, 1}, {1, 2}, {0x51, 3}} // cb scriptSig, cb output, tx scriptSig, tx output (told apart by the 2nd byte)
	if zzverif.Symbolic() {
		zzverif.Replace("(*utxo.UnspentDB).UnspentGet", func(db *utxo.UnspentDB, po *btc.TxPrevOut) *btc.TxOut {
			if po.Hash != pid || po.Vout != 0 {
				return nil
			}
			return &btc.TxOut{Value: 1000, BlockHeight: 1000, VoutCount: 1, Pk_script: p2sh}
		})
		legacyOf := []uint64{cbSig, cbOut, 0, txOut}
		zzverif.Replace("btc.GetSigOpCount", func(scr []byte, acc bool) uint { return uint(legacyOf[scr[1]&3]) })
		zzverif.Replace("btc.GetP2SHSigOpCount", func(scr []byte) uint { return uint(p2shCount) })
	} else {
		// native realiser: scripts with that many OP_CHECKSIG
		sigops := func(n uint64) []byte { return bytes.Repeat([]byte{0xac}, int(n)) }
		scripts[0], scripts[1], scripts[3] = append([]byte{0x51, 0x51}, sigops(cbSig)...), sigops(cbOut), sigops(txOut)
		redeem := sigops(p2shCount)
		switch {
		case len(redeem) == 0:
			scripts[2] = []byte{0x00}
		case len(redeem) < 76:
			scripts[2] = append([]byte{byte(len(redeem))}, redeem...)
		case len(redeem) < 256:
			scripts[2] = append([]byte{0x4c, byte(len(redeem))}, redeem...)
		default:
			scripts[2] = append([]byte{0x4d, byte(len(redeem)), byte(len(redeem) >> 8)}, redeem...)
		}
		rec := &utxo.UtxoRec{TxID: pid, InBlock: 1000, Outs: []*utxo.UtxoTxOut{{Value: 1000, PKScr: p2sh}}}
		var k utxo.UtxoKeyType
		copy(k[:], pid[:])
		ch.Unspent.HashMap[k[0]] = map[utxo.UtxoKeyType]*[]byte{k: utxo.SerializeU(rec, nil)}
	}
	script.HookVerifyTxScript = func(pk []byte, c *script.SigChecker, flags uint32) bool { return true }
	defer func() { script.HookVerifyTxScript = nil }()
	bl := new(btc.Block)
	bl.Height = height
	bl.VerifyFlags = script.VER_P2SH | script.VER_WITNESS
	cb := new(btc.Tx)
	cb.Hash.Hash = h_id(0xC0)
	cb.TxIn = []*btc.TxIn{{Input: btc.TxPrevOut{Vout: 0xffffffff}, ScriptSig: scripts[0]}}
	cb.TxOut = []*btc.TxOut{{Value: 0, Pk_script: scripts[1], WasCoinbase: true}}
	tx := new(btc.Tx)
	tx.Hash.Hash = h_id(0xD1)
	tx.Version = 1
	tx.TxIn = []*btc.TxIn{{Input: btc.TxPrevOut{Hash: pid, Vout: 0}, ScriptSig: scripts[2], Sequence: 0xffffffff}}
	tx.TxOut = []*btc.TxOut{{Value: 0, Pk_script: scripts[3]}}
	bl.Txs = []*btc.Tx{cb, tx}
	bl.TotalInputs = 1
	_, cost, e := ch.ProcessBlockTransactions(bl, height, height)
	total := 4*(cbSig+cbOut+txOut) + 4*p2shCount
	if e != nil {
		zzverif.Reach("refused")
		zzverif.Assert("C04.sigops.refused-only-above-limit", total > 80000)
		return
	}
	zzverif.Reach("connected")
	zzverif.Assert("C04.sigops.limit", total <= 80000)
	zzverif.Assert("C04.sigops.cost-reported", uint64(cost) == total)
}
