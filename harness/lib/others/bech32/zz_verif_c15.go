//go:build verif

package bech32

import (
	"bytes"

	"github.com/piotrnar/gocoin/lib/others/zzverif"
)

func h_lower(s string) string {
	b := []byte(s)
	for i := range b {
		// branch-free: upper-case ASCII letters get bit 5 set
		up := b[i] >= 'A' && b[i] <= 'Z'
		b[i] = zzverif.Ite8(up, b[i]|0x20, b[i])
	}
	return string(b)
}

// h_mixed_case: the string holds both an upper-case and a lower-case ASCII letter (branch-free)
func h_mixed_case(s string) bool {
	var anyUp, anyLow byte
	for i := 0; i < len(s); i++ {
		up := s[i] >= 'A' && s[i] <= 'Z'
		low := s[i] >= 'a' && s[i] <= 'z'
		anyUp |= zzverif.Ite8(up, 1, 0)
		anyLow |= zzverif.Ite8(low, 1, 0)
	}
	return anyUp&anyLow != 0
}

// C15: encode -> decode is the identity for every witness version, legal program length and program.
func H_C15_SegwitEncDec() {
	ver := zzverif.Enum("ver", 17)
	var plen int
	if ver == 0 {
		plen = 20 + 12*zzverif.Enum("v0len", 2)
	} else if zzverif.Tier() == 0 {
		// quick: boundary and common lengths
		lens := []int{2, 3, 5, 20, 32, 39, 40}
		plen = lens[zzverif.Enum("plen", len(lens))]
	} else {
		plen = zzverif.Len("plen", 2, 40)
	}
	hrp := "bc"
	if zzverif.Enum("testnet", 2) == 1 {
		hrp = "tb"
	}
	prog := zzverif.Bytes("prog", plen)
	s := SegwitEncode(hrp, ver, prog)
	zzverif.Assert("C15.segwit.encodes", s != "")
	zzverif.Reach("encoded")
	v2, p2, er := SegwitDecode(hrp, s)
	zzverif.Assert("C15.segwit.decodes", er == nil)
	zzverif.Assert("C15.segwit.roundtrip", v2 == ver && bytes.Equal(p2, prog))
}

// C15: illegal destinations are not encodable.
func H_C15_SegwitEncodeRefuses() {
	ver := zzverif.Enum("ver", 19) // 17, 18 are illegal
	plen := zzverif.Len("plen", 0, 42)
	prog := zzverif.Bytes("prog", plen)
	s := SegwitEncode("bc", ver, prog)
	legal := ver <= 16 && plen >= 2 && plen <= 40 && (ver != 0 || plen == 20 || plen == 32)
	zzverif.Assert("C15.segwit.encode-legal-iff", (s != "") == legal)
	if s == "" {
		zzverif.Reach("refused")
	}
}

// C15: decode -> encode. Every string of L characters (all symbolic): if it is accepted as a segwit
// address for hrp "bc", re-encoding what was decoded gives the lower-cased input, and the result obeys
// the BIP173/BIP350 rules (version range, program length, checksum variant).
func h_c15_decenc(L int) {
	// the two hrp characters are case-split concretely (bc, BC, Bc, bC); H_C15_SegwitHrp shows that no
	// other prefix is accepted. Everything after them is symbolic.
	prefixes := []string{"bc", "BC", "Bc", "bC"}
	s := prefixes[zzverif.Enum("prefix", 4)] + string(zzverif.Bytes("s", L-2))
	ver, prog, er := SegwitDecode("bc", s)
	if er != nil {
		zzverif.Reach("refused")
		zzverif.Assert("C15.segwit.refusal-clean", prog == nil && ver == 0)
		return
	}
	zzverif.Reach("accepted")
	zzverif.Assert("C15.segwit.rules", ver >= 0 && ver <= 16 && len(prog) >= 2 && len(prog) <= 40 && (ver != 0 || len(prog) == 20 || len(prog) == 32))
	// BIP173: "Decoders MUST NOT accept strings where some characters are uppercase and some are lowercase" -
	// the human-readable part included (prefixes Bc / bC, or BC / bc with a data part in the other case)
	zzverif.Assert("C15.segwit.no-mixed-case", !h_mixed_case(s))
	re := SegwitEncode("bc", ver, prog)
	zzverif.Assert("C15.segwit.reencode", re == h_lower(s))
}

// C15: whatever the string, acceptance for hrp "bc" implies that it starts with b/B c/C and '1'.
func H_C15_SegwitHrp() {
	L := zzverif.Len("L", 8, 20)
	s := string(zzverif.Bytes("s", L))
	_, prog, er := SegwitDecode("bc", s)
	if er != nil {
		zzverif.Reach("refused")
		return
	}
	zzverif.Assert("C15.segwit.hrp", prog != nil && (s[0] == 'b' || s[0] == 'B') && (s[1] == 'c' || s[1] == 'C') && s[2] == '1')
}

func H_C15_SegwitDecEnc() {
	var L int
	if zzverif.Tier() == 0 {
		lens := []int{13, 14, 15, 16, 17, 18, 19, 20, 21, 22, 23, 24, 25, 26}
		L = lens[zzverif.Enum("Lidx", len(lens))]
	} else {
		L = zzverif.Len("L", 8, 36) // beyond 36 characters the re-encoding queries time out (unknown) on a loaded machine
	}
	zzverif.Bound("address string", "every string of L characters, L in the tier's range; hrp fixed to bc")
	h_c15_decenc(L)
}


// C15: witness version 0 admits only 20- and 32-byte programs, at the string lengths where that matters: every
// string "bc1q" + 38 / 40 / 42 further characters (programs of 20, 21 and 22 bytes once the checksum holds): accepted
// only with a 20-byte program. (The re-encoding identity at these lengths belongs to the thorough tier.)
func H_C15_SegwitV0Length() {
	lens := []int{42, 44, 46}
	L := lens[zzverif.Enum("Lidx", len(lens))]
	s := "bc1q" + string(zzverif.Bytes("s", L-4))
	ver, prog, er := SegwitDecode("bc", s)
	if er != nil {
		zzverif.Reach("refused")
		return
	}
	zzverif.Reach("accepted")
	zzverif.Assert("C15.segwit.rules", ver == 0 && (len(prog) == 20 || len(prog) == 32))
}
