//go:build verif

package qdb

import (
	"bytes"
	"io"
	"os"
	"sort"
	"strings"
	"time"

	"github.com/piotrnar/gocoin/lib/others/zzverif"
)

// ---- a ghost file system (engine only): files are byte strings, every mutating operation is a possible crash point

type h_crash struct{}
type h_exit struct{ code int }

type h_handle struct {
	name string
	pos  int
}

type h_fs struct {
	files   map[string][]byte
	handles map[*os.File]*h_handle
	ops     int // mutating operations performed so far
	crashAt int // crash (panic h_crash) instead of performing this mutating operation; 0 = never
}

type h_fileinfo struct{ name string }

func (f h_fileinfo) Name() string       { return f.name }
func (f h_fileinfo) Size() int64        { return 0 }
func (f h_fileinfo) Mode() os.FileMode  { return 0 }
func (f h_fileinfo) ModTime() time.Time { return time.Time{} }
func (f h_fileinfo) IsDir() bool        { return false }
func (f h_fileinfo) Sys() interface{}   { return nil }

func (fs *h_fs) tick() {
	fs.ops++
	if fs.ops == fs.crashAt {
		panic(h_crash{})
	}
}

func (fs *h_fs) open(name string) (*os.File, error) {
	if _, ok := fs.files[name]; !ok {
		return nil, os.ErrNotExist
	}
	f := new(os.File)
	fs.handles[f] = &h_handle{name: name}
	return f, nil
}

func (fs *h_fs) install() {
	zzverif.Stub("os / filepath / ioutil file functions: an in-memory file map; every create / write / remove is a possible crash point")
	zzverif.Replace("os.MkdirAll", func(name string, perm os.FileMode) error { return nil })
	zzverif.Replace("os.Exit", func(code int) { panic(h_exit{code}) }) // the store gives up ("file not found", "database corrupt")
	zzverif.Replace("os.Create", func(name string) (*os.File, error) {
		fs.tick()
		fs.files[name] = []byte{}
		return fs.open(name)
	})
	zzverif.Replace("os.Open", func(name string) (*os.File, error) { return fs.open(name) })
	zzverif.Replace("os.OpenFile", func(name string, flag int, perm os.FileMode) (*os.File, error) { return fs.open(name) })
	zzverif.Replace("os.Remove", func(name string) error {
		if _, ok := fs.files[name]; !ok {
			return os.ErrNotExist
		}
		fs.tick()
		delete(fs.files, name)
		return nil
	})
	zzverif.Replace("(*os.File).Write", func(f *os.File, b []byte) (int, error) {
		h := fs.handles[f]
		fs.tick()
		d := fs.files[h.name]
		for len(d) < h.pos+len(b) {
			d = append(d, 0)
		}
		copy(d[h.pos:], b)
		fs.files[h.name] = d
		h.pos += len(b)
		return len(b), nil
	})
	zzverif.Replace("(*os.File).Read", func(f *os.File, b []byte) (int, error) {
		h := fs.handles[f]
		d := fs.files[h.name]
		if h.pos >= len(d) {
			if len(b) == 0 {
				return 0, nil
			}
			return 0, io.EOF
		}
		n := copy(b, d[h.pos:])
		h.pos += n
		return n, nil
	})
	zzverif.Replace("(*os.File).Seek", func(f *os.File, off int64, whence int) (int64, error) {
		h := fs.handles[f]
		switch whence {
		case 0:
			h.pos = int(off)
		case 1:
			h.pos += int(off)
		case 2:
			h.pos = len(fs.files[h.name]) + int(off)
		}
		return int64(h.pos), nil
	})
	zzverif.Replace("(*os.File).Close", func(f *os.File) error { return nil })
	zzverif.Replace("(*os.File).Sync", func(f *os.File) error { return nil })
	zzverif.Replace("io/ioutil.ReadFile", func(name string) ([]byte, error) {
		d, ok := fs.files[name]
		if !ok {
			return nil, os.ErrNotExist
		}
		return append([]byte{}, d...), nil
	})
	zzverif.Replace("path/filepath.Walk", func(root string, fn func(string, os.FileInfo, error) error) error {
		var names []string
		for n := range fs.files {
			if strings.HasPrefix(n, root) {
				names = append(names, n)
			}
		}
		sort.Strings(names)
		for _, n := range names {
			fn(n, h_fileinfo{name: n[len(root):]}, nil)
		}
		return nil
	})
}

// ---- the reference: an in-memory map, plus for every key the value at the last completed sync and everything
// written since (what a reopen after a crash may show)

type h_state struct {
	present bool
	val     []byte
}

func h_same_state(a, b h_state) bool {
	return a.present == b.present && (!a.present || bytes.Equal(a.val, b.val))
}

type h_op struct {
	kind int // 0 Put, 1 Del, 2 Sync, 3 Defrag(force), 4 Close+reopen
	key  KeyType
	val  []byte
}

// h_model tracks the in-memory map, the state at the last completed sync and everything written since
type h_model struct {
	cur, durable map[KeyType]h_state
	later        map[KeyType][]h_state
	syncEach     bool
}

func h_new_model(syncEach bool) *h_model {
	return &h_model{cur: map[KeyType]h_state{1: {}, 2: {}}, durable: map[KeyType]h_state{1: {}, 2: {}}, later: map[KeyType][]h_state{}, syncEach: syncEach}
}

func (m *h_model) synced() {
	for k, v := range m.cur {
		m.durable[k] = v
	}
	m.later = map[KeyType][]h_state{}
}

// started: the operation may take effect from now on; done: it has returned
func (m *h_model) started(o h_op) {
	switch o.kind {
	case 0:
		m.later[o.key] = append(m.later[o.key], h_state{present: true, val: o.val})
	case 1:
		m.later[o.key] = append(m.later[o.key], h_state{})
	}
}

func (m *h_model) done(o h_op) {
	switch o.kind {
	case 0:
		m.cur[o.key] = h_state{present: true, val: o.val}
		if m.syncEach {
			m.synced()
		}
	case 1:
		m.cur[o.key] = h_state{}
		if m.syncEach {
			m.synced()
		}
	case 2, 4:
		m.synced()
	}
}

func (m *h_model) allowed(k KeyType, actual h_state) bool {
	ok := h_same_state(actual, m.durable[k])
	for _, l := range m.later[k] {
		ok = ok || h_same_state(actual, l)
	}
	return ok
}

func h_apply(db *DB, o h_op, reopen func() *DB) *DB {
	switch o.kind {
	case 0:
		db.Put(o.key, o.val)
	case 1:
		db.Del(o.key)
	case 2:
		db.Sync()
	case 3:
		db.Defrag(true)
	case 4:
		db.Close()
		db = reopen()
	}
	return db
}

// C19: the embedded key-value store against an in-memory map, with a crash at an arbitrary file operation. Three
// operations from {Put, Del, Sync, Defrag(force), Close+reopen} on keys 1 and 2 with arbitrary two-byte values,
// with the store syncing on every change or only on demand; after every operation Get agrees with the map; then
// either a clean Close or a crash before the k-th mutating file operation (k arbitrary), and a reopen: the store
// opens, and every key holds its last synced value or one written later - after a clean Close exactly the last one.
// Natively the same workload runs in a child process that gdb kills at the k-th openat / write / unlinkat system
// call, for every k, and a second child reopens the directory.
func H_C19_OpsAndCrash() { h_c19_run(false, 300) }

// C19: the same from a store that already holds key 1 (an arbitrary value written and closed in an earlier session:
// its record is in the data file and in the index log when the workload starts), with the forced defragmentation
// inside sync() at its default threshold (300 %) or at 10 % - so that a sync of an overwrite or a delete defragments.
func H_C19_FromStoredState() {
	h_c19_run(true, []uint32{300, 10}[zzverif.Enum("forced-defrag-percent", 2)])
}

func h_c19_run(stored bool, forcedDefrag uint32) {
	crashAt := zzverif.Enum("crash-before-file-op", 26+10*zzverif.Tier()) // 0: no crash
	syncEach := zzverif.Enum("sync-on-demand-only", 2) == 0
	opts := &ExtraOpts{DefragPercentVal: 50, ForcedDefragPerc: forcedDefrag, MaxPendingNoSync: 10000}
	if !syncEach {
		opts.MaxPending = 2500
	}
	zzverif.Bound("workload", "3 (thorough 4) operations from {Put, Del, Sync, Defrag(force), Close+reopen} on 2 keys, values of 2 arbitrary bytes; the store empty at the start (OpsAndCrash) or holding key 1 from an earlier session (FromStoredState); crash before the k-th create/write/remove for k in 1..25 (35) or none; MaxPending 0 or 2500; ForcedDefragPerc 300 or 10")
	var pre []h_op
	if stored {
		pre = []h_op{{kind: 0, key: 1, val: zzverif.Bytes("stored-value", 2)}}
	}
	var ops []h_op
	for step := 0; step < 3+zzverif.Tier(); step++ {
		o := h_op{kind: zzverif.Enum("op", 5)}
		if o.kind <= 1 {
			o.key = KeyType(1 + zzverif.Enum("key", 2))
		}
		if o.kind == 0 {
			o.val = zzverif.Bytes("value", 2)
		}
		ops = append(ops, o)
	}
	if !zzverif.Symbolic() {
		h_c19_native(pre, ops, opts, syncEach)
		return
	}
	fs := &h_fs{files: map[string][]byte{}, handles: map[*os.File]*h_handle{}}
	fs.install()
	open := func() *DB {
		var db *DB
		NewDBExt(&db, &NewDBOpts{Dir: "/db/", LoadData: true, ExtraOpts: opts})
		return db
	}
	m := h_new_model(syncEach)
	if len(pre) > 0 {
		// the earlier session: no crash in it
		db := open()
		for _, o := range pre {
			m.started(o)
			db = h_apply(db, o, open)
			m.done(o)
		}
		db.Close()
		m.synced()
		fs.handles = map[*os.File]*h_handle{}
		fs.ops = 0
	}
	fs.crashAt = crashAt
	crashed := zzverif.Panics(func() {
		db := open()
		for _, o := range ops {
			m.started(o)
			db = h_apply(db, o, open)
			m.done(o)
			// on-line equivalence with the map
			n := 0
			for k, want := range m.cur {
				got := db.Get(k)
				zzverif.Assert("C19.online.get", (got != nil) == want.present && (!want.present || bytes.Equal(got, want.val)))
				if want.present {
					n++
				}
			}
			zzverif.Assert("C19.online.count", db.Count() == n)
		}
		db.Close()
		m.synced()
	})
	if crashed {
		zzverif.Reach("crashed")
	} else {
		zzverif.Assume(fs.crashAt == 0 || fs.ops < fs.crashAt) // a crash point beyond the workload's last file operation is "no crash"
		zzverif.Reach("clean-close")
	}
	// ---- reopen
	fs.crashAt = 0
	fs.handles = map[*os.File]*h_handle{}
	var db2 *DB
	zzverif.Assert("C19.reopen.opens", !zzverif.Panics(func() { db2 = open() }))
	for _, k := range []KeyType{1, 2} {
		got := db2.Get(k)
		actual := h_state{present: got != nil, val: got}
		zzverif.Assert("C19.reopen.value-was-written", m.allowed(k, actual))
		if !crashed {
			zzverif.Assert("C19.reopen.exact-after-close", h_same_state(actual, m.cur[k]))
		}
	}
}
