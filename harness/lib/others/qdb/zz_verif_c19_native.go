//go:build verif

package qdb

import (
	"encoding/hex"
	"fmt"
	"os"
	"os/exec"
	"strings"
	"time"

	"github.com/piotrnar/gocoin/lib/others/zzverif"
)

// Native realisation of the crash model. The parent (the replay test) runs the workload in a child process (this
// same test binary, ZZVERIF_C19_MODE=run) under gdb: a catchpoint on the openat / write / unlinkat system calls set
// when the workload starts, `ignore <n>`, continue, kill - the child dies at its (n+1)-th entry to or return from
// such a call, counted over all threads, i.e. at a real file-operation boundary. A second child
// (ZZVERIF_C19_MODE=reopen) opens the directory and prints what it holds. The workload child journals "S<i>" before
// and "D<i>" after every operation (in a file outside the database directory), so the parent knows which operations
// may have taken effect and which syncs completed.

//go:noinline
func h_c19_mark() {}

func h_c19_native(pre, ops []h_op, opts *ExtraOpts, syncEach bool) {
	mode := os.Getenv("ZZVERIF_C19_MODE")
	dir := os.Getenv("ZZVERIF_C19_DIR")
	open := func() *DB {
		var db *DB
		NewDBExt(&db, &NewDBOpts{Dir: dir + "/db/", LoadData: true, ExtraOpts: opts})
		return db
	}
	switch mode {
	case "run":
		j, _ := os.OpenFile(dir+"/journal", os.O_CREATE|os.O_WRONLY|os.O_APPEND, 0600)
		if len(pre) > 0 {
			db := open()
			for _, o := range pre {
				db = h_apply(db, o, open)
			}
			db.Close()
		}
		h_c19_mark() // gdb arms the system-call catchpoint here
		db := open()
		for i, o := range ops {
			fmt.Fprintf(j, "S%d\n", i)
			db = h_apply(db, o, open)
			fmt.Fprintf(j, "D%d\n", i)
		}
		fmt.Fprintf(j, "SC\n")
		db.Close()
		fmt.Fprintf(j, "DC\n")
		os.Exit(0)
	case "reopen":
		db := open()
		for _, k := range []KeyType{1, 2} {
			v := db.Get(k)
			if v == nil {
				fmt.Printf("ZZKEY %d absent\n", k)
			} else {
				fmt.Printf("ZZKEY %d %s\n", k, hex.EncodeToString(v))
			}
		}
		os.Exit(0)
	}
	// ---- parent
	self, _ := os.Executable()
	child := func(mode, d string, strace []string) (int, string) {
		args := append(append([]string{}, strace...), self, "-test.run", "^TestZZReplay$")
		cmd := exec.Command(args[0], args[1:]...)
		cmd.Env = append(os.Environ(), "ZZVERIF_C19_MODE="+mode, "ZZVERIF_C19_DIR="+d)
		out, err := cmd.CombinedOutput()
		code := 0
		if err != nil {
			code = 1
			if ee, ok := err.(*exec.ExitError); ok {
				code = ee.ExitCode()
				if code < 0 {
					code = 137
				}
			}
		}
		return code, string(out)
	}
	want := zzverif.ReplayLabel()
	var failures []string
	check := func(strace []string) (killed bool) {
		d, _ := os.MkdirTemp("", "zzverif_c19_")
		defer os.RemoveAll(d)
		child("run", d, strace)
		// what the journal says
		m := h_new_model(syncEach)
		for _, o := range pre {
			m.started(o)
			m.done(o)
		}
		m.synced()
		jb, _ := os.ReadFile(d + "/journal")
		journal := string(jb)
		for i, o := range ops {
			if strings.Contains(journal, fmt.Sprintf("S%d\n", i)) {
				m.started(o)
			}
			if strings.Contains(journal, fmt.Sprintf("D%d\n", i)) {
				m.done(o)
			}
		}
		clean := strings.Contains(journal, "DC\n")
		killed = !clean
		if clean {
			m.synced()
		}
		code, out := child("reopen", d, nil)
		if os.Getenv("ZZVERIF_C19_DEBUG") != "" {
			fmt.Fprintf(os.Stderr, "[c19] strace=%v killed=%v journal=%q reopen-exit=%d out=%q\n", strace, killed, journal, code, out)
		}
		if code != 0 {
			failures = append(failures, "C19.reopen.opens")
			return
		}
		for _, k := range []KeyType{1, 2} {
			actual := h_state{}
			for _, l := range strings.Split(out, "\n") {
				var kk int
				var v string
				if n, _ := fmt.Sscanf(l, "ZZKEY %d %s", &kk, &v); n == 2 && KeyType(kk) == k && v != "absent" {
					b, _ := hex.DecodeString(v)
					actual = h_state{present: true, val: b}
				}
			}
			if !m.allowed(k, actual) {
				failures = append(failures, "C19.reopen.value-was-written")
			}
			if clean && !h_same_state(actual, m.cur[k]) {
				failures = append(failures, "C19.reopen.exact-after-close")
			}
		}
		return
	}
	check(nil) // no crash
	if _, err := exec.LookPath("gdb"); err == nil {
		start := time.Now()
		// every system call stops twice (entry, return); the state after a return equals the state at the next entry, so
		// every second stop is enough
		for n := 0; n < 400 && time.Since(start) < 20*time.Second; n += 2 {
			gdb := []string{"gdb", "-q", "-batch", "-nx", "-ex", "set pagination off", "-ex", "set confirm off", "-ex", "handle SIGURG nostop noprint pass",
				"-ex", "break github.com/piotrnar/gocoin/lib/others/qdb.h_c19_mark", "-ex", "run", "-ex", "catch syscall openat write unlinkat",
				"-ex", fmt.Sprintf("ignore 2 %d", n), "-ex", "continue", "-ex", "kill", "--args"}
			if !check(gdb) {
				break // the child ran to the end: no further boundary
			}
		}
	}
	if len(failures) > 0 {
		// any inconsistency after a crash of this workload realises the model's violation: it is reported under the
		// replayed label when that is one of the reopen assertions
		label := failures[0]
		if strings.HasPrefix(want, "C19.reopen.") {
			label = want
		}
		zzverif.Assert(label, false)
	}
}
