//go:build verif && (amd64 || arm64)

package secp256k1

import (
	"math/big"

	"github.com/piotrnar/gocoin/lib/others/zzverif"
)

var h_P, _ = new(big.Int).SetString("FFFFFFFFFFFFFFFFFFFFFFFFFFFFFFFFFFFFFFFFFFFFFFFFFFFFFFFEFFFFFC2F", 16)

// h_field: an arbitrary field element in 5x52 representation of magnitude <= m
// (limbs 0..3 <= 2m(2^52-1), limb 4 <= 2m(2^48-1)), as libsecp256k1 defines magnitude.
func h_field(name string, m uint64) *Field {
	f := new(Field)
	for i := 0; i < 4; i++ {
		f.n[i] = zzverif.Range64(name, 2*m*(1<<52-1))
	}
	f.n[4] = zzverif.Range64(name, 2*m*(1<<48-1))
	return f
}

// h_value: the integer a limb vector denotes.
func h_value(f *Field) *big.Int {
	v := new(big.Int)
	for i := 4; i >= 0; i-- {
		v.Lsh(v, 52)
		v.Add(v, new(big.Int).SetUint64(f.n[i]))
	}
	return v
}

func h_magnitude_ok(f *Field, m uint64) bool {
	return f.n[0] <= 2*m*(1<<52-1) && f.n[1] <= 2*m*(1<<52-1) && f.n[2] <= 2*m*(1<<52-1) && f.n[3] <= 2*m*(1<<52-1) && f.n[4] <= 2*m*(1<<48-1)
}

// C08/L0: Mul — for all operands of magnitude <= 8: result ≡ a*b (mod p), result magnitude 1.
func H_C08_FieldMul() {
	zzverif.IntMode()
	zzverif.Bound("operands", "every limb vector of magnitude <= 8 (limbs < 2^56, top limb < 2^52)")
	a, b := h_field("a", 8), h_field("b", 8)
	var r Field
	a.Mul(&r, b)
	want := new(big.Int).Mul(h_value(a), h_value(b))
	zzverif.Assert("C08.field.mul.value", zzverif.CongruentMod(h_value(&r), want, h_P))
	zzverif.Assert("C08.field.mul.magnitude", h_magnitude_ok(&r, 1))
	zzverif.Reach("done")
}

// C08/L0: Sqr
func H_C08_FieldSqr() {
	zzverif.IntMode()
	a := h_field("a", 8)
	var r Field
	a.Sqr(&r)
	want := new(big.Int).Mul(h_value(a), h_value(a))
	zzverif.Assert("C08.field.sqr.value", zzverif.CongruentMod(h_value(&r), want, h_P))
	zzverif.Assert("C08.field.sqr.magnitude", h_magnitude_ok(&r, 1))
	zzverif.Reach("done")
}

// C08/L0: Normalize — for every limb vector with limbs < 2^60 (top limb < 2^60): the output is the canonical
// representative (limbs in range, value < p) of the input value mod p.
func H_C08_FieldNormalize() {
	zzverif.IntMode()
	zzverif.Bound("operand", "every limb vector with all five limbs < 2^60 (covers every magnitude <= 128)")
	a := new(Field)
	for i := 0; i < 5; i++ {
		a.n[i] = zzverif.Range64("a", 1<<60-1)
	}
	in := h_value(a)
	a.Normalize()
	out := h_value(a)
	zzverif.Assert("C08.field.normalize.limbs", a.n[0] < 1<<52 && a.n[1] < 1<<52 && a.n[2] < 1<<52 && a.n[3] < 1<<52 && a.n[4] < 1<<48)
	zzverif.Assert("C08.field.normalize.canonical", out.Cmp(h_P) < 0)
	zzverif.Assert("C08.field.normalize.value", zzverif.CongruentMod(out, in, h_P))
	zzverif.Reach("done")
}

// C08/L0: linear operations (SetAdd, MulInt, Negate) for operands within the magnitude contract.
func H_C08_FieldLinear() {
	zzverif.IntMode()
	switch zzverif.Enum("op", 3) {
	case 0: // SetAdd: magnitudes 16 + 16
		a, b := h_field("a", 16), h_field("b", 16)
		want := new(big.Int).Add(h_value(a), h_value(b))
		a.SetAdd(b)
		zzverif.Assert("C08.field.add.value", h_value(a).Cmp(want) == 0)
		zzverif.Assert("C08.field.add.magnitude", h_magnitude_ok(a, 32))
		zzverif.Reach("add")
	case 1: // MulInt by k <= 8 of a magnitude-4 element
		a := h_field("a", 4)
		k := zzverif.Range64("k", 8)
		want := new(big.Int).Mul(h_value(a), new(big.Int).SetUint64(k))
		a.MulInt(k)
		zzverif.Assert("C08.field.mulint.value", h_value(a).Cmp(want) == 0)
		zzverif.Assert("C08.field.mulint.magnitude", h_magnitude_ok(a, 32))
		zzverif.Reach("mulint")
	case 2: // Negate(m) of an element of magnitude <= m, m <= 31
		m := uint64(1 + zzverif.Enum("m-1", 31))
		a := h_field("a", m)
		var r Field
		a.Negate(&r, m)
		sum := new(big.Int).Add(h_value(a), h_value(&r))
		zzverif.Assert("C08.field.negate.value", zzverif.CongruentMod(sum, new(big.Int), h_P))
		zzverif.Assert("C08.field.negate.magnitude", h_magnitude_ok(&r, m+1))
		zzverif.Reach("negate")
	}
}

// C08/L0: byte conversion — SetB32 gives the big-endian value (magnitude 1 limbs) and GetB32 inverts it.
func H_C08_FieldBytes() {
	zzverif.IntMode()
	b := zzverif.Bytes("b", 32)
	var f Field
	f.SetB32(b)
	zzverif.Assert("C08.field.setb32.value", h_value(&f).Cmp(new(big.Int).SetBytes(b)) == 0)
	zzverif.Assert("C08.field.setb32.limbs", f.n[0] < 1<<52 && f.n[1] < 1<<52 && f.n[2] < 1<<52 && f.n[3] < 1<<52 && f.n[4] < 1<<48)
	var out [32]byte
	f.GetB32(out[:])
	for i := 0; i < 32; i++ {
		zzverif.Assert("C08.field.getb32.roundtrip", out[i] == b[i])
	}
	zzverif.Reach("done")
}

// C08/L1 (assume-guarantee on the field layer): serialising an affine point whose coordinates are what SetXYZ
// leaves - results of Mul, i.e. any limb vector of magnitude 1, not normalised (H_C08_FieldMul's guarantee) -
// gives the canonical X and the parity of the canonical Y, through GetPublicKey (33 and 65 bytes) and Bytes.
func H_C08_PointSerialize() {
	zzverif.IntMode()
	zzverif.Bound("coordinates", "every pair of limb vectors of magnitude 1 (limbs <= 2*(2^52-1), top limb <= 2*(2^48-1))")
	if zzverif.Symbolic() {
		// Normalize by its contract (decided by H_C08_FieldNormalize): the canonical limbs of the value mod p
		zzverif.Stub("(*Field).Normalize replaced by its contract: limbs of (value mod p)")
		lim := new(big.Int).Lsh(big.NewInt(1), 52)
		zzverif.Replace("(*secp256k1.Field).Normalize", func(f *Field) {
			m := new(big.Int).Mod(h_value(f), h_P)
			for i := 0; i < 5; i++ {
				f.n[i] = new(big.Int).Mod(new(big.Int).Rsh(m, uint(52*i)), lim).Uint64()
			}
		})
	}
	x, y := h_field("x", 1), h_field("y", 1)
	xc := new(big.Int).Mod(h_value(x), h_P)
	yc := new(big.Int).Mod(h_value(y), h_P)
	yodd := new(big.Int).Mod(yc, big.NewInt(2)).Sign() != 0
	var wantX, wantY [32]byte
	xc.FillBytes(wantX[:])
	yc.FillBytes(wantY[:])
	form := zzverif.Enum("form", 4)
	pk := XY{X: *x, Y: *y}
	var out []byte
	switch form {
	case 0:
		out = make([]byte, 33)
		pk.GetPublicKey(out)
	case 1:
		out = make([]byte, 65)
		pk.GetPublicKey(out)
	case 2:
		out = pk.Bytes(true)
	case 3:
		out = pk.Bytes(false)
	}
	zzverif.Assert("C08.point.serialize.x", string(out[1:33]) == string(wantX[:]))
	if len(out) == 33 {
		zzverif.Assert("C08.point.serialize.parity", out[0] == 2 || out[0] == 3)
		zzverif.Assert("C08.point.serialize.parity", (out[0] == 3) == yodd)
	} else {
		zzverif.Assert("C08.point.serialize.y", out[0] == 4 && string(out[33:65]) == string(wantY[:]))
	}
	zzverif.Reach("done")
}
