//go:build verif

package secp256k1

import (
	"math/big"

	"github.com/piotrnar/gocoin/lib/others/zzverif"
)

var h_p, _ = new(big.Int).SetString("FFFFFFFFFFFFFFFFFFFFFFFFFFFFFFFFFFFFFFFFFFFFFFFFFFFFFFFEFFFFFC2F", 16)

func h_below_p(b []byte) bool { return new(big.Int).SetBytes(b).Cmp(h_p) < 0 }

// h_on_curve: y^2 == x^3 + 7 with the library's own field arithmetic (decided against Z/p by the C08 harnesses)
func h_on_curve(x, y []byte) bool {
	var q XY
	q.X.SetB32(x)
	q.Y.SetB32(y)
	return q.IsValid()
}

// h_stub_sqrt replaces the square-root ladder (255 squarings) by an arbitrary field element: what is decided is
// whether the caller checks the candidate root, not the ladder (C08 L1, outside).
func h_stub_sqrt() {
	if !zzverif.Symbolic() {
		return
	}
	zzverif.Stub("(*Field).Sqrt: uninterpreted function fsqrt of the canonical operand (the 255-squaring ladder is not encoded); callers must check the candidate root")
	// field products as one uninterpreted function of the canonical operands: the protocol logic around them is what
	// is decided here (the limb arithmetic itself is C08's subject)
	zzverif.Stub("(*Field).Mul / Sqr: uninterpreted function fmul of the canonical 32-byte operands")
	canon := func(a *Field) []byte {
		t := *a
		t.Normalize()
		out := make([]byte, 32)
		t.GetB32(out)
		return out
	}
	zzverif.Replace("(*secp256k1.Field).Sqrt", func(a *Field, r *Field) {
		r.SetB32(zzverif.Fn("fsqrt", 32, canon(a)))
	})
	zzverif.Replace("(*secp256k1.Field).Mul", func(a *Field, r *Field, b *Field) {
		r.SetB32(zzverif.Fn("fmul", 32, append(canon(a), canon(b)...)))
	})
	zzverif.Replace("(*secp256k1.Field).Sqr", func(a *Field, r *Field) {
		c := canon(a)
		r.SetB32(zzverif.Fn("fmul", 32, append(c, c...)))
	})
}

// h_realise_nonresidue (native replay): the stubbed root being wrong means x^3+7 has no root; move x to the next
// value (at most 64 steps) for which that is really so.
func h_realise_nonresidue(x []byte) {
	for k := 0; k < 64; k++ {
		var q XY
		var f Field
		f.SetB32(x)
		q.SetXO(&f, false)
		if !q.IsValid() {
			return
		}
		for i := 31; i >= 0; i-- {
			x[i]++
			if x[i] != 0 {
				break
			}
		}
	}
}

// C03: a public key is accepted only if it encodes a point of the curve with coordinates below p (and, for hybrid
// keys, the announced parity); an uncompressed or hybrid key that does is accepted.
func H_C03_PubkeyParse() {
	h_stub_sqrt()
	L := []int{33, 65, 0, 1, 32, 34, 64, 66}[zzverif.Enum("length", 8)]
	pub := zzverif.Bytes("pub", L)
	var q XY
	if L == 33 && !zzverif.Symbolic() && (pub[0] == 2 || pub[0] == 3) && h_below_p(pub[1:33]) {
		h_realise_nonresidue(pub[1:33])
	}
	ok := q.ParsePubkey(pub)
	if !ok && !zzverif.Symbolic() && L == 65 {
		// native realiser: under the engine "on the curve" is a relation of uninterpreted products; realise it with the
		// next abscissa that really has a root, keeping the prefix and the parity of Y chosen by the model. (An abscissa
		// of p or more stays one: the root is that of its residue, so the bytes alias a real point.)
		alt := append([]byte{}, pub...)
		for k := 0; k < 64; k++ {
			var f Field
			var c XY
			f.SetB32(alt[1:33])
			c.SetXO(&f, pub[64]&1 == 1)
			if c.IsValid() {
				c.Y.GetB32(alt[33:65])
				break
			}
			for i := 32; i >= 1; i-- {
				alt[i]++
				if alt[i] != 0 {
					break
				}
			}
		}
		if q.ParsePubkey(alt) {
			ok, pub = true, alt
		}
	}
	if ok {
		zzverif.Reach("accepted")
		zzverif.Assert("C03.pubkey.length-prefix", L == 33 && (pub[0] == 2 || pub[0] == 3) || L == 65 && (pub[0] == 4 || pub[0] == 6 || pub[0] == 7))
		zzverif.Assert("C03.pubkey.x-below-p", h_below_p(pub[1:33]))
		if L == 65 {
			zzverif.Assert("C03.pubkey.y-below-p", h_below_p(pub[33:65]))
			zzverif.Assert("C03.pubkey.hybrid-parity", pub[0] == 4 || pub[64]&1 == pub[0]&1)
		}
		zzverif.Assert("C03.pubkey.on-curve", q.IsValid())
		if L == 33 {
			q.Y.Normalize()
			// y == 0 is excluded: no point of the curve has it (the group order is odd), but the uninterpreted product allows it
			zzverif.Assert("C03.pubkey.compressed-parity", q.Y.IsZero() || q.Y.IsOdd() == (pub[0] == 3))
		}
		return
	}
	zzverif.Reach("refused")
	if L == 65 && (pub[0] == 4 || pub[0] == 6 || pub[0] == 7) && h_below_p(pub[1:33]) && h_below_p(pub[33:65]) {
		if pub[0] == 4 || pub[64]&1 == pub[0]&1 {
			zzverif.Assert("C03.pubkey.valid-accepted", !h_on_curve(pub[1:33], pub[33:65]))
		}
	}
}

// C03: an x-only public key (BIP340) is accepted only if x < p and x is the abscissa of a curve point; the lifted
// point has even y.
func H_C03_XOnlyParse() {
	h_stub_sqrt()
	pub := zzverif.Bytes("xonly", 32)
	if !zzverif.Symbolic() && h_below_p(pub) {
		h_realise_nonresidue(pub)
	}
	var q XY
	if q.ParseXOnlyPubkey(pub) {
		zzverif.Reach("accepted")
		zzverif.Assert("C03.xonly.below-p", h_below_p(pub))
		zzverif.Assert("C03.xonly.liftable", q.IsValid())
		q.Y.Normalize()
		zzverif.Assert("C03.xonly.even-y", q.Y.IsZero() || !q.Y.IsOdd())
	} else {
		zzverif.Reach("refused")
	}
}

// C03: the taproot commitment check (BIP341) accepts only for a liftable internal key below p whose tweaked point
// has the announced abscissa and parity. The point addition P + t*G is an arbitrary point under the engine.
func H_C03_TweakCheck() {
	h_stub_sqrt()
	base := zzverif.Bytes("internal-key", 32)
	tweak := zzverif.Bytes("tweak", 32)
	outkey := zzverif.Bytes("output-key", 32)
	parity := zzverif.Bool("parity")
	var resX, resY []byte
	inf := zzverif.Bool("tweaked.infinity")
	if zzverif.Symbolic() {
		zzverif.Stub("(*XYZ).ECmult: arbitrary finite point or infinity; (*XY).SetXYZ: arbitrary affine coordinates (group law is C08's subject)")
		resX, resY = zzverif.Bytes("tweaked.x", 32), zzverif.Bytes("tweaked.y", 32)
		zzverif.Replace("(*secp256k1.XYZ).ECmult", func(a *XYZ, r *XYZ, na, ng *Number) { r.Infinity = inf })
		zzverif.Replace("(*secp256k1.XY).SetXYZ", func(r *XY, a *XYZ) {
			r.Infinity = a.Infinity
			r.X.SetB32(resX)
			r.Y.SetB32(resY)
		})
	} else {
		// native realiser: the output key the real arithmetic derives from this internal key, as an attacker would compute it
		if inf {
			// P + t*G is the point at infinity for t = n - d where P = d*G (d = 7, negated if P has odd y)
			d := big.NewInt(7)
			var dk [32]byte
			var pk [33]byte
			d.FillBytes(dk[:])
			BaseMultiply(dk[:], pk[:])
			if pk[0] == 3 {
				d.Sub(&TheCurve.Order.Int, d)
			}
			copy(base, pk[1:])
			new(big.Int).Sub(&TheCurve.Order.Int, d).FillBytes(tweak)
		} else if h_below_p(base) {
			h_realise_nonresidue(base)
		}
		var bp XY
		var t Number
		bp.X.SetB32(base)
		bp.SetXO(&bp.X, false)
		t.SetBytes(tweak)
		if bp.ECPublicTweakAdd(&t) {
			bp.X.Normalize()
			bp.Y.Normalize()
			bp.X.GetB32(outkey)
			parity = bp.Y.IsOdd()
		}
	}
	if CheckPayToContract(outkey, base, tweak, parity) {
		zzverif.Reach("accepted")
		zzverif.Assert("C03.tweak.result-finite", !inf)
		zzverif.Assert("C03.tweak.internal-key-below-p", h_below_p(base))
		var q XY
		q.X.SetB32(base)
		q.SetXO(&q.X, false)
		zzverif.Assert("C03.tweak.internal-key-liftable", q.IsValid())
		if zzverif.Symbolic() {
			var rx, ry Field
			rx.SetB32(resX)
			ry.SetB32(resY)
			rx.Normalize()
			ry.Normalize()
			var want [32]byte
			rx.GetB32(want[:])
			zzverif.Assert("C03.tweak.abscissa", string(want[:]) == string(outkey))
			zzverif.Assert("C03.tweak.parity", ry.IsOdd() == parity)
		}
	} else {
		zzverif.Reach("refused")
	}
}

// C03: the gates of BIP340 verification around the group computation: acceptance implies a liftable key below p,
// r < p, s < n, a finite nonce point with even y and abscissa r. The double multiplication s*G - e*P and the
// conversion to affine coordinates yield an arbitrary point under the engine.
func H_C03_SchnorrGates() {
	h_stub_sqrt()
	if !zzverif.Symbolic() {
		return // a native witness would be a forgery; the gates are decided under the stubs only
	}
	pk := zzverif.Bytes("pubkey", 32)
	sig := zzverif.Bytes("sig", 64)
	msg := zzverif.Bytes("msg", 32)
	zzverif.Stub("(*XYZ).ECmult: no effect; (*XY).SetXYZ: arbitrary affine point or infinity")
	Rx, Ry := zzverif.Bytes("R.x", 32), zzverif.Bytes("R.y", 32)
	inf := zzverif.Bool("R.infinity")
	zzverif.Replace("(*secp256k1.XYZ).ECmult", func(a *XYZ, r *XYZ, na, ng *Number) {})
	zzverif.Replace("secp256k1.SchnorrsigChallenge", func(e *Number, r32, msg32, pubkey32 []byte) { e.SetInt64(1) }) // only feeds ECmult
	zzverif.Replace("(*secp256k1.XY).SetXYZ", func(r *XY, a *XYZ) {
		r.Infinity = inf
		r.X.SetB32(Rx)
		r.Y.SetB32(Ry)
	})
	if SchnorrVerify(pk, sig, msg) {
		zzverif.Reach("accepted")
		zzverif.Assert("C03.schnorr.key-below-p", h_below_p(pk))
		var q XY
		q.X.SetB32(pk)
		q.SetXO(&q.X, false)
		zzverif.Assert("C03.schnorr.key-liftable", q.IsValid())
		zzverif.Assert("C03.schnorr.r-below-p", h_below_p(sig[:32]))
		zzverif.Assert("C03.schnorr.s-below-n", new(big.Int).SetBytes(sig[32:]).Cmp(&TheCurve.Order.Int) < 0)
		zzverif.Assert("C03.schnorr.nonce-finite", !inf)
		var rx, ry Field
		rx.SetB32(Rx)
		ry.SetB32(Ry)
		rx.Normalize()
		ry.Normalize()
		var want [32]byte
		rx.GetB32(want[:])
		zzverif.Assert("C03.schnorr.nonce-abscissa", string(want[:]) == string(sig[:32]))
		zzverif.Assert("C03.schnorr.nonce-even-y", !ry.IsOdd())
	} else {
		zzverif.Reach("refused")
	}
}
