//go:build verif

package secp256k1

import (
	"math/big"

	"github.com/piotrnar/gocoin/lib/others/zzverif"
)

func h_canonical(f *Field) bool {
	return f.n[0] < 1<<52 && f.n[1] < 1<<52 && f.n[2] < 1<<52 && f.n[3] < 1<<52 && f.n[4] < 1<<48 && h_value(f).Cmp(h_P) < 0
}

func h_gej(name string, m uint64) *XYZ {
	p := new(XYZ)
	p.X, p.Y, p.Z = *h_field(name+".x", m), *h_field(name+".y", m), *h_field(name+".z", m)
	p.Infinity = zzverif.Bool(name + ".infinity")
	return p
}

// ---- native side: the group law over big integers, and a search for a wrong result

func h_aff(p *XYZ) (x, y *big.Int, inf bool) {
	if p.Infinity {
		return nil, nil, true
	}
	z := new(big.Int).Mod(h_value(&p.Z), h_P)
	if z.Sign() == 0 {
		return nil, nil, true
	}
	zi := new(big.Int).ModInverse(z, h_P)
	z2 := new(big.Int).Mul(zi, zi)
	x = new(big.Int).Mul(h_value(&p.X), z2)
	x.Mod(x, h_P)
	y = new(big.Int).Mul(h_value(&p.Y), z2)
	y.Mul(y, zi)
	y.Mod(y, h_P)
	return
}

func h_ref_add(x1, y1 *big.Int, inf1 bool, x2, y2 *big.Int, inf2 bool) (x, y *big.Int, inf bool) {
	if inf1 {
		return x2, y2, inf2
	}
	if inf2 {
		return x1, y1, inf1
	}
	var l *big.Int
	if x1.Cmp(x2) == 0 {
		if y1.Cmp(y2) != 0 || y1.Sign() == 0 {
			return nil, nil, true
		}
		l = new(big.Int).Mul(big.NewInt(3), new(big.Int).Mul(x1, x1))
		l.Mul(l, new(big.Int).ModInverse(new(big.Int).Lsh(y1, 1), h_P))
	} else {
		l = new(big.Int).Sub(y2, y1)
		d := new(big.Int).Sub(x2, x1)
		d.Mod(d, h_P)
		l.Mul(l, new(big.Int).ModInverse(d, h_P))
	}
	l.Mod(l, h_P)
	x = new(big.Int).Mul(l, l)
	x.Sub(x, x1)
	x.Sub(x, x2)
	x.Mod(x, h_P)
	y = new(big.Int).Sub(x1, x)
	y.Mul(y, l)
	y.Sub(y, y1)
	y.Mod(y, h_P)
	return
}

func h_same_point(x1, y1 *big.Int, i1 bool, x2, y2 *big.Int, i2 bool) bool {
	if i1 || i2 {
		return i1 == i2
	}
	return x1.Cmp(x2) == 0 && y1.Cmp(y2) == 0
}

// h_native_group_search: the same point in two Jacobian representations (and its negation) added with Add and AddXY,
// 2^16 times with pseudo-random multiples of G and scalings; reports whether every result is the group law's.
func h_native_group_search() bool {
	seed := uint64(0x9E3779B97F4A7C15)
	next := func() uint64 {
		seed ^= seed << 13
		seed ^= seed >> 7
		seed ^= seed << 17
		return seed
	}
	var k Number
	var P XYZ
	k.SetInt64(int64(next()>>8) + 3)
	ECmultGen(&P, &k)
	for it := 0; it < 1<<16; it++ {
		// advance the point and pick a scaling factor
		var G1 XYZ
		G1.SetXY(&TheCurve.G)
		P.Add(&P, &G1)
		var z, z2, z3 Field
		var zb [32]byte
		for i := 0; i < 4; i++ {
			v := next()
			for j := 0; j < 8; j++ {
				zb[8*i+j] = byte(v >> (8 * j))
			}
		}
		zb[0] &= 0x7f
		z.SetB32(zb[:])
		z.Sqr(&z2)
		z2.Mul(&z3, &z)
		Q := P
		Q.X.Mul(&Q.X, &z2)
		Q.Y.Mul(&Q.Y, &z3)
		Q.Z.Mul(&Q.Z, &z)
		if it&1 == 1 {
			Q.Y.Normalize()
			Q.Y.Negate(&Q.Y, 1)
		}
		px, py, pi := h_aff(&P)
		qx, qy, qi := h_aff(&Q)
		wx, wy, wi := h_ref_add(px, py, pi, qx, qy, qi)
		var R XYZ
		P.Add(&R, &Q)
		rx, ry, ri := h_aff(&R)
		if !h_same_point(rx, ry, ri, wx, wy, wi) {
			return false
		}
		// AddXY with the affine form of Q
		if !qi {
			var qa XY
			var bx, by [32]byte
			qx.FillBytes(bx[:])
			qy.FillBytes(by[:])
			qa.X.SetB32(bx[:])
			qa.Y.SetB32(by[:])
			var R2 XYZ
			Q2 := Q
			Q2.AddXY(&R2, &qa) // Q + Q through the mixed formula
			dx, dy, di := h_ref_add(qx, qy, qi, qx, qy, qi)
			rx, ry, ri = h_aff(&R2)
			if !h_same_point(rx, ry, ri, dx, dy, di) {
				return false
			}
		}
	}
	return true
}

// C08/L1 (assume-guarantee over the field layer): the Jacobian group operations Double, Add and AddXY and the affine helpers (GetPublicKey, Bytes, IsValid, SetXO) respect the
// contracts under which the field layer is decided (H_C08_Field*): every Mul / Sqr operand has magnitude <= 8,
// every Negate(a, m) operand has magnitude <= m, every Equals / IsZero / IsOdd / GetB32 operand is normalised; and with
// input coordinates of magnitude <= 8 the output coordinates have magnitude <= 8 again (so the contract is
// inductive over chains of group operations). Products are arbitrary magnitude-1 values here: what is decided is
// the bookkeeping of magnitudes and normalisation, the algebra of the formulas is not.
func H_C08_GroupContracts() {
	zzverif.IntMode()
	if !zzverif.Symbolic() {
		// native realisation of a missing normalisation: a wrong sum/double found by a differential search
		zzverif.Assert("C08.group.compare-normalized", h_native_group_search())
		return
	}
	zzverif.Bound("operands", "every pair of Jacobian / affine points with coordinates of magnitude <= 8 (limbs arbitrary in that range) and arbitrary infinity flags")
	zzverif.Stub("(*Field).Mul / Sqr: arbitrary result of magnitude 1 (their guarantee); Normalize: its contract; Negate / Equals / IsZero / IsOdd: real definitions with the precondition asserted")
	lim := new(big.Int).Lsh(big.NewInt(1), 52)
	fresh := func(r *Field) {
		for i := 0; i < 4; i++ {
			r.n[i] = zzverif.Range64("product", 2*(1<<52-1))
		}
		r.n[4] = zzverif.Range64("product", 2*(1<<48-1))
	}
	zzverif.Replace("(*secp256k1.Field).Mul", func(a *Field, r *Field, b *Field) {
		zzverif.Assert("C08.group.mul-operands", h_magnitude_ok(a, 8) && h_magnitude_ok(b, 8))
		fresh(r)
	})
	zzverif.Replace("(*secp256k1.Field).Sqr", func(a *Field, r *Field) {
		zzverif.Assert("C08.group.mul-operands", h_magnitude_ok(a, 8))
		fresh(r)
	})
	zzverif.Replace("(*secp256k1.Field).Normalize", func(f *Field) {
		zzverif.Assert("C08.group.normalize-operand", f.n[0] < 1<<60 && f.n[1] < 1<<60 && f.n[2] < 1<<60 && f.n[3] < 1<<60 && f.n[4] < 1<<60)
		m := new(big.Int).Mod(h_value(f), h_P)
		for i := 0; i < 5; i++ {
			f.n[i] = new(big.Int).Mod(new(big.Int).Rsh(m, uint(52*i)), lim).Uint64()
		}
	})
	zzverif.Replace("(*secp256k1.Field).Negate", func(a *Field, r *Field, m uint64) {
		zzverif.Assert("C08.group.negate-operand", h_magnitude_ok(a, m))
		r.n[0] = 0xFFFFEFFFFFC2F*2*(m+1) - a.n[0]
		r.n[1] = 0xFFFFFFFFFFFFF*2*(m+1) - a.n[1]
		r.n[2] = 0xFFFFFFFFFFFFF*2*(m+1) - a.n[2]
		r.n[3] = 0xFFFFFFFFFFFFF*2*(m+1) - a.n[3]
		r.n[4] = 0x0FFFFFFFFFFFF*2*(m+1) - a.n[4]
	})
	zzverif.Replace("(*secp256k1.Field).Equals", func(a *Field, b *Field) bool {
		zzverif.Assert("C08.group.compare-normalized", h_canonical(a) && h_canonical(b))
		return a.n[0] == b.n[0] && a.n[1] == b.n[1] && a.n[2] == b.n[2] && a.n[3] == b.n[3] && a.n[4] == b.n[4]
	})
	zzverif.Replace("(*secp256k1.Field).IsZero", func(a *Field) bool {
		zzverif.Assert("C08.group.compare-normalized", h_canonical(a))
		return a.n[0] == 0 && a.n[1] == 0 && a.n[2] == 0 && a.n[3] == 0 && a.n[4] == 0
	})
	zzverif.Replace("(*secp256k1.Field).IsOdd", func(a *Field) bool {
		zzverif.Assert("C08.group.compare-normalized", h_canonical(a))
		return a.n[0]&1 == 1
	})
	zzverif.Replace("(*secp256k1.Field).GetB32", func(a *Field, out []byte) {
		zzverif.Assert("C08.group.compare-normalized", h_canonical(a))
		for i := range out[:32] {
			out[i] = 0 // the bytes are not the subject here
		}
	})
	zzverif.Replace("(*secp256k1.Field).Sqrt", func(a *Field, r *Field) {
		zzverif.Assert("C08.group.mul-operands", h_magnitude_ok(a, 8))
		fresh(r)
	})
	a := h_gej("a", 8)
	var r XYZ
	op := zzverif.Enum("operation", 9)
	if op >= 3 {
		// operations on affine points (coordinates of magnitude 1, as SetXYZ and SetXO leave them)
		q := &XY{X: *h_field("q.x", 1), Y: *h_field("q.y", 1)}
		switch op {
		case 3:
			q.GetPublicKey(make([]byte, 33))
		case 4:
			q.GetPublicKey(make([]byte, 65))
		case 5:
			q.Bytes(zzverif.Bool("compressed"))
		case 6:
			q.IsValid()
		case 7:
			a.IsValid()
		case 8:
			var f Field
			f = q.X
			q.SetXO(&f, zzverif.Bool("odd"))
			zzverif.Assert("C08.group.output-magnitude", h_magnitude_ok(&q.X, 8) && h_magnitude_ok(&q.Y, 8))
		}
		zzverif.Reach("affine-op")
		return
	}
	switch op {
	case 0:
		a.Double(&r)
	case 1:
		b := h_gej("b", 8)
		a.Add(&r, b)
	case 2:
		b := &XY{X: *h_field("b.x", 8), Y: *h_field("b.y", 8), Infinity: zzverif.Bool("b.infinity")}
		a.AddXY(&r, b)
	}
	if !r.Infinity {
		zzverif.Assert("C08.group.output-magnitude", h_magnitude_ok(&r.X, 8) && h_magnitude_ok(&r.Y, 8) && h_magnitude_ok(&r.Z, 8))
		zzverif.Reach("finite")
	} else {
		zzverif.Reach("infinity")
	}
}
