//go:build verif

package secp256k1

import (
	"bytes"
	"math/big"

	"github.com/piotrnar/gocoin/lib/others/zzverif"
)

var h_order = []byte{0xFF, 0xFF, 0xFF, 0xFF, 0xFF, 0xFF, 0xFF, 0xFF, 0xFF, 0xFF, 0xFF, 0xFF, 0xFF, 0xFF, 0xFF, 0xFE,
	0xBA, 0xAE, 0xDC, 0xE6, 0xAF, 0x48, 0xA0, 0x3B, 0xBF, 0xD2, 0x5E, 0x8C, 0xD0, 0x36, 0x41, 0x41}

// h_in_range: 1 <= v <= n-1 for a big-endian byte string v (any length)
func h_in_range(v []byte) bool {
	for len(v) > 0 && v[0] == 0 {
		v = v[1:]
	}
	if len(v) == 0 || len(v) > 32 {
		return false
	}
	var pad [32]byte
	copy(pad[32-len(v):], v)
	return bytes.Compare(pad[:], h_order) < 0
}

func h_der(r, s []byte) []byte {
	out := []byte{0x30, byte(4 + len(r) + len(s)), 0x02, byte(len(r))}
	out = append(out, r...)
	out = append(out, 0x02, byte(len(s)))
	return append(out, s...)
}

// C03: ECDSA acceptance implies r and s in [1, n-1]. The curve computation (Signature.recompute) is replaced by a
// stub returning an arbitrary verdict and an arbitrary x-coordinate, so what is decided here is the scalar range
// gate around it, for DER signatures whose R and S have 1..33 bytes.
func H_C03_EcdsaScalarRange() {
	lr := zzverif.Len("lenR", 1, 33)
	ls := zzverif.Len("lenS", 1, 33)
	if zzverif.Tier() == 0 && !(lr >= 31 || lr <= 2) {
		zzverif.Assume(false)
	}
	if zzverif.Tier() == 0 && !(ls >= 31 || ls <= 2) {
		zzverif.Assume(false)
	}
	rb, sb := zzverif.Bytes("r", lr), zzverif.Bytes("s", ls)
	sig := h_der(rb, sb)
	msg := zzverif.Bytes("msg", 32)
	// the key is the generator point: the scalar gate does not depend on it (key parsing is H_C03_PubkeyParse's subject)
	var pub [65]byte
	pub[0] = 4
	TheCurve.G.X.Normalize()
	TheCurve.G.Y.Normalize()
	TheCurve.G.X.GetB32(pub[1:33])
	TheCurve.G.Y.GetB32(pub[33:65])
	if zzverif.Symbolic() {
		x := zzverif.Bytes("recomputed.x", 32)
		ok := zzverif.Bool("recompute.ok")
		zzverif.Replace("(*secp256k1.Signature).recompute", func(sg *Signature, r2 *Number, pubkey *XY, message *Number) bool {
			r2.SetBytes(x)
			return ok
		})
		zzverif.Stub("Signature.recompute: arbitrary verdict and x coordinate (the group computation is C08's subject)")
	} else {
		// native realisation of a scalar out of range: a genuine signature with the small s = 5, built algebraically
		// (d = (s*k - m) / r mod n for a fixed nonce k, as the property's "triples constructed algebraically"), whose S
		// is then replaced by S + n: the only way to make the real curve computation agree with the model's stub
		N := &TheCurve.Order.Int
		k := new(big.Int).SetBytes([]byte{0x0b, 0xad, 0xc0, 0xde, 0x42})
		var kp [33]byte
		BaseMultiply(k.Bytes(), kp[:])
		var R XY
		R.ParsePubkey(kp[:])
		R.X.Normalize()
		var rx [32]byte
		R.X.GetB32(rx[:])
		r := new(big.Int).SetBytes(rx[:])
		r.Mod(r, N)
		m := new(big.Int).SetBytes(msg)
		s0 := big.NewInt(5)
		d := new(big.Int).Mul(s0, k)
		d.Sub(d, m)
		d.Mul(d, new(big.Int).ModInverse(r, N))
		d.Mod(d, N)
		if d.Sign() == 0 || r.Sign() == 0 {
			return
		}
		var dk [32]byte
		d.FillBytes(dk[:])
		BaseMultiply(dk[:], pub[:33])
		var q XY
		q.ParsePubkey(pub[:33])
		q.X.Normalize()
		q.Y.Normalize()
		pub[0] = 4
		q.X.GetB32(pub[1:33])
		q.Y.GetB32(pub[33:65])
		rb, sb = r.Bytes(), new(big.Int).Add(s0, N).Bytes()
		if rb[0] >= 0x80 {
			rb = append([]byte{0}, rb...)
		}
		if sb[0] >= 0x80 {
			sb = append([]byte{0}, sb...)
		}
		sig = h_der(rb, sb)
	}
	if Verify(pub[:], sig, msg) {
		zzverif.Reach("accepted")
		zzverif.Assert("C03.ecdsa.r-in-range", h_in_range(rb))
		zzverif.Assert("C03.ecdsa.s-in-range", h_in_range(sb))
	} else {
		zzverif.Reach("refused")
	}
}

// ref_strict_der: BIP66 strict DER without the hash-type byte.
func ref_strict_der(sig []byte) bool {
	if len(sig) < 8 || len(sig) > 72 || sig[0] != 0x30 || int(sig[1]) != len(sig)-2 {
		return false
	}
	lenR := int(sig[3])
	if 5+lenR >= len(sig) {
		return false
	}
	lenS := int(sig[5+lenR])
	if lenR+lenS+6 != len(sig) || sig[2] != 0x02 || lenR == 0 || sig[4]&0x80 != 0 {
		return false
	}
	if lenR > 1 && sig[4] == 0 && sig[5]&0x80 == 0 {
		return false
	}
	if sig[lenR+4] != 0x02 || lenS == 0 || sig[lenR+6]&0x80 != 0 {
		return false
	}
	if lenS > 1 && sig[lenR+6] == 0 && sig[lenR+7]&0x80 == 0 {
		return false
	}
	return true
}

// C03: the serialisation of a signature with r, s in [1, 2^256) is strict DER (minimal, positive) and parses back.
func H_C03_SignatureBytes() {
	var sg Signature
	rb, sb := zzverif.Bytes("r", 32), zzverif.Bytes("s", 32)
	nz := func(b []byte) bool {
		for _, c := range b {
			if c != 0 {
				return true
			}
		}
		return false
	}
	zzverif.Assume(nz(rb) && nz(sb))
	sg.R.SetBytes(rb)
	sg.S.SetBytes(sb)
	der := sg.Bytes()
	zzverif.Assert("C03.sig.strict-der", ref_strict_der(der))
	var back Signature
	n := back.ParseBytes(der)
	zzverif.Assert("C03.sig.parse-back", n == len(der) && back.R.Cmp(&sg.R.Int) == 0 && back.S.Cmp(&sg.S.Int) == 0)
	if len(der) == 72 {
		zzverif.Reach("both-padded")
	}
	if len(der) < 70 {
		zzverif.Reach("short")
	}
}

// C03: the last step of ECDSA verification compares r with the abscissa of the recomputed point *modulo n*. The scalar,
// group and field computations are stubs (arbitrary results: C08's subject); the recomputed point is the point at
// infinity or has an arbitrary affine abscissa x < p. For r in [1, n-1] (s = 5): accepted exactly when the point is
// finite and r = x mod n - in particular for the abscissas in [n, p), which r = x - n must match.
func H_C03_EcdsaXModN() {
	zzverif.IntMode()
	rb, msg := zzverif.Bytes("r", 32), zzverif.Bytes("msg", 32)
	N := &TheCurve.Order.Int
	var key XY
	want := false
	if zzverif.Symbolic() {
		x := zzverif.Bytes("recomputed.x", 32)
		zzverif.Assume(h_below_p(x))
		inf := zzverif.Bool("recomputed.infinity")
		zzverif.Stub("Number.mod_inv / mod_mul, XYZ.ECmult / get_x, Field.Normalize / GetB32 inside Signature.recompute: the recomputed point is the point at infinity or has an arbitrary abscissa below p")
		zzverif.Replace("(*secp256k1.Number).mod_inv", func(r, a, b *Number) {})
		zzverif.Replace("(*secp256k1.Number).mod_mul", func(r, a, b, m *Number) {})
		zzverif.Replace("(*secp256k1.XYZ).SetXY", func(r *XYZ, a *XY) {})
		zzverif.Replace("(*secp256k1.XYZ).ECmult", func(a, r *XYZ, na, ng *Number) { r.Infinity = inf })
		zzverif.Replace("(*secp256k1.XYZ).get_x", func(a *XYZ, r *Field) {})
		zzverif.Replace("(*secp256k1.Field).Normalize", func(f *Field) {})
		zzverif.Replace("(*secp256k1.Field).GetB32", func(f *Field, out []byte) { copy(out, x) })
		R := new(big.Int).SetBytes(rb)
		xn := new(big.Int).SetBytes(x)
		above := xn.Cmp(N) >= 0
		xn.Mod(xn, N)
		want = R.Sign() > 0 && R.Cmp(N) < 0 && !inf && R.Cmp(xn) == 0
		if !inf && above {
			zzverif.Reach("abscissa-above-n")
		}
	} else {
		// native realisation: a valid triple whose nonce point has its abscissa in [n, p), built algebraically: R = the first
		// curve point with x = n + t (t = 1, 2, ...), r = t, s = 5, Q = (1/u2)*R - (u1/u2)*G with u1 = m/s, u2 = r/s
		var R XY
		t := new(big.Int)
		for i := int64(1); i < 200; i++ {
			var xb [32]byte
			new(big.Int).Add(N, big.NewInt(i)).FillBytes(xb[:])
			var f Field
			f.SetB32(xb[:])
			R.SetXO(&f, false)
			if R.IsValid() {
				t.SetInt64(i)
				break
			}
		}
		if t.Sign() == 0 {
			return
		}
		m := new(big.Int).SetBytes(msg)
		sn := new(big.Int).ModInverse(big.NewInt(5), N)
		u1 := new(big.Int).Mul(m, sn)
		u1.Mod(u1, N)
		u2 := new(big.Int).Mul(t, sn)
		u2.Mod(u2, N)
		u2i := new(big.Int).ModInverse(u2, N)
		var na, ng Number
		na.Set(u2i)
		g := new(big.Int).Mul(u1, u2i)
		g.Neg(g)
		g.Mod(g, N)
		ng.Set(g)
		var rj, qj XYZ
		rj.SetXY(&R)
		rj.ECmult(&qj, &na, &ng)
		if qj.IsInfinity() {
			return
		}
		key.SetXYZ(&qj)
		rb = t.Bytes()
		want = true
	}
	var sg Signature
	var mnum Number
	sg.R.SetBytes(rb)
	sg.S.SetInt64(5)
	mnum.SetBytes(msg)
	got := sg.Verify(&key, &mnum)
	zzverif.Assert("C03.ecdsa.x-mod-n", got == want)
	if got {
		zzverif.Reach("accepted")
	}
}
