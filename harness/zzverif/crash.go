package zzverif

import (
	"fmt"
	"os"
	"os/exec"
	"strings"
	"time"
)

// Hangs runs f and reports whether it fails to return: under the engine, f ends in a state where every goroutine is
// blocked (a receive on an empty channel with nothing left to run); natively, f has not returned after three seconds.
// A panic in f propagates. (intercepted)
func Hangs(f func()) bool {
	done := make(chan struct{})
	var pv interface{}
	go func() {
		defer func() {
			pv = recover()
			close(done)
		}()
		f()
	}()
	select {
	case <-done:
		if pv != nil {
			panic(pv)
		}
		return false
	case <-time.After(3 * time.Second):
		return true
	}
}

// Native realisation of a crash point (used by harnesses whose model has a "crash before the k-th file operation"
// variable). The replay test re-executes itself as a workload child (env ZZVERIF_CRASH_DIR set) under gdb: a breakpoint
// at CrashMark, then a catchpoint on the file-mutating system calls, `ignore <n>`, continue, kill - the child dies at
// its (n+1)-th entry to or return from such a call, counted over all threads: a real process death at a real
// file-operation boundary. The child appends what it has begun and completed to <dir>/journal (Journal); the parent
// reads it back (JournalHas) and reopens <dir> itself.

// CrashMark is where the child's system calls start to count. (breakpoint target)
//
//go:noinline
func CrashMark() { crashMarks++ }

var crashMarks int

// InCrashChild: the scratch directory when this process is a workload child.
func InCrashChild() (dir string, ok bool) {
	dir = os.Getenv("ZZVERIF_CRASH_DIR")
	return dir, dir != ""
}

// Journal appends one line to <dir>/journal.
func Journal(dir, line string) {
	f, err := os.OpenFile(dir+"/journal", os.O_CREATE|os.O_WRONLY|os.O_APPEND, 0600)
	if err != nil {
		return
	}
	fmt.Fprintf(f, "%s\n", line)
	f.Close()
}

// JournalHas reports whether the child wrote that line.
func JournalHas(dir, line string) bool {
	b, _ := os.ReadFile(dir + "/journal")
	return strings.Contains("\n"+string(b), "\n"+line+"\n")
}

// HaveGdb reports whether crash points can be realised natively here.
func HaveGdb() bool {
	_, err := exec.LookPath("gdb")
	return err == nil
}

// RunCrashChild runs the workload child on dir. n < 0: no debugger, the child runs to its end. Otherwise the child is
// killed at its (n+1)-th stop at one of the system calls after CrashMark. The result says whether the child wrote the
// journal line "END" (it finished by itself).
func RunCrashChild(dir string, n int, syscalls string) (finished bool) {
	self, _ := os.Executable()
	args := []string{self, "-test.run", "^TestZZReplay$"}
	if n >= 0 {
		args = append([]string{"gdb", "-q", "-batch", "-nx", "-ex", "set pagination off", "-ex", "set confirm off", "-ex", "handle SIGURG nostop noprint pass",
			"-ex", "break github.com/piotrnar/gocoin/lib/others/zzverif.CrashMark", "-ex", "run", "-ex", "catch syscall " + syscalls,
			"-ex", fmt.Sprintf("ignore 2 %d", n), "-ex", "continue", "-ex", "kill", "--args"}, args...)
	}
	cmd := exec.Command(args[0], args[1:]...)
	cmd.Env = append(os.Environ(), "ZZVERIF_CRASH_DIR="+dir)
	out, _ := cmd.CombinedOutput()
	if os.Getenv("ZZVERIF_CRASH_DEBUG") != "" {
		fmt.Fprintf(os.Stderr, "[crash child n=%d] %s\n", n, out)
	}
	return JournalHas(dir, "END")
}

// FileSyscalls: what Go's os package uses on linux/amd64 to create, write, rename and remove files.
const FileSyscalls = "openat write pwrite64 renameat unlinkat"

// ChildRun runs f in the workload child; an assertion that fails in it is journalled ("FAIL <label>") for the parent.
func ChildRun(dir string, f func()) {
	defer func() {
		if e := recover(); e != nil {
			if a, ok := e.(assertFailure); ok {
				Journal(dir, "FAIL "+a.label)
				os.Exit(1)
			}
			panic(e)
		}
	}()
	f()
}

// ChildFailure: the label of the assertion that failed in the child, if any.
func ChildFailure(dir string) string {
	b, _ := os.ReadFile(dir + "/journal")
	for _, l := range strings.Split(string(b), "\n") {
		if strings.HasPrefix(l, "FAIL ") {
			return l[5:]
		}
	}
	return ""
}
