// Package zzverif is the harness API of the /verif machinery. It is injected into the repository
// only through build overlays (never written under /repo). Under the symbolic engine (gosym) the
// functions marked "intercepted" are replaced by engine primitives; compiled natively they read a
// replay file (env ZZVERIF_REPLAY) so that a solver counterexample can be re-run against the real
// build.
package zzverif

import (
	"crypto/sha256"
	"encoding/hex"
	"encoding/json"
	"fmt"
	"math/big"
	"os"
	"runtime"
	"strconv"
	"sync"
)

type replayFile struct {
	Harness string                 `json:"harness"`
	Label   string                 `json:"label"`
	Inputs  map[string]string      `json:"inputs"`
	Choices map[string]int         `json:"choices"`
	Fns     map[string][][2]string `json:"fns"`
}

var (
	rf        replayFile
	loaded    bool
	nameCount = map[string]int{}
	// FailedLabel is the label of the first failed assertion of a native run.
	FailedLabel  string
	AssumeFailed bool
	events       = map[string]int{}
)

type assertFailure struct{ label string }
type assumeFailure struct{}

func load() {
	if loaded {
		return
	}
	loaded = true
	if p := os.Getenv("ZZVERIF_REPLAY"); p != "" {
		b, err := os.ReadFile(p)
		if err == nil {
			json.Unmarshal(b, &rf)
		}
	}
}

func unique(name string) string {
	n := nameCount[name]
	nameCount[name] = n + 1
	if n == 0 {
		return name
	}
	return fmt.Sprintf("%s#%d", name, n)
}

// Symbolic reports whether the harness runs under the symbolic engine. (intercepted)
func Symbolic() bool { return false }

// Tier is 0 for the quick tier, 1 for thorough. (intercepted)
func Tier() int {
	if os.Getenv("ZZVERIF_TIER") == "thorough" {
		return 1
	}
	return 0
}

// Bytes returns n arbitrary bytes. (intercepted)
func Bytes(name string, n int) []byte {
	load()
	out := make([]byte, n)
	if s, ok := rf.Inputs[unique(name)]; ok {
		b, _ := hex.DecodeString(s)
		copy(out, b)
	}
	return out
}

func scalar(name string) uint64 {
	load()
	if s, ok := rf.Inputs[unique(name)]; ok {
		v, _ := strconv.ParseUint(s, 10, 64)
		return v
	}
	return 0
}

func U8(name string) uint8   { return uint8(scalar(name)) }
func U16(name string) uint16 { return uint16(scalar(name)) }
func U32(name string) uint32 { return uint32(scalar(name)) }
func U64(name string) uint64 { return scalar(name) }
func I32(name string) int32  { return int32(uint32(scalar(name))) }
func I64(name string) int64  { return int64(scalar(name)) }
func Int(name string) int    { return int(scalar(name)) }
func Bool(name string) bool  { return scalar(name) != 0 }

// Range64 returns an arbitrary value in [0, hi] (the engine records the interval). (intercepted)
func Range64(name string, hi uint64) uint64 { return scalar(name) }

// Len returns a value in [lo,hi]; the engine forks over all of them without the solver. (intercepted)
func Len(name string, lo, hi int) int {
	load()
	if v, ok := rf.Choices[unique(name)]; ok {
		return v
	}
	return lo
}

// Enum returns a value in [0,n); forked concretely. (intercepted)
func Enum(name string, n int) int {
	load()
	if v, ok := rf.Choices[unique(name)]; ok {
		return v
	}
	return 0
}

// Assume restricts the inputs considered. (intercepted)
func Assume(c bool) {
	if !c {
		AssumeFailed = true
		panic(assumeFailure{})
	}
}

// Assert states the property. (intercepted)
func Assert(label string, c bool) {
	if !c {
		if FailedLabel == "" {
			FailedLabel = label
		}
		panic(assertFailure{label})
	}
}

// Reach is a vacuity witness: the engine must find a model reaching every label. (intercepted)
func Reach(label string) {}

// LoopBound cuts paths that iterate a loop of the named function more than k times (a stated bound). (intercepted)
func LoopBound(fn string, k int) {}

func Unwind(k int)       {}
func MaxSteps(n int)     {}
func AllocLimit(n int)   {}
func SymIndexFork(n int) {}

// Steps returns the number of SSA instructions executed so far on this path (0 natively). (intercepted)
func Steps() int      { return 0 }
func AllocCells() int { return 0 }

// Replace makes the engine run f instead of the named function when the code under test calls it.
// It has no effect natively. (intercepted)
func Replace(fn string, f interface{}) {}

// Tabulate tells the engine that fn is a pure function of one small integer: it is evaluated concretely for
// every argument value once and calls with a symbolic argument become a table lookup. (intercepted)
func Tabulate(fn string) {}

func Bound(what, value string) {}
func Assumption(text string)   {}
func Stub(text string)         {}

// Known marks the region of a listed known finding (see known_findings.json). (intercepted)
func Known(id string, region bool) {}

// Concrete forces the engine to case-split x over its feasible values. (intercepted)
func Concrete(x int) int { return x }

// MutexHeld reports whether the mutex is currently locked. (intercepted)
func MutexHeld(m interface{}) bool {
	switch x := m.(type) {
	case *sync.Mutex:
		if x.TryLock() {
			x.Unlock()
			return false
		}
		return true
	case *sync.RWMutex:
		if x.TryLock() {
			x.Unlock()
			return false
		}
		return true
	}
	panic("MutexHeld: unsupported type")
}

// MutexesHeld is the number of mutexes (of any package, exported or not) held at this point under the engine;
// natively it is 0 (use MutexHeld / a timed Lock for the ones that can be named). (intercepted)
func MutexesHeld() int { return 0 }

// LazyGo switches the engine's treatment of go statements for the rest of the path: instead of running the new
// goroutine at the spawn point it is queued and runs (to completion, oldest first) when a goroutine blocks - in
// WaitGroup.Wait, on an empty channel, in a blocking select with no ready case, on a held mutex - or when the harness
// returns. One schedule, like the default, but one in which producer / consumer pairs terminate. Natively a no-op.
// (intercepted)
func LazyGo() {}

// RunGoroutines runs every queued goroutine now (engine, lazy mode); natively a no-op. (intercepted)
func RunGoroutines() {}

// KillGoroutines drops every queued goroutine (engine, lazy mode): the process they belonged to has died. Natively a
// no-op. (intercepted)
func KillGoroutines() {}

func Event(s string)          { events[s]++ }
func EventCount(s string) int { return events[s] }

// Ite8 selects between two bytes without forking a path. (intercepted)
func Ite8(c bool, a, b byte) byte {
	if c {
		return a
	}
	return b
}

// Ite64 selects between two values without forking a path. (intercepted)
func Ite64(c bool, a, b uint64) uint64 {
	if c {
		return a
	}
	return b
}

// UF is an uninterpreted injective function of a byte string with n output bytes under the engine; natively it is
// realised by SHA-256-based expansion (only used where the real function is stubbed). (intercepted)
func UF(name string, n int, in []byte) []byte {
	out := make([]byte, 0, n)
	ctr := byte(0)
	for len(out) < n {
		h := sha256.Sum256(append(append([]byte(name), ctr), in...))
		out = append(out, h[:]...)
		ctr++
	}
	return out[:n]
}

// Fn is an uninterpreted function (functional consistency only) of a byte string with n output bytes under the
// engine; natively it returns the result the replayed model gave for this argument (replay file, "fns") and the
// SHA-256-based expansion of UF for arguments the model did not see. (intercepted)
func Fn(name string, n int, in []byte) []byte {
	load()
	key := hex.EncodeToString(in)
	for _, p := range rf.Fns[name] {
		if p[0] == key {
			out, _ := hex.DecodeString(p[1])
			if len(out) == n {
				return out
			}
		}
	}
	return UF("fn:"+name, n, in)
}

// ReplayLabel is the label of the violation (or witness) being replayed natively ("" under the engine or without a
// replay file).
func ReplayLabel() string {
	load()
	return rf.Label
}

// FnKnown returns the result the replayed model recorded for this argument of Fn, or nil. Native only.
func FnKnown(name string, in []byte) []byte {
	load()
	key := hex.EncodeToString(in)
	for _, p := range rf.Fns[name] {
		if p[0] == key {
			out, _ := hex.DecodeString(p[1])
			return out
		}
	}
	return nil
}

// IntMode switches the engine to the mathematical-integer encoding for this harness (must be the first
// call). No effect natively. (intercepted)
func IntMode() {}

// CongruentMod reports x ≡ y (mod m) for a concrete modulus m. (intercepted)
func CongruentMod(x, y, m *big.Int) bool {
	d := new(big.Int).Sub(x, y)
	return d.Mod(d, m).Sign() == 0
}

// Panics runs f and reports whether a Go panic escaped from it (assertion/assumption signals pass through).
func Panics(f func()) (p bool) {
	defer func() {
		if e := recover(); e != nil {
			switch e.(type) {
			case assertFailure, assumeFailure:
				panic(e)
			}
			p = true
			LastPanic = fmt.Sprint(e)
		}
	}()
	f()
	return false
}

// LastPanic is the value of the last panic swallowed by Panics (native runs only).
var LastPanic string

// RunReplay is called by the generated native test driver.
func RunReplay(m map[string]func()) {
	load()
	h := os.Getenv("ZZVERIF_HARNESS")
	f, ok := m[h]
	if !ok {
		fmt.Printf("ZZRESULT no-such-harness %s\n", h)
		return
	}
	var ms0, ms1 runtime.MemStats
	runtime.ReadMemStats(&ms0)
	res := "ok"
	func() {
		defer func() {
			if e := recover(); e != nil {
				switch x := e.(type) {
				case assertFailure:
					res = "assert-fail:" + x.label
				case assumeFailure:
					res = "assume-failed"
				default:
					res = fmt.Sprintf("panic:%v", e)
				}
			}
		}()
		f()
	}()
	if FailedLabel != "" {
		res = "assert-fail:" + FailedLabel
	} else if AssumeFailed && res == "ok" {
		res = "assume-failed"
	}
	runtime.ReadMemStats(&ms1)
	fmt.Printf("ZZALLOC %d\n", ms1.TotalAlloc-ms0.TotalAlloc)
	if LastPanic != "" {
		fmt.Printf("ZZLASTPANIC %s\n", LastPanic)
	}
	fmt.Printf("ZZRESULT %s\n", res)
}
