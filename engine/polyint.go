package main

// math/big.Int in Int mode: the cell holds an unbounded Int term.

import (
	"fmt"
	"math/big"

	"golang.org/x/tools/go/ssa"
)

type ITerm = Term

func (r *Run) bigTerm(x *BigV) *Term {
	if x.sym != nil {
		// registers may hold terms built before later path facts (x == 0 ...): use the normalised term so
		// that interval refinements recorded for it apply
		return r.ts.norm(x.sym)
	}
	if x.bsym != nil {
		panic(unsupported("byte-vector big.Int mixed with Int mode"))
	}
	return r.ts.IConst(x.v)
}

func (r *Run) setBig(z *BigV, t *Term) {
	if t.IsConst() {
		z.v, z.sym, z.bsym = new(big.Int).Set(t.bk), nil, nil
		return
	}
	z.v, z.sym, z.bsym = nil, t, nil
}

func bigAnySym(xs ...*BigV) bool {
	for _, x := range xs {
		if x.sym != nil {
			return true
		}
	}
	return false
}

// intBig handles the arithmetic methods when an operand is symbolic. a[0] is the receiver.
func (r *Run) intBig(fn *ssa.Function, a []Value) (Value, bool) {
	name := fn.Name()
	ts := r.ts
	switch name {
	case "Add", "Sub", "Mul", "Div", "Mod", "Quo", "Rem":
		x, y := r.bigCell(a[1], false), r.bigCell(a[2], false)
		if !bigAnySym(x, y) {
			return nil, false
		}
		xt, yt := r.bigTerm(x), r.bigTerm(y)
		var res *Term
		switch name {
		case "Add":
			res = ts.IAdd(xt, yt)
		case "Sub":
			res = ts.ISub(xt, yt)
		case "Mul":
			res = ts.IMul(xt, yt)
		default:
			if !yt.IsConst() {
				panic(unsupported("big.Int division by a symbolic divisor at " + r.curPos()))
			}
			if yt.bk.Sign() == 0 {
				r.goPanic("division by zero")
			}
			// Div/Mod are Euclidean (floor for a positive divisor); Quo/Rem truncate and are only taken for x >= 0
			if yt.bk.Sign() < 0 || (xt.lo.Sign() < 0 && (name == "Quo" || name == "Rem")) {
				panic(unsupported("big.Int division with possibly negative operands at " + r.curPos()))
			}
			if name == "Div" || name == "Quo" {
				res = ts.IDivC(xt, yt.bk)
			} else {
				res = ts.IModC(xt, yt.bk)
			}
		}
		r.setBig(r.bigCell(a[0], true), res)
		return a[0], true
	case "DivMod":
		x, y := r.bigCell(a[1], false), r.bigCell(a[2], false)
		if !bigAnySym(x, y) {
			return nil, false
		}
		xt, yt := r.bigTerm(x), r.bigTerm(y)
		if !yt.IsConst() || yt.bk.Sign() <= 0 {
			panic(unsupported(fmt.Sprintf("big.Int.DivMod with symbolic/negative operands (x in %s..%s, y=%s) at %s", xt.lo, xt.hi, yt.String(), r.curPos())))
		}
		q, m := ts.IDivC(xt, yt.bk), ts.IModC(xt, yt.bk)
		r.setBig(r.bigCell(a[0], true), q)
		r.setBig(r.bigCell(a[3], true), m)
		return TupleV{a[0], a[3]}, true
	case "Lsh", "Rsh":
		x := r.bigCell(a[1], false)
		if !bigAnySym(x) {
			return nil, false
		}
		n := int(r.concretizeInt(a[2].(*Term), "big shift").Int64())
		xt := r.bigTerm(x)
		var res *Term
		if name == "Lsh" {
			res = ts.IMulC(pow2(n), xt)
		} else {
			if xt.lo.Sign() < 0 {
				panic(unsupported("big.Int.Rsh of a possibly negative value"))
			}
			res = ts.IDivC(xt, pow2(n))
		}
		r.setBig(r.bigCell(a[0], true), res)
		return a[0], true
	}
	return nil, false
}

func (r *Run) intBigFromTerm(t *Term, signed bool) *BigV {
	if t.IsConst() {
		return &BigV{v: new(big.Int).Set(t.bk)}
	}
	return &BigV{sym: t}
}

func (r *Run) intBigFromBytes(b []*Term) *BigV {
	ts := r.ts
	acc := ts.IConst(bigZero)
	for i, x := range b {
		acc = ts.IAdd(acc, ts.IMulC(pow2(8*(len(b)-1-i)), x))
	}
	out := &BigV{}
	r.setBig(out, acc)
	return out
}

func (r *Run) intBigFromWords(w []*Term) *BigV {
	ts := r.ts
	acc := ts.IConst(bigZero)
	for i, x := range w {
		acc = ts.IAdd(acc, ts.IMulC(pow2(64*i), x))
	}
	out := &BigV{}
	r.setBig(out, acc)
	return out
}

// unitLen forks on the number of base-2^k digits of a non-negative value.
func (r *Run) unitLen(v *Term, k int) int {
	if v.lo.Sign() < 0 {
		// the interval does not exclude a negative value: let the solver decide (the negative side, if feasible, is unsupported)
		if r.branch(r.ts.ILt(v, r.ts.IConst(bigZero))) {
			panic(unsupported("digits of a possibly negative big.Int"))
		}
		r.ts.refine(v, bigZero, v.hi)
	}
	max := (v.hi.BitLen() + k - 1) / k
	for n := 0; n < max; n++ {
		if r.branch(r.ts.ILt(v, r.ts.IConst(pow2(k*n)))) {
			return n
		}
	}
	return max
}

func (r *Run) intBigBytes(x *BigV) Value {
	v := x.sym
	n := r.unitLen(v, 8)
	out := make([]*Term, n)
	for i := 0; i < n; i++ {
		out[i] = r.ts.IModC(r.ts.IDivC(v, pow2(8*(n-1-i))), pow2(8))
	}
	return r.newByteSlice(out, n)
}

func (r *Run) intBigBits(x *BigV) Value {
	v := x.sym
	n := r.unitLen(v, 64)
	arr := &ArrayV{e: make([]Value, n)}
	for i := 0; i < n; i++ {
		arr.e[i] = r.ts.IModC(r.ts.IDivC(v, pow2(64*i)), pow2(64))
	}
	o := r.newObj(nil, arr)
	return &SliceV{obj: o, len: n, cap: n}
}

func (r *Run) intBigCmp(x, y *BigV) Value {
	ts := r.ts
	xt, yt := r.bigTerm(x), r.bigTerm(y)
	return ts.Ite(ts.ILt(xt, yt), ts.IConst64(-1), ts.Ite(ts.IEq(xt, yt), ts.IConst64(0), ts.IConst64(1)))
}

func (r *Run) intBigSign(x *BigV) Value {
	ts := r.ts
	xt := r.bigTerm(x)
	z := ts.IConst(bigZero)
	return ts.Ite(ts.ILt(xt, z), ts.IConst64(-1), ts.Ite(ts.IEq(xt, z), ts.IConst64(0), ts.IConst64(1)))
}

func (r *Run) intBigToTerm(x *BigV, w int) Value {
	// Int64()/Uint64(): low 64 bits of the magnitude (sign applied by two's complement for Int64)
	return r.ts.IModC(r.bigTerm(x), pow2(64))
}

func (r *Run) intBigBitLen(x *BigV) Value {
	return r.ts.IConst64(int64(r.unitLen(x.sym, 1)))
}

func (r *Run) intBigBit(x *BigV, i int) Value {
	return r.ts.IModC(r.ts.IDivC(x.sym, pow2(i)), pow2(1))
}
