package main

// Int mode (polynomial / mathematical-integer encoding). Filled in later; BV mode never reaches it.

import "golang.org/x/tools/go/ssa"

type ITerm struct{}

func (r *Run) intBig(fn *ssa.Function, a []Value) (Value, bool) { return nil, false }
func (r *Run) intBigFromTerm(t *Term, signed bool) *BigV       { panic(unsupported("int mode")) }
func (r *Run) intBigFromBytes(b []*Term) *BigV                  { panic(unsupported("int mode")) }
func (r *Run) intBigFromWords(w []*Term) *BigV                  { panic(unsupported("int mode")) }
func (r *Run) intBigBytes(x *BigV) Value                        { panic(unsupported("int mode")) }
func (r *Run) intBigCmp(x, y *BigV) Value                       { panic(unsupported("int mode")) }
func (r *Run) intBigSign(x *BigV) Value                         { panic(unsupported("int mode")) }
func (r *Run) intBigToTerm(x *BigV, w int) Value                { panic(unsupported("int mode")) }
func (r *Run) intBigBitLen(x *BigV) Value                       { panic(unsupported("int mode")) }
func (r *Run) intBigBit(x *BigV, i int) Value                   { panic(unsupported("int mode")) }
func (r *Run) intBigBits(x *BigV) Value                         { panic(unsupported("int mode")) }
