package main

// Path exploration: stateless DFS by re-execution, decision logs, solver sessions.

import (
	"encoding/hex"
	"runtime/debug"
	"fmt"
	"os"
	"sort"
	"strings"
	"sync"
	"sync/atomic"
	"time"

	"golang.org/x/tools/go/ssa"
)

type Decision struct {
	Kind byte   // 'b' branch, 'v' concretised value, 'c' free choice
	V    uint64 // branch: 0/1 ; value
}

type engineObj struct {
	kind string
	data interface{}
}

type Violation struct {
	Harness string            `json:"harness"`
	Label   string            `json:"label"`
	Msg     string            `json:"msg"`
	Known   string            `json:"known,omitempty"`
	Inputs  map[string]string `json:"inputs"` // name -> hex / decimal
	Choices map[string]int    `json:"choices"`
	// Fns: for every uninterpreted function (zzverif.Fn) the argument/result pairs of the model, hex encoded; the
	// native zzverif.Fn returns these results, so that harness hooks can impose the model's verdicts on the real code
	Fns    map[string][][2]string `json:"fns,omitempty"`
	Pos    string                 `json:"pos,omitempty"`
	Path   string                 `json:"path,omitempty"`
	weight int
}

// modelFns evaluates the argument and result bytes of every zzverif.Fn application under the model.
func (r *Run) modelFns(m map[string]uint64) map[string][][2]string {
	var out map[string][][2]string
	memo := map[int]uint64{}
	eval := func(ts []*Term) (string, bool) {
		b := make([]byte, len(ts))
		for i, t := range ts {
			v, ok := evalTerm(t, m, memo)
			if !ok {
				return "", false
			}
			b[i] = byte(v)
		}
		return hex.EncodeToString(b), true
	}
	for _, d := range r.digests {
		if !strings.HasPrefix(d.alg, "fn:") {
			continue
		}
		in, ok1 := eval(d.stream)
		res, ok2 := eval(d.out)
		if !ok1 || !ok2 {
			continue
		}
		name := d.alg[3:strings.LastIndex(d.alg, ":")]
		if out == nil {
			out = map[string][][2]string{}
		}
		out[name] = append(out[name], [2]string{in, res})
	}
	return out
}

type inputVar struct {
	name string
	kind string // bytes | uN | bool
	n    int    // byte count for bytes
	w    int
}

type Run struct {
	eng *Engine
	h   *HarnessRun
	ts  *TermStore

	prefix []Decision
	pos    int
	log    []Decision

	pc       []*Term
	sentPC   int
	emitted  map[int]bool
	declared map[string]bool
	sess     bool
	solver   *Solver

	frame      *Frame
	deferFrame *Frame
	curInstr   ssa.Instruction
	depth      int
	steps      int
	maxSteps   int
	unwind     int
	recovered  int

	objSeq  int
	mapSeq  int
	shadow  map[*Obj]*Obj
	mshadow map[*MapObj]*MapObj
	touched map[*ssa.Function]bool

	loopBound     map[string]int
	replace       map[*ssa.Function]Value
	inReplacement map[*ssa.Function]bool
	inputs        []inputVar
	choices       map[string]int
	nameCount     map[string]int
	knownCtx      string
	allocLimit    int
	allocCells    int
	symIndexFork  int
	sequentialised bool
	lazyGo        bool        // go statements are queued and run when the spawner blocks (zzverif.LazyGo)
	goQueue       []pendingGo
	cshadow       map[*ChanObj]*ChanObj

	mutex    map[string]int // ghost lock state keyed by object path
	hashes   map[*Obj]*hashGhost
	digests  []*digestRec
	intMode  *intModeT
	ghostVal map[string]Value
	events   []string

	queued int
	isInit bool
	noMerge bool
	merges  int
	linFacts int
	linRows  []*Term
	clock    []*Term
	lastPanic string
	bypass   map[*ssa.Function]bool
	tabulate map[*ssa.Function]bool
}

type intModeT struct{}

// HarnessRun is the shared state of all paths of one harness.
type HarnessRun struct {
	eng     *Engine
	name    string
	fn      *ssa.Function
	tier    int
	seed    int64

	mu         sync.Mutex
	work       [][]Decision
	active     int
	cond       *sync.Cond
	paths      int64
	outcomes   map[string]int
	outcomeMsg map[string]string
	violations map[string]*Violation // by label (first one kept) ; known ones keyed "known:<id>:<label>"
	reached    map[string]*Violation // Reach labels -> witness model
	touched    map[*ssa.Function]bool
	bounds     map[string]string
	stubs      map[string]bool
	assumptions map[string]bool
	asserts    map[string]int // label -> number of times checked
	assertsFolded map[string]int // label -> times the condition folded to true by the engine's normal forms (no solver query)
	steps      int64
	maxPaths   int64
	deadline   time.Time
	aborted    string
	sequentialised bool
	knownSeen  map[string]bool
	concretCap int64
}

func (r *Run) addPC(c *Term) {
	r.drainPending()
	if c.IsConst() {
		if c.k == 0 {
			panic(&pathEnd{kind: "infeasible", msg: "constant false constraint"})
		}
		return
	}
	r.ts.noteDomain(c)
	r.ts.noteConstEq(c)
	r.ts.refineFromFact(c)
	if c.op == OpEq && c.args[0].w > 0 {
		ok, contra := r.ts.noteEquality(c.args[0], c.args[1])
		if contra {
			panic(&pathEnd{kind: "infeasible", msg: "GF(2) system inconsistent"})
		}
		if !ok && r.linFacts > 0 {
			r.linRows = r.ts.rowTerms()
		}
		if ok {
			// kept out of the solver session: see query()
			r.linFacts++
			r.linRows = r.ts.rowTerms()
			return
		}
	}
	r.pc = append(r.pc, c)
}

// query decides satisfiability of PC ∧ c (c may be nil) and optionally returns a model.
// Without GF(2) facts this is one check-sat. With them (XOR systems stall bit-blasting solvers) it is
// decided in up to three solver steps: (A) PC without the linear rows — unsat there is unsat overall;
// (B) the free bits of A's model are kept, the pivot bits are computed from the solved rows and all
// of them are asserted together with the rows — sat there is a genuine model of the full PC;
// (C) the full query as a last resort.
func (r *Run) query(c *Term, wantModel bool, extra []*Term) (string, map[string]uint64) {
	r.drainPending()
	r.flush()
	if c != nil {
		if c.IsConst() && c.k == 0 {
			return "unsat", nil
		}
		r.emit(c)
	}
	for _, e := range extra {
		r.emit(e)
	}
	modelRefs := func() []string {
		var refs []string
		for _, v := range r.ts.vars {
			if r.declared[v.name] {
				refs = append(refs, v.ref())
			}
		}
		for _, e := range extra {
			if !e.IsConst() {
				refs = append(refs, e.ref())
			}
		}
		return refs
	}
	check := func(asserts []*Term, rawAsserts []string, refs []string) (string, map[string]uint64) {
		if oneShot {
			// fresh context per query: lets z3 use its non-incremental bit-vector pipeline
			r.solver.Send("(reset)")
			r.solver.Send(fmt.Sprintf("(set-option :timeout %d)", r.solver.timeMs))
			r.emitted = map[int]bool{}
			r.declared = map[string]bool{}
			r.sentPC = 0
			r.sess = false
			for _, pc := range r.pc {
				r.emit(pc)
				r.solver.Send("(assert " + pc.ref() + ")")
			}
			r.sentPC = len(r.pc)
			if c != nil {
				r.emit(c)
			}
			for _, e := range extra {
				r.emit(e)
			}
		}
		for _, a := range asserts {
			r.emit(a)
		}
		if !oneShot {
			r.solver.Send("(push 1)")
		}
		if c != nil && !c.IsConst() {
			r.solver.Send("(assert " + c.ref() + ")")
		}
		for _, a := range asserts {
			r.solver.Send("(assert " + a.ref() + ")")
		}
		for _, a := range rawAsserts {
			r.solver.Send(a)
		}
		res := r.solver.CheckSat()
		var m map[string]uint64
		if res == "sat" && len(refs) > 0 {
			vals, ok := r.solver.GetValues(refs)
			if ok {
				m = vals
			} else {
				res = "unknown"
			}
		}
		if !oneShot {
			r.solver.Send("(pop 1)")
		}
		if res == "dead" {
			panic(&pathEnd{kind: "solver-timeout", msg: "solver exceeded the hard time limit at " + r.curPos()})
		}
		return res, m
	}
	if len(r.linRows) == 0 {
		var refs []string
		if wantModel {
			refs = modelRefs()
		}
		return check(nil, nil, refs)
	}
	// phase A
	free, pivots := r.ts.linAtoms()
	var atomTerms []*Term
	var refsA []string
	for _, a := range free {
		t := r.ts.atomBitTerm(a)
		r.emit(t)
		atomTerms = append(atomTerms, t)
		refsA = append(refsA, t.ref())
	}
	lc := r.ts.lin()
	lit := func(t *Term, v bool) string {
		b := "#b0"
		if v {
			b = "#b1"
		}
		return "(= " + t.ref() + " " + b + ")"
	}
	var pivTerms []*Term
	for _, p := range pivots {
		t := r.ts.atomBitTerm(p)
		r.emit(t)
		pivTerms = append(pivTerms, t)
	}
	var refs []string
	if wantModel {
		refs = modelRefs()
	}
	var blocks []string
	for attempt := 0; attempt < 6; attempt++ {
		tA := time.Now()
		resA, mA := check(nil, blocks, refsA)
		if os.Getenv("GOSYM_SLOWQ") != "" {
			fmt.Fprintf(os.Stderr, "[phaseA] %.2fs %s free=%d pivots=%d at %s\n", time.Since(tA).Seconds(), resA, len(free), len(pivots), r.curPos())
		}
		if resA != "sat" {
			if attempt == 0 {
				return resA, nil
			}
			break // every remaining free assignment is excluded or unknown: fall back to the full query
		}
		// phase B
		val := map[int32]bool{}
		var raw []string
		var blk []string
		for i, a := range free {
			val[a] = mA[refsA[i]] != 0
			raw = append(raw, "(assert "+lit(atomTerms[i], val[a])+")")
			blk = append(blk, lit(atomTerms[i], val[a]))
		}
		for i, p := range pivots {
			row := lc.rows[p]
			v := row.c
			for _, a := range row.atoms {
				if val[a] {
					v = !v
				}
			}
			raw = append(raw, "(assert "+lit(pivTerms[i], v)+")")
		}
		tB := time.Now()
		resB, mB := check(r.linRows, raw, refs)
		if os.Getenv("GOSYM_SLOWQ") != "" {
			fmt.Fprintf(os.Stderr, "[phaseB] %.2fs %s\n", time.Since(tB).Seconds(), resB)
		}
		if resB == "sat" {
			return "sat", mB
		}
		if len(blk) == 0 {
			break
		}
		blocks = append(blocks, "(assert (not (and "+strings.Join(blk, " ")+")))")
	}
	// phase C
	resC, mC := check(r.linRows, nil, refs)
	return resC, mC
}

// ----- solver session -----------------------------------------------------------------------

var oneShot bool

func (r *Run) ensureSession() {
	if oneShot {
		return
	}
	if !r.sess {
		r.solver.Send("(push 1)")
		r.sess = true
	}
}

func (r *Run) endSession() {
	if r.sess {
		r.solver.Send("(pop 1)")
		r.sess = false
	}
}

func (r *Run) emit(t *Term) {
	switch t.op {
	case OpConst:
		return
	case OpVar:
		if !r.declared[t.name] {
			r.declared[t.name] = true
			r.solver.Send(fmt.Sprintf("(declare-const |%s| %s)", t.name, sortStr(t.w)))
		}
		return
	}
	if r.emitted[t.id] {
		return
	}
	// iterative post-order to avoid deep recursion on long chains
	type item struct {
		t *Term
		i int
	}
	stack := []item{{t, 0}}
	for len(stack) > 0 {
		top := &stack[len(stack)-1]
		if top.i < len(top.t.args) {
			a := top.t.args[top.i]
			top.i++
			switch a.op {
			case OpConst:
			case OpVar:
				if !r.declared[a.name] {
					r.declared[a.name] = true
					r.solver.Send(fmt.Sprintf("(declare-const |%s| %s)", a.name, sortStr(a.w)))
				}
			default:
				if !r.emitted[a.id] {
					stack = append(stack, item{a, 0})
				}
			}
			continue
		}
		x := top.t
		stack = stack[:len(stack)-1]
		if r.emitted[x.id] {
			continue
		}
		r.emitted[x.id] = true
		if x.op == OpUF {
			if !r.declared["uf:"+x.name] {
				r.declared["uf:"+x.name] = true
				r.solver.Send(r.ts.ufs[x.name])
			}
		}
		r.solver.Send(fmt.Sprintf("(define-fun t%d () %s %s)", x.id, sortStr(x.w), x.body()))
	}
}

func (r *Run) flush() {
	if oneShot {
		return
	}
	r.ensureSession()
	for r.sentPC < len(r.pc) {
		c := r.pc[r.sentPC]
		r.sentPC++
		r.emit(c)
		r.solver.Send("(assert " + c.ref() + ")")
	}
}

// feasible asks whether PC ∧ c is satisfiable. unknown counts as feasible.
func (r *Run) feasible(c *Term) bool {
	if c.IsConst() {
		return c.k != 0
	}
	if r.solver.trace != nil {
		r.solver.Send("; feasibility at " + r.curPos())
	}
	tq := time.Now()
	res, _ := r.query(c, false, nil)
	if d := time.Since(tq); d > 2*time.Second && os.Getenv("GOSYM_SLOWQ") != "" {
		extra := ""
		for _, a := range c.args {
			for _, b := range append([]*Term{a}, a.args...) {
				if b.w == IntW && !b.IsConst() {
					extra += fmt.Sprintf(" [%s in %s..%s]", b.ref(), b.lo.String(), b.hi.String())
				}
			}
		}
		fmt.Fprintf(os.Stderr, "[slowq] %.1fs %s at %s cond=%.300s%.300s choices=%v\n", d.Seconds(), res, r.curPos(), c.String(), extra, r.choices)
	}
	if res == "unknown" {
		r.h.noteOutcomeMsg("solver-unknown", r.curPos())
	}
	return res != "unsat"
}

// model asks for a model of PC ∧ c; returns nil if unsat/unknown.
func (r *Run) model(c *Term, extra []*Term) (map[string]uint64, string) {
	res, m := r.query(c, true, extra)
	return m, res
}

// ----- decisions ----------------------------------------------------------------------------

func (r *Run) branch(c *Term) bool {
	if c.IsConst() {
		return c.k != 0
	}
	c = r.ts.norm(c)
	if c.IsConst() {
		return c.k != 0
	}
	ts := r.ts
	if os.Getenv("GOSYM_PATHS") != "" {
		fmt.Fprintf(os.Stderr, "[dec] pos=%d replay=%v at %s cond=%.150s\n", r.pos, r.pos < len(r.prefix), r.curPos(), c.String())
	}
	if r.pos < len(r.prefix) {
		d := r.prefix[r.pos]
		if d.Kind != 'b' {
			panic(fmt.Sprintf("engine: replay mismatch at %d: expected branch, log has %c (%s)", r.pos, d.Kind, r.curPos()))
		}
		r.pos++
		r.log = append(r.log, d)
		if d.V != 0 {
			r.addPC(c)
		} else {
			r.addPC(ts.BNot(c))
		}
		return d.V != 0
	}
	take := true
	if structured, eqOK := ts.linBranch(c); structured {
		// XOR-structured (dis)equality: decided by linear algebra, both sides kept when consistent
		eqSide := c.op != OpBNot // true when "c true" is the equality side
		r.h.noteAssumption("branches on XOR-structured equalities (checksums) are not pruned by the solver: consistency is decided by GF(2) elimination and both sides are explored")
		if !eqOK {
			take = !eqSide
		} else {
			alt := make([]Decision, len(r.log)+1)
			copy(alt, r.log)
			alt[len(r.log)] = Decision{'b', 0}
			r.h.push(alt)
			r.queued++
		}
	} else if !r.feasible(c) {
		take = false
	} else if r.feasible(ts.BNot(c)) {
		alt := make([]Decision, len(r.log)+1)
		copy(alt, r.log)
		alt[len(r.log)] = Decision{'b', 0}
		r.h.push(alt)
		r.queued++
	}
	r.pos++
	if take {
		r.log = append(r.log, Decision{'b', 1})
		r.addPC(c)
	} else {
		r.log = append(r.log, Decision{'b', 0})
		r.addPC(ts.BNot(c))
	}
	return take
}

// assertBranch decides whether ¬cond (a violation) is feasible, keeping the witness model.
func (r *Run) assertBranch(notc *Term) (bool, map[string]uint64) {
	if notc.IsConst() {
		return notc.k != 0, nil
	}
	notc = r.ts.norm(notc)
	if notc.IsConst() {
		return notc.k != 0, nil
	}
	if r.pos < len(r.prefix) {
		return r.branch(notc), nil
	}
	res, m := r.query(notc, true, nil)
	if res == "unknown" {
		r.h.noteOutcomeMsg("solver-unknown", r.curPos())
		if os.Getenv("GOSYM_SLOWQ") != "" {
			fmt.Fprintf(os.Stderr, "[assert-unknown] at %s path=%s notc=%.1500s\n", r.curPos(), r.pathString(), notc.String())
		}
	}
	if res == "sat" && r.ts.abstracted {
		// the model was found under the product abstraction: look for one that respects the real products
		if m2 := r.refineProducts(notc); m2 != nil {
			m = m2
		}
	}
	viol := res != "unsat"
	if viol {
		// the non-violating side continues on another path when feasible
		if r.feasible(r.ts.BNot(notc)) {
			alt := make([]Decision, len(r.log)+1)
			copy(alt, r.log)
			alt[len(r.log)] = Decision{'b', 0}
			r.h.push(alt)
			r.queued++
		}
		r.pos++
		r.log = append(r.log, Decision{'b', 1})
		r.addPC(notc)
		return true, m
	}
	r.pos++
	r.log = append(r.log, Decision{'b', 0})
	r.addPC(r.ts.BNot(notc))
	return false, nil
}

// refineProducts re-asks the query with every abstracted product tied to its factors (non-linear
// integer arithmetic); returns a model if the solver finds one within the time limit.
func (r *Run) refineProducts(c *Term) map[string]uint64 {
	r.flush()
	r.emit(c)
	for _, d := range r.ts.monoDefs {
		r.emit(d[0])
		r.emit(d[1])
		r.emit(d[2])
	}
	r.solver.Send("(push 1)")
	r.solver.Send("(assert " + c.ref() + ")")
	for _, d := range r.ts.monoDefs {
		r.solver.Send(fmt.Sprintf("(assert (= %s (* %s %s)))", d[0].ref(), d[1].ref(), d[2].ref()))
	}
	res := r.solver.CheckSat()
	var m map[string]uint64
	if res == "sat" {
		var refs []string
		for _, v := range r.ts.vars {
			if r.declared[v.name] {
				refs = append(refs, v.ref())
			}
		}
		if vals, ok := r.solver.GetValues(refs); ok {
			m = vals
		}
	}
	if res == "dead" {
		return nil
	}
	r.solver.Send("(pop 1)")
	return m
}

// recordViolation stores a violation with an already known model.
func (r *Run) recordViolation(label, msg string, m map[string]uint64) {
	key := label
	if r.knownCtx != "" {
		key = "known:" + r.knownCtx + ":" + label
	}
	if r.lastPanic != "" {
		msg += " (last Go panic on this path: " + r.lastPanic + ")"
	}
	v := &Violation{Harness: r.h.name, Label: label, Msg: msg, Known: r.knownCtx, Inputs: r.modelInputs(m), Choices: copyChoices(r.choices), Fns: r.modelFns(m), Pos: r.curPos(), Path: r.pathString()}
	r.h.mu.Lock()
	if _, have := r.h.violations[key]; !have {
		r.h.violations[key] = v
	}
	r.h.mu.Unlock()
}

// branchMonitor is like branch but the "true" side is only explored by the caller for reporting.
func (r *Run) branchMonitor(c *Term, what string) bool { return r.branch(c) }

const concretizeCap = 300

func (r *Run) concretize(t *Term, what string) uint64 {
	if t.IsConst() {
		return t.k
	}
	t = r.ts.norm(t)
	if t.IsConst() {
		return t.k
	}
	ts := r.ts
	if r.pos < len(r.prefix) {
		d := r.prefix[r.pos]
		if d.Kind != 'v' {
			panic(fmt.Sprintf("engine: replay mismatch at %d: expected value, log has %c (%s)", r.pos, d.Kind, r.curPos()))
		}
		r.pos++
		r.log = append(r.log, d)
		r.addPC(ts.Eq(t, r.constLike(t, d.V)))
		return d.V
	}
	// enumerate feasible values
	if oneShot {
		r.solver.Send("(reset)")
		r.solver.Send(fmt.Sprintf("(set-option :timeout %d)", r.solver.timeMs))
		r.emitted = map[int]bool{}
		r.declared = map[string]bool{}
		for _, pc := range r.pc {
			r.emit(pc)
			r.solver.Send("(assert " + pc.ref() + ")")
		}
		for _, row := range r.linRows {
			r.emit(row)
			r.solver.Send("(assert " + row.ref() + ")")
		}
	}
	r.flush()
	r.emit(t)
	r.solver.Send("(push 1)")
	var vals []uint64
	capHit := false
	// model values are read for the input variables only and the term is evaluated by the engine
	// (get-value of a defined term is pathologically slow in z3 when thousands of definitions exist)
	var sv []*Term
	supportVars(t, map[int]bool{}, &sv)
	evaluable := true
	var svRefs []string
	for _, v := range sv {
		svRefs = append(svRefs, v.ref())
	}
	for {
		res := r.solver.CheckSat()
		if res == "dead" {
			panic(&pathEnd{kind: "solver-timeout", msg: "solver exceeded the hard time limit (concretise) at " + r.curPos()})
		}
		if res != "sat" {
			if res == "unknown" && len(vals) == 0 {
				r.solver.Send("(pop 1)")
				panic(&pathEnd{kind: "unsupported", msg: "solver unknown while concretising " + what + " at " + r.curPos()})
			}
			break
		}
		var v uint64
		got := false
		if evaluable && len(svRefs) > 0 {
			m, ok := r.solver.GetValues(svRefs)
			if ok {
				if ev, ok2 := evalTerm(t, m, map[int]uint64{}); ok2 {
					v, got = ev, true
				} else {
					evaluable = false
				}
			}
		}
		if !got {
			m, ok := r.solver.GetValues([]string{t.ref()})
			if !ok {
				break
			}
			v = m[t.ref()]
		}
		vals = append(vals, v)
		if len(vals) >= concretizeCap {
			capHit = true
			break
		}
		r.solver.Send(fmt.Sprintf("(assert (not (= %s %s)))", t.ref(), r.constLike(t, v).ref()))
	}
	r.solver.Send("(pop 1)")
	if capHit {
		atomic.AddInt64(&r.h.concretCap, 1)
		panic(&pathEnd{kind: "concretize-cap", msg: fmt.Sprintf("%s at %s has more than %d feasible values", what, r.curPos(), concretizeCap)})
	}
	if len(vals) == 0 {
		panic(&pathEnd{kind: "infeasible", msg: "no value for " + what})
	}
	sort.Slice(vals, func(i, j int) bool { return vals[i] < vals[j] })
	for i := len(vals) - 1; i >= 1; i-- {
		alt := make([]Decision, len(r.log)+1)
		copy(alt, r.log)
		alt[len(r.log)] = Decision{'v', vals[i]}
		r.h.push(alt)
		r.queued++
	}
	r.pos++
	r.log = append(r.log, Decision{'v', vals[0]})
	r.addPC(ts.Eq(t, r.constLike(t, vals[0])))
	return vals[0]
}

// constLike builds the constant v of the same sort as t (Int: v is a two's-complement int64).
func (r *Run) constLike(t *Term, v uint64) *Term {
	if t.w == IntW {
		return r.ts.IConst64(int64(v))
	}
	return r.ts.Const(t.w, v)
}

// choose picks a value in [0,n) without involving the solver; all alternatives are queued.
func (r *Run) choose(n int) int {
	if n <= 1 {
		return 0
	}
	if r.pos < len(r.prefix) {
		d := r.prefix[r.pos]
		if d.Kind != 'c' {
			panic(fmt.Sprintf("engine: replay mismatch at %d: expected choice, log has %c (%s)", r.pos, d.Kind, r.curPos()))
		}
		r.pos++
		r.log = append(r.log, d)
		return int(d.V)
	}
	for i := n - 1; i >= 1; i-- {
		alt := make([]Decision, len(r.log)+1)
		copy(alt, r.log)
		alt[len(r.log)] = Decision{'c', uint64(i)}
		r.h.push(alt)
		r.queued++
	}
	r.pos++
	r.log = append(r.log, Decision{'c', 0})
	return 0
}

// ----- inputs, violations --------------------------------------------------------------------

func (r *Run) uniqueName(name string) string {
	n := r.nameCount[name]
	r.nameCount[name] = n + 1
	if n == 0 {
		return name
	}
	return fmt.Sprintf("%s#%d", name, n)
}

func (r *Run) modelInputs(m map[string]uint64) map[string]string {
	out := map[string]string{}
	for _, in := range r.inputs {
		switch in.kind {
		case "bytes":
			var sb strings.Builder
			for i := 0; i < in.n; i++ {
				v := m[fmt.Sprintf("|%s[%d]|", in.name, i)]
				fmt.Fprintf(&sb, "%02x", v&0xff)
			}
			out[in.name] = sb.String()
		default:
			out[in.name] = fmt.Sprintf("%d", m["|"+in.name+"|"])
		}
	}
	return out
}

func (r *Run) pathString() string {
	var sb strings.Builder
	for _, d := range r.log {
		switch d.Kind {
		case 'b':
			if d.V != 0 {
				sb.WriteByte('1')
			} else {
				sb.WriteByte('0')
			}
		default:
			fmt.Fprintf(&sb, "(%c%d)", d.Kind, d.V)
		}
	}
	return sb.String()
}

// violation records a violation on the current path with a model of the current PC (∧ cond).
func (r *Run) violationCond(label, msg string, cond *Term) bool {
	return r.violationCondW(label, msg, cond, 0)
}

// violationCondW: a witness of higher weight replaces an earlier one for the same label.
func (r *Run) violationCondW(label, msg string, cond *Term, weight int) bool {
	key := label
	if r.knownCtx != "" {
		key = "known:" + r.knownCtx + ":" + label
	}
	r.h.mu.Lock()
	old, have := r.h.violations[key]
	r.h.mu.Unlock()
	if have && old.weight >= weight {
		return true
	}
	m, res := r.model(cond, nil)
	if res != "sat" {
		if res == "unknown" {
			r.h.noteOutcomeMsg("solver-unknown", "model for violation "+label)
		}
		return false
	}
	if r.lastPanic != "" {
		msg += " (last Go panic on this path: " + r.lastPanic + ")"
	}
	v := &Violation{Harness: r.h.name, Label: label, Msg: msg, Known: r.knownCtx, Inputs: r.modelInputs(m), Choices: copyChoices(r.choices), Fns: r.modelFns(m), Pos: r.curPos(), Path: r.pathString()}
	v.weight = weight
	r.h.mu.Lock()
	if old, have := r.h.violations[key]; !have || old.weight < weight {
		r.h.violations[key] = v
	}
	r.h.mu.Unlock()
	return true
}

func (r *Run) violation(label, msg string) { r.violationCond(label, msg, nil) }

func copyChoices(m map[string]int) map[string]int {
	o := map[string]int{}
	for k, v := range m {
		o[k] = v
	}
	return o
}

func (h *HarnessRun) noteOutcomeMsg(kind, msg string) {
	h.mu.Lock()
	if _, ok := h.outcomeMsg[kind]; !ok {
		h.outcomeMsg[kind] = msg
	}
	h.outcomes[kind+"-events"]++
	h.mu.Unlock()
}

// ----- work list -----------------------------------------------------------------------------

func (h *HarnessRun) push(p []Decision) {
	h.mu.Lock()
	h.work = append(h.work, p)
	h.mu.Unlock()
	h.cond.Signal()
}

func (h *HarnessRun) pop() ([]Decision, bool) {
	h.mu.Lock()
	defer h.mu.Unlock()
	for {
		if h.aborted != "" {
			return nil, false
		}
		if n := len(h.work); n > 0 {
			p := h.work[n-1]
			h.work = h.work[:n-1]
			h.active++
			return p, true
		}
		if h.active == 0 {
			h.cond.Broadcast()
			return nil, false
		}
		h.cond.Wait()
	}
}

func (h *HarnessRun) done() {
	h.mu.Lock()
	h.active--
	if h.active == 0 && len(h.work) == 0 {
		h.cond.Broadcast()
	}
	h.mu.Unlock()
}

func (h *HarnessRun) worker(id int, solverKind string, timeoutMs int) {
	sv, err := NewSolver(solverKind, timeoutMs)
	if err != nil {
		h.mu.Lock()
		h.aborted = "solver start: " + err.Error()
		h.mu.Unlock()
		h.cond.Broadcast()
		return
	}
	defer sv.Close()
	if traceSolver != nil && id == 0 {
		sv.trace = traceSolver
	}
	for {
		p, ok := h.pop()
		if !ok {
			return
		}
		h.runPath(sv, p)
		if sv.dead {
			sv.Close()
			nsv, err := NewSolver(solverKind, timeoutMs)
			if err == nil {
				if sv.trace != nil {
					nsv.trace = sv.trace
				}
				sv = nsv
			}
		}
		h.done()
		n := atomic.AddInt64(&h.paths, 1)
		if n >= h.maxPaths || time.Now().After(h.deadline) {
			h.mu.Lock()
			if h.aborted == "" && (len(h.work) > 0 || h.active > 0) {
				if n >= h.maxPaths {
					h.aborted = fmt.Sprintf("path budget %d exhausted", h.maxPaths)
				} else {
					h.aborted = "time budget exhausted"
				}
			}
			h.mu.Unlock()
			h.cond.Broadcast()
		}
	}
}

func (h *HarnessRun) runPath(sv *Solver, prefix []Decision) {
	r := &Run{
		eng: h.eng, h: h, ts: NewTermStore(), prefix: prefix, solver: sv,
		emitted: map[int]bool{}, declared: map[string]bool{},
		shadow: map[*Obj]*Obj{}, mshadow: map[*MapObj]*MapObj{}, touched: map[*ssa.Function]bool{},
		loopBound: map[string]int{}, replace: map[*ssa.Function]Value{}, inReplacement: map[*ssa.Function]bool{},
		choices: map[string]int{}, nameCount: map[string]int{},
		maxSteps: 3000000, unwind: 4096, allocLimit: 1 << 16, symIndexFork: 0,
		mutex: map[string]int{}, hashes: map[*Obj]*hashGhost{}, ghostVal: map[string]Value{},
		objSeq: 1 << 20, bypass: map[*ssa.Function]bool{}, tabulate: map[*ssa.Function]bool{},
	}
	outcome := "ok"
	msg := ""
	func() {
		defer func() {
			if e := recover(); e != nil {
				switch x := e.(type) {
				case *pathEnd:
					outcome, msg = x.kind, x.msg
					if outcome == "deadlock" || outcome == "unsupported" || outcome == "unwind" || outcome == "concretize-cap" {
						// a branch kept because its feasibility query came back unknown (a loaded machine) may be infeasible:
						// before such a path makes the run inconclusive, its path condition is decided once more
						func() {
							defer func() { recover() }()
							if _, res := r.model(nil, nil); res == "unsat" {
								outcome, msg = "infeasible", x.kind+" on an infeasible path: "+x.msg
							}
						}()
					}
				case *goPanicT:
					outcome, msg = "panic", x.msg+" at "+x.pos
					// a panic escaping the harness is a violation of the implicit no-crash assertion
					func() {
						defer func() {
							if e2 := recover(); e2 != nil {
								if pe, ok := e2.(*pathEnd); ok {
									outcome, msg = pe.kind, pe.msg
								} else {
									panic(e2)
								}
							}
						}()
						r.violation("panic", x.msg+" at "+x.pos)
					}()
				default:
					outcome = "engine-error"
					msg = fmt.Sprintf("%v at %s", e, r.curPos())
					if os.Getenv("GOSYM_STACK") != "" {
						fmt.Fprintf(os.Stderr, "[engine-error] %v\n%s\n", e, debug.Stack())
					}
					if debugEngine {
						panic(e)
					}
				}
			}
		}()
		r.callFunction(h.fn, nil, nil)
		for r.runOneQueued() {
		}
	}()
	r.endSession()
	if os.Getenv("GOSYM_PATHS") != "" {
		fmt.Fprintf(os.Stderr, "[path] %s %s %s queued=%d\n", outcome, r.pathString(), msg, r.queued)
	}
	h.mu.Lock()
	h.outcomes[outcome]++
	if msg != "" {
		if _, ok := h.outcomeMsg[outcome]; !ok {
			h.outcomeMsg[outcome] = msg
		}
	}
	for f := range r.touched {
		h.touched[f] = true
	}
	if r.sequentialised {
		h.sequentialised = true
	}
	h.steps += int64(r.steps)
	h.mu.Unlock()
}
