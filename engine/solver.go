package main

// One long-lived solver process per worker, spoken to in SMT-LIB2 text.

import (
	"bufio"
	"fmt"
	"math/big"
	"io"
	"os"
	"os/exec"
	"strings"
	"sync/atomic"
	"time"
)

type Solver struct {
	kind   string // z3 | z3-new | cvc5
	cmd    *exec.Cmd
	in     io.WriteCloser
	out    *bufio.Reader
	dead   bool
	trace  io.Writer
	sync   int
	timeMs int

	lastWasError bool
}

var (
	statQueries   int64
	statSolverNs  int64
	statUnknown   int64
	statSolverErr int64
	statRoundTripNs int64
	statSendNs    int64
	statRetried   int64
)

func NewSolver(kind string, timeoutMs int) (*Solver, error) {
	var cmd *exec.Cmd
	switch kind {
	case "z3":
		cmd = exec.Command("z3", "-in", "-smt2")
	case "z3-new":
		cmd = exec.Command("z3-new", "-in", "-smt2")
	case "cvc5":
		cmd = exec.Command("cvc5", "--incremental", "--lang=smt2", "--produce-models", fmt.Sprintf("--tlimit-per=%d", timeoutMs))
	default:
		return nil, fmt.Errorf("unknown solver %q", kind)
	}
	in, err := cmd.StdinPipe()
	if err != nil {
		return nil, err
	}
	out, err := cmd.StdoutPipe()
	if err != nil {
		return nil, err
	}
	cmd.Stderr = cmd.Stdout
	if err := cmd.Start(); err != nil {
		return nil, err
	}
	s := &Solver{kind: kind, cmd: cmd, in: in, out: bufio.NewReaderSize(out, 1<<16), timeMs: timeoutMs}
	if kind != "cvc5" {
		s.Send(fmt.Sprintf("(set-option :timeout %d)", timeoutMs))
	} else {
		s.Send("(set-logic ALL)")
	}
	s.Send("(set-option :produce-models true)")
	return s, nil
}

func (s *Solver) SetTimeout(ms int) {
	if s.kind != "cvc5" && ms != s.timeMs {
		s.timeMs = ms
		s.Send(fmt.Sprintf("(set-option :timeout %d)", ms))
	}
}

func (s *Solver) Send(line string) {
	if s.dead {
		return
	}
	if s.trace != nil {
		io.WriteString(s.trace, line+"\n")
	}
	t0 := time.Now()
	if _, err := io.WriteString(s.in, line+"\n"); err != nil {
		s.dead = true
	}
	atomic.AddInt64(&statSendNs, int64(time.Since(t0)))
}

// roundTrip sends cmd followed by an echo marker and returns everything printed before the marker.
func (s *Solver) roundTrip(cmd string) []string {
	t0 := time.Now()
	defer func() { atomic.AddInt64(&statRoundTripNs, int64(time.Since(t0))) }()
	s.sync++
	marker := fmt.Sprintf("sync-%d", s.sync)
	s.Send(cmd)
	s.Send(fmt.Sprintf("(echo \"%s\")", marker))
	var lines []string
	for {
		l, err := s.out.ReadString('\n')
		if err != nil {
			s.dead = true
			return append(lines, "(error \"solver died\")")
		}
		l = strings.TrimSpace(l)
		if l == marker || l == "\""+marker+"\"" {
			return lines
		}
		if l != "" {
			lines = append(lines, l)
		}
	}
}

// CheckSat returns "sat", "unsat" or "unknown" (errors count as unknown). An "unknown" that is a plain time-out is
// retried once with four times the budget (a loaded machine must not turn a decided query into an inconclusive run).
func (s *Solver) CheckSat() string {
	res := s.checkSatOnce()
	if res == "unknown" && !s.dead && !s.lastWasError && s.kind != "cvc5" {
		base := s.timeMs
		s.SetTimeout(base * 4)
		res = s.checkSatOnce()
		s.SetTimeout(base)
		atomic.AddInt64(&statRetried, 1)
	}
	if res == "unknown" {
		atomic.AddInt64(&statUnknown, 1)
	}
	return res
}

func (s *Solver) checkSatOnce() string {
	s.lastWasError = false
	t0 := time.Now()
	// hard wall-clock limit: z3's own :timeout is not honoured inside some tactics
	hard := time.Duration(s.timeMs)*time.Millisecond*3 + 5*time.Second
	killer := time.AfterFunc(hard, func() {
		if s.cmd != nil && s.cmd.Process != nil {
			s.cmd.Process.Kill()
		}
	})
	lines := s.roundTrip("(check-sat)")
	killer.Stop()
	if s.dead {
		atomic.AddInt64(&statSolverNs, int64(time.Since(t0)))
		atomic.AddInt64(&statQueries, 1)
		atomic.AddInt64(&statUnknown, 1)
		return "dead"
	}
	atomic.AddInt64(&statSolverNs, int64(time.Since(t0)))
	atomic.AddInt64(&statQueries, 1)
	res := "unknown"
	for _, l := range lines {
		if strings.HasPrefix(l, "(error") {
			s.lastWasError = true
			atomic.AddInt64(&statSolverErr, 1)
			if s.trace != nil {
				io.WriteString(s.trace, "; ERROR "+l+"\n")
			}
			return "unknown"
		}
		if l == "sat" || l == "unsat" || l == "unknown" {
			res = l
		}
	}
	return res
}

// GetValues asks for model values of the given BV/Bool terms (by reference name).
func (s *Solver) GetValues(refs []string) (map[string]uint64, bool) {
	res := map[string]uint64{}
	if len(refs) == 0 {
		return res, true
	}
	const chunk = 200
	tgv := time.Now()
	defer func() {
		if d := time.Since(tgv); d > time.Second {
			fmt.Fprintf(os.Stderr, "[slow get-value] %.1fs for %d refs (%s...)\n", d.Seconds(), len(refs), refs[0])
		}
	}()
	for i := 0; i < len(refs); i += chunk {
		j := i + chunk
		if j > len(refs) {
			j = len(refs)
		}
		lines := s.roundTrip("(get-value (" + strings.Join(refs[i:j], " ") + "))")
		txt := strings.Join(lines, " ")
		if strings.Contains(txt, "(error") {
			return res, false
		}
		parseValues(txt, res)
	}
	return res, true
}

// parseValues parses "((name val) (name val) ...)" with val in #x.., #b.., (_ bvN w), true/false.
func parseValues(txt string, res map[string]uint64) {
	i := 0
	n := len(txt)
	skip := func() {
		for i < n && (txt[i] == ' ' || txt[i] == '\n' || txt[i] == '\t') {
			i++
		}
	}
	readTok := func() string {
		skip()
		if i >= n {
			return ""
		}
		if txt[i] == '|' {
			j := i + 1
			for j < n && txt[j] != '|' {
				j++
			}
			t := txt[i : j+1]
			i = j + 1
			return t
		}
		j := i
		for j < n && txt[j] != ' ' && txt[j] != ')' && txt[j] != '(' {
			j++
		}
		t := txt[i:j]
		i = j
		return t
	}
	skip()
	if i < n && txt[i] == '(' {
		i++
	}
	for {
		skip()
		if i >= n || txt[i] == ')' {
			return
		}
		if txt[i] != '(' {
			return
		}
		i++
		name := readTok()
		skip()
		var val uint64
		if i < n && txt[i] == '(' {
			// (_ bvN w)  or  (- N)
			i++
			first := readTok()
			if first == "-" {
				num := readTok()
				skip()
				if i < n && txt[i] == ')' {
					i++
				}
				bi, ok := new(big.Int).SetString(num, 10)
				if ok {
					bi.Neg(bi)
					val = uint64(bi.Int64())
					if !bi.IsInt64() {
						val = new(big.Int).And(bi, new(big.Int).SetUint64(^uint64(0))).Uint64()
					}
				}
			} else {
				bv := readTok()
				readTok() // width
				skip()
				if i < n && txt[i] == ')' {
					i++
				}
				fmt.Sscanf(strings.TrimPrefix(bv, "bv"), "%d", &val)
			}
		} else {
			tok := readTok()
			switch {
			case tok == "true":
				val = 1
			case tok == "false":
				val = 0
			case strings.HasPrefix(tok, "#x"):
				fmt.Sscanf(tok[2:], "%x", &val)
			case strings.HasPrefix(tok, "#b"):
				for _, c := range tok[2:] {
					val = val<<1 | uint64(c-'0')
				}
			default:
				if bi, ok := new(big.Int).SetString(tok, 10); ok {
					val = new(big.Int).And(bi, new(big.Int).SetUint64(^uint64(0))).Uint64()
				}
			}
		}
		skip()
		if i < n && txt[i] == ')' {
			i++
		}
		res[name] = val
	}
}

func (s *Solver) Close() {
	if s.cmd != nil {
		s.Send("(exit)")
		s.in.Close()
		done := make(chan struct{})
		go func() { s.cmd.Wait(); close(done) }()
		select {
		case <-done:
		case <-time.After(2 * time.Second):
			s.cmd.Process.Kill()
		}
	}
}
