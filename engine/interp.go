package main

// Forking symbolic interpreter over go/ssa.

import (
	"os"
	"fmt"
	"go/constant"
	"go/token"
	"go/types"
	"math/big"
	"regexp"
	"strings"
	"sync"

	"golang.org/x/tools/go/ssa"
)

// pathEnd is thrown (as a Go panic inside the engine) to terminate the current path.
type pathEnd struct {
	kind string // ok | cut-bound | cut-assume | unwind | unsupported | exit | infeasible | deadlock
	msg  string
}

func unsupported(msg string) *pathEnd { return &pathEnd{kind: "unsupported", msg: msg} }

// goPanicT is an interpreted Go panic travelling up the interpreted stack.
type goPanicT struct {
	val Value
	msg string
	pos string
}

type deferred struct {
	fn   Value // *FuncV
	args []Value
	call *ssa.CallCommon
}

type Frame struct {
	fn        *ssa.Function
	info      *funcInfo
	regs      []Value
	defers    []deferred
	visits    map[int]int
	panicking *goPanicT
	recovered bool
	caller    *Frame
	results   Value
	deferring bool
}

type funcInfo struct {
	index   map[ssa.Value]int
	n       int
	headers map[int]bool
	ipdom   []int
	name    string
	inRepo  bool
	pos     string
}

type Engine struct {
	prog      *ssa.Program
	fset      *token.FileSet
	globals   map[*ssa.Global]*Obj
	gmu       sync.Mutex
	finfo     sync.Map
	repoDir   string
	initStore *TermStore
	inInit    bool
	sizes     types.Sizes
	funcByName map[string]*ssa.Function
	icache       sync.Map
	tabCache     sync.Map
	knownOpen    map[string]bool
	initWarnings []string
}

// engineCall dispatches engine-defined bound functions (none yet beyond hashes handled by name).
func (r *Run) engineCall(fv *FuncV, args []Value) Value {
	panic(unsupported("engine function " + fv.name))
}

func (e *Engine) info(fn *ssa.Function) *funcInfo {
	if v, ok := e.finfo.Load(fn); ok {
		return v.(*funcInfo)
	}
	fi := &funcInfo{index: map[ssa.Value]int{}, headers: map[int]bool{}}
	n := 0
	for _, p := range fn.Params {
		fi.index[p] = n
		n++
	}
	for _, p := range fn.FreeVars {
		fi.index[p] = n
		n++
	}
	for _, b := range fn.Blocks {
		for _, ins := range b.Instrs {
			if v, ok := ins.(ssa.Value); ok {
				fi.index[v] = n
				n++
			}
		}
		for _, p := range b.Preds {
			if p.Index >= b.Index {
				fi.headers[b.Index] = true
			}
		}
	}
	fi.n = n
	fi.name = funcName(fn)
	if fn.Pos().IsValid() {
		ps := e.fset.Position(fn.Pos())
		fi.pos = fmt.Sprintf("%s:%d", ps.Filename, ps.Line)
		fi.inRepo = strings.HasPrefix(ps.Filename, e.repoDir+"/")
	} else if fn.Parent() != nil {
		pi := e.info(fn.Parent())
		fi.inRepo = pi.inRepo
		fi.pos = pi.pos
	}
	v, _ := e.finfo.LoadOrStore(fn, fi)
	return v.(*funcInfo)
}

var pathPrefixRe = regexp.MustCompile(`(?:[A-Za-z0-9_.\-]+/)+`)

// funcName gives a stable short name: "btc.NewTx", "(*btc.Tx).Serialize", "btc.NewTx$1"
func funcName(fn *ssa.Function) string {
	return pathPrefixRe.ReplaceAllString(fn.String(), "")
}

func (r *Run) goPanic(msg string) {
	r.lastPanic = msg + " at " + r.curPos()
	if os.Getenv("GOSYM_GOSTACK") != "" {
		fmt.Fprintf(os.Stderr, "[go panic] %s\n", r.lastPanic)
		for f := r.frame; f != nil; f = f.caller {
			fmt.Fprintf(os.Stderr, "    %s\n", f.info.name)
		}
	}
	panic(&goPanicT{val: &IfaceV{typ: types.Typ[types.String], val: r.constStr(msg)}, msg: msg, pos: r.curPos()})
}

func describePanic(e interface{}) string {
	switch v := e.(type) {
	case *pathEnd:
		return v.kind + ": " + v.msg
	case *goPanicT:
		return "panic: " + v.msg + " at " + v.pos
	}
	return fmt.Sprint(e)
}

func (r *Run) curPos() string {
	if r.curInstr != nil && r.curInstr.Pos().IsValid() {
		p := r.eng.fset.Position(r.curInstr.Pos())
		return fmt.Sprintf("%s:%d", strings.TrimPrefix(p.Filename, r.eng.repoDir+"/"), p.Line)
	}
	if r.frame != nil {
		return r.frame.info.name
	}
	return "?"
}

// ---------------------------------------------------------------------------------------------

func (r *Run) get(fr *Frame, v ssa.Value) Value {
	switch x := v.(type) {
	case *ssa.Const:
		return r.constVal(x)
	case *ssa.Global:
		return &PtrV{obj: r.eng.globalObj(r, x)}
	case *ssa.Function:
		return &FuncV{fn: x}
	case *ssa.Builtin:
		return &FuncV{builtin: x}
	}
	i, ok := fr.info.index[v]
	if !ok {
		panic(fmt.Sprintf("engine: no register for %v in %s", v, fr.fn))
	}
	return fr.regs[i]
}

func (e *Engine) globalObj(r *Run, g *ssa.Global) *Obj {
	e.gmu.Lock()
	defer e.gmu.Unlock()
	o, ok := e.globals[g]
	if !ok {
		// zero-initialised global (created lazily; frozen unless we are still in init)
		et := g.Type().(*types.Pointer).Elem()
		zr := r
		if !e.inInit {
			zr = &Run{eng: e, ts: e.initStore}
		}
		o = &Obj{id: -len(e.globals) - 1, val: zr.zero(et), typ: et, label: g.String(), frozen: !e.inInit}
		e.globals[g] = o
	}
	return o
}

func (r *Run) constVal(c *ssa.Const) Value {
	t := c.Type()
	if c.Value == nil {
		return r.zero(t)
	}
	switch u := t.Underlying().(type) {
	case *types.Basic:
		switch {
		case u.Info()&types.IsBoolean != 0:
			return r.ts.Bool(constant.BoolVal(c.Value))
		case u.Info()&types.IsInteger != 0:
			w := r.eng.width(t)
			if r.ts.intMode {
				bv, _ := new(big.Int).SetString(constant.ToInt(c.Value).ExactString(), 10)
				return r.ts.IConst(bv)
			}
			if v, ok := constant.Uint64Val(constant.ToInt(c.Value)); ok {
				return r.ts.Const(w, v)
			}
			v, _ := constant.Int64Val(constant.ToInt(c.Value))
			return r.ts.Const(w, uint64(v))
		case u.Info()&types.IsFloat != 0:
			f, _ := constant.Float64Val(c.Value)
			return FloatV(f)
		case u.Info()&types.IsString != 0:
			return r.constStr(constant.StringVal(c.Value))
		}
	case *types.Struct, *types.Array:
		return r.zero(t)
	}
	// type parameters etc.
	if c.Value.Kind() == constant.Int {
		if v, ok := constant.Int64Val(c.Value); ok {
			w := r.eng.width(t)
			if w > 0 {
				return r.ts.Const(w, uint64(v))
			}
		}
	}
	panic(unsupported(fmt.Sprintf("constant %v of type %v", c, t)))
}

func (r *Run) set(fr *Frame, v ssa.Value, val Value) {
	fr.regs[fr.info.index[v]] = val
}

// callFunction runs an SSA function to completion (handling interpreted panics/defers).
func (r *Run) callFunction(fn *ssa.Function, args []Value, bindings []Value) (ret Value) {
	if r.isInit && fn.Synthetic == "package initializer" && r.depth > 0 {
		return nil // initialisers are run by the engine in dependency order
	}
	if rep, ok := r.replace[fn]; ok && !r.inReplacement[fn] {
		r.inReplacement[fn] = true
		defer func() { r.inReplacement[fn] = false }()
		return r.callValue(rep, args, nil)
	}
	if r.tabulate[fn] && len(args) == 1 {
		if t, ok := args[0].(*Term); ok && !t.IsConst() {
			return r.tabulated(fn, t)
		}
	}
	if fn.Blocks == nil {
		if h := r.eng.intrinsic(fn); h != nil {
			return h(r, fn, args)
		}
		panic(unsupported("call to function without body: " + fn.String() + " (called at " + r.curPos() + ")"))
	}
	if h := r.eng.intrinsic(fn); h != nil && !r.bypass[fn] {
		return h(r, fn, args)
	}
	info := r.eng.info(fn)
	if info.inRepo {
		r.touched[fn] = true
	}
	r.depth++
	if r.depth > 400 {
		panic(&pathEnd{kind: "unwind", msg: "call depth > 400 in " + info.name})
	}
	fr := &Frame{fn: fn, info: info, regs: make([]Value, info.n), caller: r.frame}
	saved := r.frame
	savedInstr := r.curInstr
	r.frame = fr
	n := 0
	for i := range fn.Params {
		if i < len(args) {
			fr.regs[n] = args[i]
		}
		n++
	}
	for i := range fn.FreeVars {
		fr.regs[n] = bindings[i]
		n++
	}
	defer func() {
		r.frame = saved
		r.curInstr = savedInstr
		r.depth--
	}()
	defer func() {
		if e := recover(); e != nil {
			gp, ok := e.(*goPanicT)
			if !ok {
				panic(e)
			}
			fr.panicking = gp
			r.frame = fr
			if r.lastPanic == "" {
				r.lastPanic = gp.msg + " at " + gp.pos
			}
			r.runDefers(fr)
			if fr.panicking != nil {
				panic(fr.panicking)
			}
			// recovered
			if fn.Recover != nil {
				ret = r.execFrom(fr, fn.Recover)
			} else {
				ret = r.zeroResults(fn)
			}
		}
	}()
	return r.execFrom(fr, fn.Blocks[0])
}

func (r *Run) zeroResults(fn *ssa.Function) Value {
	res := fn.Signature.Results()
	switch res.Len() {
	case 0:
		return nil
	case 1:
		return r.zero(res.At(0).Type())
	}
	return r.zero(res)
}

func (r *Run) runDefers(fr *Frame) {
	for len(fr.defers) > 0 {
		d := fr.defers[len(fr.defers)-1]
		fr.defers = fr.defers[:len(fr.defers)-1]
		func() {
			defer func() {
				if e := recover(); e != nil {
					gp, ok := e.(*goPanicT)
					if !ok {
						panic(e)
					}
					// a panic inside a deferred call replaces the current one
					fr.panicking = gp
				}
			}()
			saved := r.deferFrame
			r.deferFrame = fr
			defer func() { r.deferFrame = saved }()
			r.callValue(d.fn, d.args, d.call)
		}()
	}
}

func (r *Run) execFrom(fr *Frame, b *ssa.BasicBlock) Value {
	var prev *ssa.BasicBlock
	skipPhis := false
	for {
		// loop accounting
		if fr.info.headers[b.Index] && prev != nil && prev.Index >= b.Index {
			if fr.visits == nil {
				fr.visits = map[int]int{}
			}
			fr.visits[b.Index]++
			cnt := fr.visits[b.Index]
			if lb, ok := r.loopBound[fr.info.name]; ok && cnt > lb {
				panic(&pathEnd{kind: "cut-bound", msg: fr.info.name})
			}
			if cnt > r.unwind {
				panic(&pathEnd{kind: "unwind", msg: fmt.Sprintf("loop in %s exceeded %d iterations", fr.info.name, r.unwind)})
			}
		}
		// phis first (parallel assignment)
		nphi := 0
		if skipPhis {
			skipPhis = false
			for _, ins := range b.Instrs {
				if _, ok := ins.(*ssa.Phi); !ok {
					break
				}
				nphi++
			}
		} else if prev != nil {
			pi := -1
			for i, p := range b.Preds {
				if p == prev {
					pi = i
					break
				}
			}
			var vals []Value
			for _, ins := range b.Instrs {
				phi, ok := ins.(*ssa.Phi)
				if !ok {
					break
				}
				vals = append(vals, r.get(fr, phi.Edges[pi]))
				nphi++
			}
			for i := 0; i < nphi; i++ {
				r.set(fr, b.Instrs[i].(*ssa.Phi), vals[i])
			}
		}
		var next *ssa.BasicBlock
		for _, ins := range b.Instrs[nphi:] {
			r.steps++
			if r.steps > r.maxSteps {
				panic(&pathEnd{kind: "unwind", msg: fmt.Sprintf("step budget %d exceeded in %s", r.maxSteps, fr.info.name)})
			}
			r.curInstr = ins
			switch x := ins.(type) {
			case *ssa.If:
				c := r.ts.norm(r.get(fr, x.Cond).(*Term))
				if !c.IsConst() {
					if J, ok := r.tryMerge(fr, b, c); ok {
						next = J
						skipPhis = true
						break
					}
				}
				if r.branch(c) {
					next = b.Succs[0]
				} else {
					next = b.Succs[1]
				}
			case *ssa.Jump:
				next = b.Succs[0]
			case *ssa.Return:
				var ret Value
				switch len(x.Results) {
				case 0:
				case 1:
					ret = r.get(fr, x.Results[0])
				default:
					tv := make(TupleV, len(x.Results))
					for i, rv := range x.Results {
						tv[i] = r.get(fr, rv)
					}
					ret = tv
				}
				return ret
			case *ssa.Panic:
				v := r.get(fr, x.X)
				msg := "panic"
				if iv, ok := v.(*IfaceV); ok {
					if s, ok := iv.val.(StrV); ok {
						if cs, ok := s.concrete(); ok {
							msg = "panic: " + cs
						}
					}
				}
				r.lastPanic = msg + " at " + r.curPos()
				panic(&goPanicT{val: v, msg: msg, pos: r.curPos()})
			case *ssa.RunDefers:
				r.runDefers(fr)
				r.frame = fr
			default:
				r.instr(fr, ins)
			}
		}
		if next == nil {
			panic(fmt.Sprintf("engine: block %d of %s fell through", b.Index, fr.fn))
		}
		prev, b = b, next
	}
}

func (r *Run) instr(fr *Frame, ins ssa.Instruction) {
	ts := r.ts
	switch x := ins.(type) {
	case *ssa.DebugRef:
	case *ssa.Alloc:
		et := x.Type().(*types.Pointer).Elem()
		o := r.newObj(et, r.zero(et))
		r.set(fr, x, &PtrV{obj: o})
	case *ssa.BinOp:
		r.set(fr, x, r.binop(x.Op, r.get(fr, x.X), r.get(fr, x.Y), x.X.Type(), x.Y.Type()))
	case *ssa.UnOp:
		r.set(fr, x, r.unop(fr, x))
	case *ssa.Call:
		if r.isInit && fr.fn.Synthetic == "package initializer" {
			// best-effort initialisation: a failing initialiser expression leaves the zero value
			func() {
				defer func() {
					if e := recover(); e != nil {
						if debugEngine {
							panic(e)
						}
						r.eng.initWarnings = append(r.eng.initWarnings, fmt.Sprintf("%s: %v", r.curPos(), describePanic(e)))
						r.frame = fr
						r.depth = 1
						if x.Type() != nil {
							if tup, ok := x.Type().(*types.Tuple); !ok || tup.Len() > 0 {
								r.set(fr, x, r.zero(x.Type()))
							}
						}
					}
				}()
				r.set(fr, x, r.doCall(fr, &x.Call))
			}()
			return
		}
		r.set(fr, x, r.doCall(fr, &x.Call))
	case *ssa.ChangeInterface:
		r.set(fr, x, r.get(fr, x.X))
	case *ssa.ChangeType:
		r.set(fr, x, r.get(fr, x.X))
	case *ssa.Convert:
		r.set(fr, x, r.convert(r.get(fr, x.X), x.X.Type(), x.Type()))
	case *ssa.Extract:
		r.set(fr, x, r.get(fr, x.Tuple).(TupleV)[x.Index])
	case *ssa.Field:
		r.set(fr, x, r.get(fr, x.X).(*StructV).f[x.Field])
	case *ssa.FieldAddr:
		p := r.get(fr, x.X).(*PtrV)
		if p.obj == nil {
			r.goPanic("runtime error: invalid memory address or nil pointer dereference")
		}
		r.set(fr, x, p.field(x.Field))
	case *ssa.Index:
		switch c := r.get(fr, x.X).(type) {
		case *ArrayV:
			c.mat()
			idx := r.get(fr, x.Index).(*Term)
			i := r.boundsIndex(idx, x.Index.Type(), len(c.e))
			r.set(fr, x, c.e[i])
		case StrV:
			r.set(fr, x, r.strIndex(c, r.get(fr, x.Index).(*Term), x.Index.Type()))
		default:
			panic(unsupported(fmt.Sprintf("Index on %T", c)))
		}
	case *ssa.IndexAddr:
		r.set(fr, x, r.indexAddr(fr, x))
	case *ssa.Lookup:
		r.set(fr, x, r.lookup(fr, x))
	case *ssa.MakeClosure:
		b := make([]Value, len(x.Bindings))
		for i, bv := range x.Bindings {
			b[i] = r.get(fr, bv)
		}
		r.set(fr, x, &FuncV{fn: x.Fn.(*ssa.Function), bindings: b})
	case *ssa.MakeInterface:
		r.set(fr, x, &IfaceV{typ: x.X.Type(), val: r.get(fr, x.X)})
	case *ssa.MakeMap:
		r.mapSeq++
		r.set(fr, x, &MapV{m: &MapObj{id: r.mapSeq, index: map[string]int{}, allConc: true, frozen: r.isInit}})
	case *ssa.MakeChan:
		sz := r.get(fr, x.Size).(*Term)
		n := int(r.concretize(sz, "chan size"))
		r.set(fr, x, &ChanV{c: &ChanObj{cap: n, init: r.isInit}})
	case *ssa.MakeSlice:
		r.set(fr, x, r.makeSlice(fr, x))
	case *ssa.MapUpdate:
		m := r.get(fr, x.Map).(*MapV)
		if m.m == nil {
			r.goPanic("assignment to entry in nil map")
		}
		r.mapSet(m.m, r.get(fr, x.Key), r.get(fr, x.Value))
	case *ssa.Range:
		r.set(fr, x, r.makeRange(r.get(fr, x.X)))
	case *ssa.Next:
		r.set(fr, x, r.next(fr, x))
	case *ssa.Slice:
		r.set(fr, x, r.slice(fr, x))
	case *ssa.SliceToArrayPointer:
		s := r.get(fr, x.X).(*SliceV)
		n := int(x.Type().(*types.Pointer).Elem().Underlying().(*types.Array).Len())
		if s.len < n {
			r.goPanic("runtime error: cannot convert slice to array pointer: length too short")
		}
		if s.obj == nil {
			r.set(fr, x, &PtrV{})
		} else {
			// materialise a view only when it covers the whole backing array
			arr := r.sliceArr(s)
			if s.off == 0 && len(arr.e) == n {
				r.set(fr, x, &PtrV{obj: s.obj, path: s.path})
			} else {
				panic(unsupported("slice to array pointer of partial backing array"))
			}
		}
	case *ssa.Store:
		r.store(r.get(fr, x.Addr).(*PtrV), r.get(fr, x.Val))
	case *ssa.TypeAssert:
		r.set(fr, x, r.typeAssert(fr, x))
	case *ssa.Defer:
		args := make([]Value, len(x.Call.Args))
		for i, a := range x.Call.Args {
			args[i] = r.get(fr, a)
		}
		var fv Value
		if x.Call.IsInvoke() {
			recv := r.get(fr, x.Call.Value).(*IfaceV)
			fv = r.resolveInvoke(recv, x.Call.Method)
			args = append([]Value{recv.val}, args...)
		} else {
			fv = r.get(fr, x.Call.Value)
		}
		fr.defers = append(fr.defers, deferred{fn: fv, args: args, call: &x.Call})
	case *ssa.Go:
		r.sequentialised = true
		if r.lazyGo {
			// queued: runs when a goroutine blocks (WaitGroup.Wait, empty channel, held mutex) or the harness ends
			fv, args := r.prepCall(fr, &x.Call)
			r.goQueue = append(r.goQueue, pendingGo{fn: fv, args: args, call: &x.Call})
			break
		}
		// sequentialised: run at the spawn point
		r.doCall(fr, &x.Call)
	case *ssa.Send:
		c := r.get(fr, x.Chan).(*ChanV)
		if c.c == nil {
			panic(&pathEnd{kind: "deadlock", msg: "send on nil channel"})
		}
		if r.cs(c.c).closed {
			r.goPanic("send on closed channel")
		}
		r.cs(c.c).buf = append(r.cs(c.c).buf, r.get(fr, x.X))
	case *ssa.Select:
		r.set(fr, x, r.doSelect(fr, x))
	case *ssa.MultiConvert:
		r.set(fr, x, r.convert(r.get(fr, x.X), x.X.Type(), x.Type()))
	default:
		panic(unsupported(fmt.Sprintf("instruction %T", ins)))
	}
	_ = ts
}

func (r *Run) doSelect(fr *Frame, x *ssa.Select) Value {
	// choose the first ready case
	nrecv := 0
	for _, st := range x.States {
		if st.Dir == types.RecvOnly {
			nrecv++
		}
	}
	res := make(TupleV, 2+nrecv)
	res[0] = r.constI64(-1)
	res[1] = r.ts.Bool(false)
	ri := 0
	recvZero := func() {
		ri = 0
		for _, st := range x.States {
			if st.Dir == types.RecvOnly {
				res[2+ri] = r.zero(st.Chan.Type().Underlying().(*types.Chan).Elem())
				ri++
			}
		}
	}
	recvZero()
	ri = 0
	for i, st := range x.States {
		c := r.get(fr, st.Chan).(*ChanV)
		if st.Dir == types.RecvOnly {
			if c.c != nil && (len(r.cs(c.c).buf) > 0 || r.cs(c.c).closed) {
				res[0] = r.ts.Const(64, uint64(i))
				if len(r.cs(c.c).buf) > 0 {
					res[2+ri] = r.cs(c.c).buf[0]
					r.cs(c.c).buf = r.cs(c.c).buf[1:]
					res[1] = r.ts.Bool(true)
				}
				return res
			}
			ri++
		} else {
			if c.c != nil && !r.cs(c.c).closed {
				r.cs(c.c).buf = append(r.cs(c.c).buf, r.get(fr, st.Send))
				res[0] = r.ts.Const(64, uint64(i))
				return res
			}
		}
	}
	if !x.Blocking {
		return res
	}
	if r.runOneQueued() {
		return r.doSelect(fr, x)
	}
	panic(&pathEnd{kind: "deadlock", msg: "blocking select with no ready case (sequentialised)"})
}

// ---------------------------------------------------------------------------------------------
// calls

type pendingGo struct {
	fn   Value
	args []Value
	call *ssa.CallCommon
}

// prepCall evaluates the callee and the arguments of a call without making it (go statements in lazy mode).
func (r *Run) prepCall(fr *Frame, c *ssa.CallCommon) (Value, []Value) {
	args := make([]Value, 0, len(c.Args)+1)
	if c.IsInvoke() {
		recv, ok := r.get(fr, c.Value).(*IfaceV)
		if !ok || recv.typ == nil {
			r.goPanic("runtime error: invalid memory address or nil pointer dereference")
		}
		fv := r.resolveInvoke(recv, c.Method)
		args = append(args, recv.val)
		for _, a := range c.Args {
			args = append(args, r.get(fr, a))
		}
		return fv, args
	}
	for _, a := range c.Args {
		args = append(args, r.get(fr, a))
	}
	return r.get(fr, c.Value), args
}

// cs: the channel state this path works on - its own copy for channels made by package initialisers.
func (r *Run) cs(c *ChanObj) *ChanObj {
	if !c.init || r.isInit {
		return c
	}
	if r.cshadow == nil {
		r.cshadow = map[*ChanObj]*ChanObj{}
	}
	s, ok := r.cshadow[c]
	if !ok {
		s = &ChanObj{buf: append([]Value{}, c.buf...), cap: c.cap, closed: c.closed}
		r.cshadow[c] = s
	}
	return s
}

// runOneQueued runs the oldest queued goroutine to completion (nested on the current one); false if none is queued.
func (r *Run) runOneQueued() bool {
	if len(r.goQueue) == 0 {
		return false
	}
	g := r.goQueue[0]
	r.goQueue = r.goQueue[1:]
	r.callValue(g.fn, g.args, g.call)
	return true
}

func (r *Run) doCall(fr *Frame, c *ssa.CallCommon) Value {
	args := make([]Value, 0, len(c.Args)+1)
	if c.IsInvoke() {
		recv, ok := r.get(fr, c.Value).(*IfaceV)
		if !ok || recv.typ == nil {
			r.goPanic("runtime error: invalid memory address or nil pointer dereference")
		}
		fv := r.resolveInvoke(recv, c.Method)
		args = append(args, recv.val)
		for _, a := range c.Args {
			args = append(args, r.get(fr, a))
		}
		return r.callValue(fv, args, c)
	}
	for _, a := range c.Args {
		args = append(args, r.get(fr, a))
	}
	return r.callValue(r.get(fr, c.Value), args, c)
}

func (r *Run) resolveInvoke(recv *IfaceV, m *types.Func) Value {
	if recv.typ == nil {
		r.goPanic("runtime error: invalid memory address or nil pointer dereference")
	}
	if ef, ok := recv.val.(*engineObj); ok {
		return &FuncV{name: ef.kind + "." + m.Name(), bound: ef}
	}
	ms := r.eng.prog.MethodSets.MethodSet(recv.typ)
	sel := ms.Lookup(m.Pkg(), m.Name())
	if sel == nil {
		panic(unsupported(fmt.Sprintf("method %s not found on %v", m.Name(), recv.typ)))
	}
	fn := r.eng.prog.MethodValue(sel)
	if fn == nil {
		panic(unsupported(fmt.Sprintf("no method value for %s on %v", m.Name(), recv.typ)))
	}
	return &FuncV{fn: fn}
}

func (r *Run) callValue(f Value, args []Value, c *ssa.CallCommon) Value {
	fv, ok := f.(*FuncV)
	if !ok || (fv.fn == nil && fv.builtin == nil && fv.name == "") {
		r.goPanic("runtime error: invalid memory address or nil pointer dereference")
	}
	if fv.builtin != nil {
		return r.builtin(fv.builtin, args, c)
	}
	if fv.name != "" {
		return r.engineCall(fv, args)
	}
	return r.callFunction(fv.fn, args, fv.bindings)
}

func (r *Run) builtin(b *ssa.Builtin, args []Value, c *ssa.CallCommon) Value {
	ts := r.ts
	switch b.Name() {
	case "len":
		switch x := args[0].(type) {
		case *SliceV:
			return ts.Const(64, uint64(x.len))
		case StrV:
			return ts.Const(64, uint64(len(x.b)))
		case *MapV:
			if x.m == nil {
				return ts.Const(64, 0)
			}
			return ts.Const(64, uint64(r.rmap(x.m).live))
		case *ChanV:
			if x.c == nil {
				return ts.Const(64, 0)
			}
			return ts.Const(64, uint64(len(r.cs(x.c).buf)))
		case *ArrayV:
			return ts.Const(64, uint64(len(x.e)+x.lazyN))
		case *PtrV:
			at := c.Args[0].Type().Underlying().(*types.Pointer).Elem().Underlying().(*types.Array)
			return ts.Const(64, uint64(at.Len()))
		}
	case "cap":
		switch x := args[0].(type) {
		case *SliceV:
			return ts.Const(64, uint64(x.cap))
		case *ChanV:
			if x.c == nil {
				return ts.Const(64, 0)
			}
			return ts.Const(64, uint64(x.c.cap))
		case *ArrayV:
			return ts.Const(64, uint64(len(x.e)))
		case *PtrV:
			at := c.Args[0].Type().Underlying().(*types.Pointer).Elem().Underlying().(*types.Array)
			return ts.Const(64, uint64(at.Len()))
		}
	case "append":
		return r.doAppend(args[0].(*SliceV), args[1], c)
	case "copy":
		dst := args[0].(*SliceV)
		var n int
		switch src := args[1].(type) {
		case *SliceV:
			n = dst.len
			if src.len < n {
				n = src.len
			}
			if n > 0 {
				sa := r.sliceArr(src)
				tmp := make([]Value, n)
				for i := 0; i < n; i++ {
					tmp[i] = r.fixSort(copyVal(sa.e[src.off+i]), nil)
				}
				da := r.sliceArrW(dst)
				for i := 0; i < n; i++ {
					da.e[dst.off+i] = tmp[i]
				}
			}
		case StrV:
			n = dst.len
			if len(src.b) < n {
				n = len(src.b)
			}
			if n > 0 {
				da := r.sliceArrW(dst)
				for i := 0; i < n; i++ {
					da.e[dst.off+i] = src.b[i]
				}
			}
		}
		return ts.Const(64, uint64(n))
	case "delete":
		m := args[0].(*MapV)
		if m.m != nil {
			r.mapDelete(m.m, args[1])
		}
		return nil
	case "print", "println":
		return nil
	case "recover":
		// only effective when called directly by a deferred function of a panicking frame
		df := r.deferFrame
		if df != nil && df.panicking != nil && r.frame != nil && r.frame.caller == df {
			v := df.panicking.val
			df.panicking = nil
			df.recovered = true
			r.recovered++
			return v
		}
		return &IfaceV{}
	case "close":
		ch := args[0].(*ChanV)
		if ch.c == nil {
			r.goPanic("close of nil channel")
		}
		r.cs(ch.c).closed = true
		return nil
	case "min", "max":
		acc := args[0].(*Term)
		t := c.Args[0].Type()
		for _, a := range args[1:] {
			y := a.(*Term)
			var lt *Term
			if isSigned(t) {
				lt = ts.Slt(y, acc)
			} else {
				lt = ts.Ult(y, acc)
			}
			if b.Name() == "max" {
				lt = ts.BNot(lt)
				lt = ts.BAnd(lt, ts.BNot(ts.Eq(y, acc)))
			}
			acc = ts.Ite(lt, y, acc)
		}
		return acc
	case "SliceData":
		sl := args[0].(*SliceV)
		if sl.obj == nil || sl.cap == 0 {
			return &PtrV{}
		}
		return sl.elemPtr(0)
	case "String", "Slice":
		p := args[0].(*PtrV)
		n := int(r.concretize(args[1].(*Term), "unsafe length"))
		if p.obj == nil || len(p.path) == 0 {
			if b.Name() == "String" {
				return StrV{}
			}
			return &SliceV{}
		}
		start := p.path[len(p.path)-1]
		sl := &SliceV{obj: p.obj, path: p.path[:len(p.path)-1], off: start, len: n, cap: n}
		if b.Name() == "Slice" {
			return sl
		}
		bs := r.sliceBytes(sl)
		nb := make([]*Term, len(bs))
		copy(nb, bs)
		return StrV{b: nb}
	case "StringData":
		str := args[0].(StrV)
		if len(str.b) == 0 {
			return &PtrV{}
		}
		sl := r.newByteSlice(str.b, len(str.b))
		return sl.elemPtr(0)
	case "clear":
		switch x := args[0].(type) {
		case *MapV:
			if x.m != nil {
				m := r.wmap(x.m)
				m.entries = nil
				m.index = map[string]int{}
				m.live = 0
				m.allConc = true
			}
		case *SliceV:
			if x.len > 0 {
				et := c.Args[0].Type().Underlying().(*types.Slice).Elem()
				a := r.sliceArrW(x)
				for i := 0; i < x.len; i++ {
					a.e[x.off+i] = r.zero(et)
				}
			}
		}
		return nil
	}
	panic(unsupported("builtin " + b.Name()))
}

func (r *Run) doAppend(s *SliceV, more Value, c *ssa.CallCommon) Value {
	var add []Value
	switch m := more.(type) {
	case *SliceV:
		if m.len > 0 {
			a := r.sliceArr(m)
			for i := 0; i < m.len; i++ {
				add = append(add, r.fixSort(copyVal(a.e[m.off+i]), nil))
			}
		}
	case StrV:
		for _, b := range m.b {
			add = append(add, b)
		}
	default:
		panic(unsupported(fmt.Sprintf("append of %T", more)))
	}
	if len(add) == 0 {
		return s
	}
	if s.obj != nil && s.len+len(add) <= s.cap {
		a := r.sliceArrW(s)
		for i, v := range add {
			a.e[s.off+s.len+i] = v
		}
		return &SliceV{obj: s.obj, path: s.path, off: s.off, len: s.len + len(add), cap: s.cap}
	}
	need := s.len + len(add)
	nc := s.cap * 2
	if nc < need {
		nc = need
	}
	if nc < 4 && need <= 4 {
		nc = need
	}
	st := c.Args[0].Type().Underlying().(*types.Slice)
	na := &ArrayV{e: make([]Value, nc)}
	if s.len > 0 {
		old := r.sliceArr(s)
		for i := 0; i < s.len; i++ {
			na.e[i] = copyVal(old.e[s.off+i])
		}
	}
	for i, v := range add {
		na.e[s.len+i] = v
	}
	if nc > need {
		if isScalarInt(st.Elem()) {
			z := r.zero(st.Elem())
			for i := need; i < nc; i++ {
				na.e[i] = z
			}
		} else {
			for i := need; i < nc; i++ {
				na.e[i] = r.zero(st.Elem())
			}
		}
	}
	r.allocCells += nc
	o := r.newObj(types.NewArray(st.Elem(), int64(nc)), na)
	return &SliceV{obj: o, off: 0, len: need, cap: nc}
}

func (r *Run) makeSlice(fr *Frame, x *ssa.MakeSlice) Value {
	st := x.Type().Underlying().(*types.Slice)
	lt := r.get(fr, x.Len).(*Term)
	ct := r.get(fr, x.Cap).(*Term)
	lt = r.toInt64(lt, x.Len.Type())
	ct = r.toInt64(ct, x.Cap.Type())
	if !lt.IsConst() || !ct.IsConst() {
		// allocation monitor: can the requested size exceed the limit?
		lim := r.ts.Const(64, uint64(r.allocLimit))
		big := r.ts.BOr(r.ts.Slt(lim, ct), r.ts.Slt(lim, lt))
		if r.branchMonitor(big, "alloc") {
			// huge or negative is also covered below; path for big sizes ends here
			msg := fmt.Sprintf("make(%v) with attacker-controlled size above %d elements at %s", st, r.allocLimit, r.curPos())
			// prefer a witness that allocates a lot (so that the native replay shows it), else any witness
			if !r.violationCondW("alloc", msg, r.ts.Slt(r.ts.Const(64, 1<<26), ct), 1) {
				r.violation("alloc", msg)
			}
			panic(&pathEnd{kind: "cut-assume", msg: "allocation beyond monitor limit"})
		}
	}
	// negative?
	neg := r.ts.BOr(r.ts.Slt(lt, r.ts.Const(64, 0)), r.ts.Slt(ct, lt))
	if r.branch(neg) {
		r.goPanic("runtime error: makeslice: len out of range")
	}
	if lb, ok := r.loopBound[fr.info.name]; ok && !ct.IsConst() {
		// the stated shape bound of this function also bounds the lengths it allocates
		if r.branch(r.ts.Slt(r.ts.Const(64, uint64(lb)), ct)) {
			panic(&pathEnd{kind: "cut-bound", msg: fr.info.name + " make length"})
		}
	}
	n := int(r.concretize(lt, "make len"))
	c := int(r.concretize(ct, "make cap"))
	if c > 1<<24 {
		r.violation("alloc", fmt.Sprintf("make(%v, %d) at %s", st, c, r.curPos()))
		panic(&pathEnd{kind: "cut-assume", msg: "huge concrete allocation"})
	}
	a := &ArrayV{e: make([]Value, c)}
	if isScalarInt(st.Elem()) {
		z := r.zero(st.Elem())
		for i := range a.e {
			a.e[i] = z
		}
	} else {
		for i := range a.e {
			a.e[i] = r.zero(st.Elem())
		}
	}
	r.allocCells += c
	o := r.newObj(types.NewArray(st.Elem(), int64(c)), a)
	return &SliceV{obj: o, off: 0, len: n, cap: c}
}

// toInt64 widens an index/length operand to a signed 64-bit term according to its static type.
func (r *Run) toInt64(t *Term, typ types.Type) *Term {
	if t.w == 64 {
		return t
	}
	if isSigned(typ) {
		return r.ts.SExt(t, 64)
	}
	return r.ts.ZExt(t, 64)
}

// boundsIndex checks 0 <= idx < n (forking a panic path) and returns a concrete index.
func (r *Run) boundsIndex(idx *Term, typ types.Type, n int) int {
	i64 := r.toInt64(idx, typ)
	inb := r.ts.Ult(i64, r.ts.Const(64, uint64(n)))
	if !r.branch(inb) {
		r.goPanic(fmt.Sprintf("runtime error: index out of range [%s] with length %d", termBrief(i64), n))
	}
	return int(r.concretize(i64, "index"))
}

func termBrief(t *Term) string {
	if t.IsConst() {
		return fmt.Sprint(int64(t.k))
	}
	return "sym"
}

func (r *Run) strIndex(s StrV, idx *Term, typ types.Type) Value {
	i64 := r.toInt64(idx, typ)
	n := len(s.b)
	inb := r.ts.Ult(i64, r.ts.Const(64, uint64(n)))
	if !r.branch(inb) {
		r.goPanic(fmt.Sprintf("runtime error: index out of range [%s] with length %d", termBrief(i64), n))
	}
	if i64.IsConst() {
		return s.b[i64.k]
	}
	elems := make([]Value, n)
	for i := range elems {
		elems[i] = s.b[i]
	}
	return r.selectTerm(elems, i64, 0, n)
}

func (r *Run) indexAddr(fr *Frame, x *ssa.IndexAddr) Value {
	idx := r.get(fr, x.Index).(*Term)
	i64 := r.toInt64(idx, x.Index.Type())
	switch c := r.get(fr, x.X).(type) {
	case *SliceV:
		inb := r.ts.Ult(i64, r.ts.Const(64, uint64(c.len)))
		if !r.branch(inb) {
			r.goPanic(fmt.Sprintf("runtime error: index out of range [%s] with length %d", termBrief(i64), c.len))
		}
		if i64.IsConst() {
			return c.elemPtr(int(i64.k))
		}
		et := x.X.Type().Underlying().(*types.Slice).Elem()
		if isScalarInt(et) && c.len > r.symIndexFork {
			return &PtrV{obj: c.obj, path: c.path, sym: r.ts.Add(i64, r.ts.Const(64, uint64(c.off))), lo: c.off, n: c.len}
		}
		return c.elemPtr(int(r.concretize(i64, "index")))
	case *PtrV:
		if c.obj == nil {
			r.goPanic("runtime error: invalid memory address or nil pointer dereference")
		}
		at := x.X.Type().Underlying().(*types.Pointer).Elem().Underlying().(*types.Array)
		n := int(at.Len())
		inb := r.ts.Ult(i64, r.ts.Const(64, uint64(n)))
		if !r.branch(inb) {
			r.goPanic(fmt.Sprintf("runtime error: index out of range [%s] with length %d", termBrief(i64), n))
		}
		if i64.IsConst() {
			return c.field(int(i64.k))
		}
		if isScalarInt(at.Elem()) && n > r.symIndexFork {
			return &PtrV{obj: c.obj, path: c.path, sym: i64, lo: 0, n: n}
		}
		return c.field(int(r.concretize(i64, "index")))
	}
	panic(unsupported(fmt.Sprintf("IndexAddr on %T", r.get(fr, x.X))))
}

func (r *Run) slice(fr *Frame, x *ssa.Slice) Value {
	getb := func(v ssa.Value, def int) *Term {
		if v == nil {
			return r.ts.Const(64, uint64(def))
		}
		return r.toInt64(r.get(fr, v).(*Term), v.Type())
	}
	check := func(lo, hi, max *Term, capn int) (int, int, int) {
		// 0 <= lo <= hi <= max <= cap
		ok := r.ts.BAnd(r.ts.BAnd(r.ts.Ule(lo, hi), r.ts.Ule(hi, max)), r.ts.Ule(max, r.ts.Const(64, uint64(capn))))
		if !r.branch(ok) {
			r.goPanic(fmt.Sprintf("runtime error: slice bounds out of range [%s:%s] with capacity %d", termBrief(lo), termBrief(hi), capn))
		}
		l := int(r.concretize(lo, "slice low"))
		h := int(r.concretize(hi, "slice high"))
		m := int(r.concretize(max, "slice max"))
		return l, h, m
	}
	switch c := r.get(fr, x.X).(type) {
	case *SliceV:
		lo := getb(x.Low, 0)
		hi := getb(x.High, c.len)
		max := getb(x.Max, c.cap)
		l, h, m := check(lo, hi, max, c.cap)
		if c.obj == nil {
			return &SliceV{}
		}
		return &SliceV{obj: c.obj, path: c.path, off: c.off + l, len: h - l, cap: m - l}
	case StrV:
		n := len(c.b)
		lo := getb(x.Low, 0)
		hi := getb(x.High, n)
		l, h, _ := check(lo, hi, r.ts.Const(64, uint64(n)), n)
		return StrV{b: c.b[l:h]}
	case *PtrV:
		if c.obj == nil {
			r.goPanic("runtime error: invalid memory address or nil pointer dereference")
		}
		at := x.X.Type().Underlying().(*types.Pointer).Elem().Underlying().(*types.Array)
		n := int(at.Len())
		lo := getb(x.Low, 0)
		hi := getb(x.High, n)
		max := getb(x.Max, n)
		l, h, m := check(lo, hi, max, n)
		return &SliceV{obj: c.obj, path: c.path, off: l, len: h - l, cap: m - l}
	}
	panic(unsupported(fmt.Sprintf("Slice on %T", r.get(fr, x.X))))
}

// ---------------------------------------------------------------------------------------------
// operators

func (r *Run) unop(fr *Frame, x *ssa.UnOp) Value {
	v := r.get(fr, x.X)
	switch x.Op {
	case token.MUL:
		p := v.(*PtrV)
		if at, ok := x.Type().Underlying().(*types.Array); ok && p.sym == nil && len(p.path) > 0 {
			// *(*[N]T)(unsafe.Pointer(&a[i])): an array view of N consecutive elements of a larger scalar array
			par := r.load(&PtrV{obj: p.obj, path: p.path[:len(p.path)-1]})
			if arr, isArr := par.(*ArrayV); isArr {
				if _, elemIsArr := r.load(p).(*ArrayV); !elemIsArr {
					arr.mat()
					i0, n := p.path[len(p.path)-1], int(at.Len())
					if i0+n > len(arr.e) {
						panic(unsupported("unsafe array view beyond the underlying array"))
					}
					out := &ArrayV{e: make([]Value, n)}
					copy(out.e, arr.e[i0:i0+n])
					return r.fixSort(out, x.Type())
				}
			}
		}
		if os.Getenv("GOSYM_STACK") != "" {
			defer func() {
				if e := recover(); e != nil {
					fmt.Fprintf(os.Stderr, "[deref failed] %v in %s at %s: %s\n", e, fr.info.name, r.curPos(), x.String())
					panic(e)
				}
			}()
		}
		return r.fixSort(r.load(p), x.Type())
	case token.NOT:
		return r.ts.BNot(v.(*Term))
	case token.SUB:
		if f, ok := v.(FloatV); ok {
			return -f
		}
		if nv, ok := r.intUnop(token.SUB, v.(*Term), x.X.Type()); ok {
			return nv
		}
		return r.ts.Neg(v.(*Term))
	case token.XOR:
		if nv, ok := r.intUnop(token.XOR, v.(*Term), x.X.Type()); ok {
			return nv
		}
		return r.ts.Not(v.(*Term))
	case token.ARROW:
		c := v.(*ChanV)
		et := x.X.Type().Underlying().(*types.Chan).Elem()
		var val Value
		ok := false
		if c.c != nil && len(r.cs(c.c).buf) > 0 {
			val = r.cs(c.c).buf[0]
			r.cs(c.c).buf = r.cs(c.c).buf[1:]
			ok = true
		} else if c.c != nil && r.cs(c.c).closed {
			val = r.zero(et)
		} else if r.runOneQueued() {
			return r.unop(fr, x)
		} else {
			panic(&pathEnd{kind: "deadlock", msg: "receive on empty channel (sequentialised)"})
		}
		if x.CommaOk {
			return TupleV{val, r.ts.Bool(ok)}
		}
		return val
	}
	panic(unsupported("unop " + x.Op.String()))
}

func (r *Run) binop(op token.Token, a, b Value, ta, tb types.Type) Value {
	ts := r.ts
	switch x := a.(type) {
	case *Term:
		y, ok := b.(*Term)
		if !ok {
			panic(unsupported(fmt.Sprintf("binop %v on Term and %T", op, b)))
		}
		if r.intMode != nil {
			// a bit-vector constant that escaped conversion (frozen init-time data, closures) meets an Int term
			if x.w == IntW && y.w != IntW && y.w != 0 {
				y = r.fixSort(y, tb).(*Term)
			} else if y.w == IntW && x.w != IntW && x.w != 0 {
				x = r.fixSort(x, ta).(*Term)
			}
			if v, ok := r.intMode.binop(r, op, x, y, ta, tb); ok {
				return v
			}
		}
		if x.w == 0 {
			switch op {
			case token.EQL:
				return ts.Eq(x, y)
			case token.NEQ:
				return ts.BNot(ts.Eq(x, y))
			case token.AND, token.LAND:
				return ts.BAnd(x, y)
			case token.OR, token.LOR:
				return ts.BOr(x, y)
			case token.XOR:
				return ts.BNot(ts.Eq(x, y))
			}
			panic(unsupported("bool binop " + op.String()))
		}
		signed := isSigned(ta)
		switch op {
		case token.ADD:
			return ts.Add(x, y)
		case token.SUB:
			return ts.Sub(x, y)
		case token.MUL:
			return ts.Mul(x, y)
		case token.QUO, token.REM:
			z := ts.Eq(y, ts.Const(y.w, 0))
			if r.branch(z) {
				r.goPanic("runtime error: integer divide by zero")
			}
			if signed {
				if op == token.QUO {
					return ts.bin(OpSDiv, x, y)
				}
				return ts.bin(OpSRem, x, y)
			}
			if op == token.QUO {
				return ts.bin(OpUDiv, x, y)
			}
			return ts.bin(OpURem, x, y)
		case token.AND:
			return ts.And(x, y)
		case token.OR:
			return ts.Or(x, y)
		case token.XOR:
			return ts.Xor(x, y)
		case token.AND_NOT:
			return ts.And(x, ts.Not(y))
		case token.SHL, token.SHR:
			// shift count: unsigned, or signed and non-negative (negative panics)
			if isSigned(tb) {
				if r.branch(ts.Slt(y, ts.Const(y.w, 0))) {
					r.goPanic("runtime error: negative shift amount")
				}
			}
			var cnt *Term
			if y.w > x.w {
				// saturate
				big := ts.Ule(ts.Const(y.w, uint64(x.w)), y)
				cnt = ts.Ite(big, ts.Const(x.w, uint64(x.w)), ts.Extract(y, x.w-1, 0))
			} else {
				cnt = ts.ZExt(y, x.w)
			}
			if op == token.SHL {
				return ts.bin(OpShl, x, cnt)
			}
			if signed {
				return ts.bin(OpAShr, x, cnt)
			}
			return ts.bin(OpLShr, x, cnt)
		case token.EQL:
			return ts.Eq(x, y)
		case token.NEQ:
			return ts.BNot(ts.Eq(x, y))
		case token.LSS:
			if signed {
				return ts.Slt(x, y)
			}
			return ts.Ult(x, y)
		case token.LEQ:
			if signed {
				return ts.Sle(x, y)
			}
			return ts.Ule(x, y)
		case token.GTR:
			if signed {
				return ts.Slt(y, x)
			}
			return ts.Ult(y, x)
		case token.GEQ:
			if signed {
				return ts.Sle(y, x)
			}
			return ts.Ule(y, x)
		}
	case FloatV:
		y := b.(FloatV)
		switch op {
		case token.ADD:
			return x + y
		case token.SUB:
			return x - y
		case token.MUL:
			return x * y
		case token.QUO:
			return x / y
		case token.EQL:
			return ts.Bool(x == y)
		case token.NEQ:
			return ts.Bool(x != y)
		case token.LSS:
			return ts.Bool(x < y)
		case token.LEQ:
			return ts.Bool(x <= y)
		case token.GTR:
			return ts.Bool(x > y)
		case token.GEQ:
			return ts.Bool(x >= y)
		}
	case StrV:
		y := b.(StrV)
		switch op {
		case token.ADD:
			nb := make([]*Term, 0, len(x.b)+len(y.b))
			nb = append(nb, x.b...)
			nb = append(nb, y.b...)
			return StrV{b: nb}
		case token.EQL:
			return r.eqVal(a, b)
		case token.NEQ:
			return ts.BNot(r.eqVal(a, b))
		case token.LSS:
			return r.strLess(x, y, false)
		case token.LEQ:
			return r.strLess(x, y, true)
		case token.GTR:
			return r.strLess(y, x, false)
		case token.GEQ:
			return r.strLess(y, x, true)
		}
	default:
		switch op {
		case token.EQL:
			return r.eqVal(a, b)
		case token.NEQ:
			return ts.BNot(r.eqVal(a, b))
		}
	}
	panic(unsupported(fmt.Sprintf("binop %v on %T", op, a)))
}

// strLess: lexicographic x < y (or <= when orEq)
func (r *Run) strLess(x, y StrV, orEq bool) *Term {
	ts := r.ts
	n := len(x.b)
	if len(y.b) < n {
		n = len(y.b)
	}
	// result when all first n bytes are equal
	var res *Term
	if orEq {
		res = ts.Bool(len(x.b) <= len(y.b))
	} else {
		res = ts.Bool(len(x.b) < len(y.b))
	}
	for i := n - 1; i >= 0; i-- {
		lt := ts.Ult(x.b[i], y.b[i])
		eq := ts.Eq(x.b[i], y.b[i])
		res = ts.BOr(lt, ts.BAnd(eq, res))
	}
	return res
}

func (r *Run) eqVal(a, b Value) *Term {
	ts := r.ts
	switch x := a.(type) {
	case *Term:
		return ts.Eq(x, b.(*Term))
	case FloatV:
		return ts.Bool(x == b.(FloatV))
	case StrV:
		y := b.(StrV)
		if len(x.b) != len(y.b) {
			return ts.Bool(false)
		}
		res := ts.Bool(true)
		for i := range x.b {
			res = ts.BAnd(res, ts.Eq(x.b[i], y.b[i]))
		}
		return res
	case *PtrV:
		y, ok := b.(*PtrV)
		if !ok {
			return ts.Bool(false)
		}
		if x.obj == nil || y.obj == nil {
			return ts.Bool(x.obj == nil && y.obj == nil)
		}
		if canonObj(x.obj) != canonObj(y.obj) || len(x.path) != len(y.path) {
			return ts.Bool(false)
		}
		for i := range x.path {
			if x.path[i] != y.path[i] {
				return ts.Bool(false)
			}
		}
		if x.sym != nil || y.sym != nil {
			panic(unsupported("comparison of symbolic-index pointers"))
		}
		return ts.Bool(true)
	case *StructV:
		y := b.(*StructV)
		res := ts.Bool(true)
		for i := range x.f {
			res = ts.BAnd(res, r.eqVal(x.f[i], y.f[i]))
		}
		return res
	case *ArrayV:
		y := b.(*ArrayV)
		res := ts.Bool(true)
		for i := range x.e {
			res = ts.BAnd(res, r.eqVal(x.e[i], y.e[i]))
		}
		return res
	case *IfaceV:
		y, ok := b.(*IfaceV)
		if !ok {
			return ts.Bool(false)
		}
		if x.typ == nil || y.typ == nil {
			return ts.Bool(x.typ == nil && y.typ == nil)
		}
		if !types.Identical(x.typ, y.typ) {
			return ts.Bool(false)
		}
		return r.eqVal(x.val, y.val)
	case *SliceV:
		// only comparison with nil is legal
		y := b.(*SliceV)
		return ts.Bool(x.obj == nil && y.obj == nil)
	case *MapV:
		y := b.(*MapV)
		return ts.Bool(x.m == nil && y.m == nil || x.m == y.m)
	case *FuncV:
		y := b.(*FuncV)
		xn := x.fn == nil && x.builtin == nil && x.name == ""
		yn := y.fn == nil && y.builtin == nil && y.name == ""
		return ts.Bool(xn && yn)
	case *ChanV:
		y := b.(*ChanV)
		return ts.Bool(x.c == y.c)
	case *engineObj:
		y, ok := b.(*engineObj)
		return ts.Bool(ok && x == y)
	case *BigV:
		y := b.(*BigV)
		return ts.Bool(x.v.Cmp(y.v) == 0)
	case nil:
		return ts.Bool(b == nil)
	}
	panic(unsupported(fmt.Sprintf("equality on %T", a)))
}

func (r *Run) convert(v Value, from, to types.Type) Value {
	ts := r.ts
	fu, tu := from.Underlying(), to.Underlying()
	switch x := v.(type) {
	case *Term:
		if tb, ok := tu.(*types.Basic); ok {
			switch {
			case tb.Info()&types.IsInteger != 0:
				if r.intMode != nil {
					if nv, ok := r.intMode.convert(r, x, from, to); ok {
						return nv
					}
				}
				w := r.eng.width(to)
				if w == x.w {
					return x
				}
				if w < x.w {
					return ts.Extract(x, w-1, 0)
				}
				if isSigned(from) {
					return ts.SExt(x, w)
				}
				return ts.ZExt(x, w)
			case tb.Info()&types.IsFloat != 0:
				if x.IsConst() {
					if isSigned(from) {
						return FloatV(float64(sext64(x.k, x.w)))
					}
					return FloatV(float64(x.k))
				}
				// floating point is not modelled: a symbolic integer converts to 0.0. In the code under test
				// such values only feed message formatting (C06's work comparison is not applicable).
				r.h.noteAssumption("float64(x) of a symbolic integer is 0.0 (floats only feed formatting in the encoded code)")
				return FloatV(0)
			case tb.Info()&types.IsString != 0:
				if x.IsConst() {
					return r.constStr(string(rune(sext64(x.k, x.w))))
				}
				panic(unsupported("symbolic rune to string conversion"))
			case tb.Kind() == types.UnsafePointer:
				if x.IsConst() && x.k == 0 {
					return &PtrV{}
				}
				panic(unsupported("uintptr to unsafe.Pointer"))
			}
		}
	case FloatV:
		if tb, ok := tu.(*types.Basic); ok {
			switch {
			case tb.Info()&types.IsFloat != 0:
				if tb.Kind() == types.Float32 {
					return FloatV(float64(float32(x)))
				}
				return x
			case tb.Info()&types.IsInteger != 0:
				w := r.eng.width(to)
				if isSigned(to) {
					return ts.Const(w, uint64(int64(x)))
				}
				return ts.Const(w, uint64(x))
			}
		}
	case StrV:
		switch t := tu.(type) {
		case *types.Basic:
			if t.Info()&types.IsString != 0 {
				return x
			}
		case *types.Slice:
			eb, _ := t.Elem().Underlying().(*types.Basic)
			if eb != nil && eb.Kind() == types.Uint8 {
				if len(x.b) == 0 {
					return r.newByteSlice(nil, 0)
				}
				return r.newByteSlice(x.b, len(x.b))
			}
			if eb != nil && eb.Kind() == types.Int32 {
				s, ok := x.concrete()
				if !ok {
					panic(unsupported("symbolic string to []rune"))
				}
				rs := []rune(s)
				a := &ArrayV{e: make([]Value, len(rs))}
				for i, c := range rs {
					a.e[i] = ts.Const(32, uint64(uint32(c)))
				}
				o := r.newObj(types.NewArray(t.Elem(), int64(len(rs))), a)
				return &SliceV{obj: o, len: len(rs), cap: len(rs)}
			}
		}
	case *SliceV:
		switch t := tu.(type) {
		case *types.Basic:
			if t.Info()&types.IsString != 0 {
				fs := fu.(*types.Slice)
				eb := fs.Elem().Underlying().(*types.Basic)
				if eb.Kind() == types.Uint8 {
					b := r.sliceBytes(x)
					nb := make([]*Term, len(b))
					copy(nb, b)
					return StrV{b: nb}
				}
				// []rune -> string (concrete only)
				var rs []rune
				if x.len > 0 {
					a := r.sliceArr(x)
					for i := 0; i < x.len; i++ {
						t := a.e[x.off+i].(*Term)
						if !t.IsConst() {
							panic(unsupported("symbolic []rune to string"))
						}
						rs = append(rs, rune(int32(t.k)))
					}
				}
				return r.constStr(string(rs))
			}
		case *types.Slice:
			return x
		case *types.Pointer:
			// slice to array pointer handled by SliceToArrayPointer
		}
	case *PtrV:
		// *T <-> unsafe.Pointer <-> *U : pointers are kept as they are
		switch t := tu.(type) {
		case *types.Pointer:
			return r.retypePtr(x, from, to)
		case *types.Basic:
			if t.Kind() == types.UnsafePointer {
				return x
			}
			if t.Kind() == types.Uintptr {
				if x.obj == nil {
					return ts.Const(64, 0)
				}
				// stable fake address
				return ts.Const(64, uint64(0x10000000+canonObj(x.obj).id*0x10000))
			}
		}
	case *FuncV, *MapV, *ChanV, *IfaceV, *StructV, *ArrayV:
		return v
	}
	panic(unsupported(fmt.Sprintf("convert %T from %v to %v", v, from, to)))
}

// retypePtr: unsafe.Pointer -> *T. We keep the pointer; reinterpretation between different layouts
// is only supported for []byte-array views handled by the intrinsics.
func (r *Run) retypePtr(p *PtrV, from, to types.Type) Value { return p }

func (r *Run) typeAssert(fr *Frame, x *ssa.TypeAssert) Value {
	iv, _ := r.get(fr, x.X).(*IfaceV)
	ok := false
	if iv != nil && iv.typ != nil {
		if it, isIface := x.AssertedType.Underlying().(*types.Interface); isIface {
			ok = types.Implements(iv.typ, it)
		} else {
			ok = types.Identical(iv.typ, x.AssertedType)
		}
	}
	var res Value
	if ok {
		if _, isIface := x.AssertedType.Underlying().(*types.Interface); isIface {
			res = iv
		} else {
			res = iv.val
		}
	} else {
		if !x.CommaOk {
			r.goPanic(fmt.Sprintf("interface conversion: interface is %v, not %v", ifaceTypeStr(iv), x.AssertedType))
		}
		res = r.zero(x.AssertedType)
	}
	if x.CommaOk {
		return TupleV{res, r.ts.Bool(ok)}
	}
	return res
}

func ifaceTypeStr(iv *IfaceV) string {
	if iv == nil || iv.typ == nil {
		return "nil"
	}
	return iv.typ.String()
}

// ---------------------------------------------------------------------------------------------
// maps, ranges

func (r *Run) mapFind(m *MapObj, key Value) *mapEntry {
	ks, conc := keyString(key)
	if conc && m.allConc {
		if i, ok := m.index[ks]; ok {
			return m.entries[i]
		}
		return nil
	}
	for _, e := range m.entries {
		if e.deleted {
			continue
		}
		if conc && e.concrete {
			if e.ks == ks {
				return e
			}
			continue
		}
		if r.branch(r.eqVal(key, e.key)) {
			return e
		}
	}
	return nil
}

func (r *Run) mapSet(m0 *MapObj, key, val Value) {
	m := r.wmap(m0)
	if e := r.mapFind(m, key); e != nil {
		e.val = copyVal(val)
		return
	}
	ks, conc := keyString(key)
	e := &mapEntry{key: copyVal(key), ks: ks, concrete: conc, val: copyVal(val)}
	m.entries = append(m.entries, e)
	if conc {
		m.index[ks] = len(m.entries) - 1
	} else {
		m.allConc = false
	}
	m.live++
}

func (r *Run) mapDelete(m0 *MapObj, key Value) {
	m := r.wmap(m0)
	if e := r.mapFind(m, key); e != nil {
		e.deleted = true
		if e.concrete {
			delete(m.index, e.ks)
		}
		m.live--
	}
}

func (r *Run) lookup(fr *Frame, x *ssa.Lookup) Value {
	switch c := r.get(fr, x.X).(type) {
	case StrV:
		return r.strIndex(c, r.get(fr, x.Index).(*Term), x.Index.Type())
	case *MapV:
		vt := x.X.Type().Underlying().(*types.Map).Elem()
		var e *mapEntry
		if c.m != nil {
			e = r.mapFind(r.rmap(c.m), r.get(fr, x.Index))
		}
		var v Value
		if e != nil {
			v = r.fixSort(copyVal(e.val), vt)
		} else {
			v = r.zero(vt)
		}
		if x.CommaOk {
			return TupleV{v, r.ts.Bool(e != nil)}
		}
		return v
	}
	panic(unsupported(fmt.Sprintf("Lookup on %T", r.get(fr, x.X))))
}

type rangeIter struct {
	m    *MapObj
	keys []*mapEntry
	str  StrV
	pos  int
	isStr bool
}

func (r *Run) makeRange(v Value) Value {
	switch x := v.(type) {
	case *MapV:
		it := &rangeIter{}
		if x.m != nil {
			m := r.rmap(x.m)
			it.m = x.m
			for _, e := range m.entries {
				if !e.deleted {
					it.keys = append(it.keys, e)
				}
			}
		}
		return it
	case StrV:
		return &rangeIter{str: x, isStr: true}
	}
	panic(unsupported(fmt.Sprintf("range over %T", v)))
}

func (r *Run) next(fr *Frame, x *ssa.Next) Value {
	it := r.get(fr, x.Iter).(*rangeIter)
	ts := r.ts
	if it.isStr {
		if it.pos >= len(it.str.b) {
			return TupleV{ts.Bool(false), ts.Const(64, 0), ts.Const(32, 0)}
		}
		b0 := it.str.b[it.pos]
		// ASCII fast path: fork on b0 < 0x80
		if r.branch(ts.Ult(b0, ts.Const(8, 0x80))) {
			res := TupleV{ts.Bool(true), ts.Const(64, uint64(it.pos)), ts.ZExt(b0, 32)}
			it.pos++
			return res
		}
		// non-ASCII: fork on the shape of the UTF-8 sequence (valid 2-, 3-, 4-byte sequence, else invalid),
		// the rune value stays a term
		rest := it.str.b[it.pos:]
		cb := func(v uint64) *Term { return r.constLike(b0, v) }
		in := func(x *Term, lo, hi uint64) *Term { return ts.BAnd(ts.Ule(cb(lo), x), ts.Ule(x, cb(hi))) }
		w32 := func(x *Term) *Term {
			if x.w == IntW {
				return x
			}
			return ts.ZExt(x, 32)
		}
		k32 := func(v uint64) *Term {
			if b0.w == IntW {
				return ts.IConstU(v)
			}
			return ts.Const(32, v)
		}
		mk := func(n int, cond *Term, val *Term) (Value, bool) {
			if len(rest) < n {
				return nil, false
			}
			if r.branch(cond) {
				res := TupleV{ts.Bool(true), ts.Const(64, uint64(it.pos)), val}
				it.pos += n
				return res, true
			}
			return nil, false
		}
		cont := func(x *Term) *Term { return in(x, 0x80, 0xBF) }
		sub := func(x *Term, v uint64) *Term { return ts.Sub(w32(x), k32(v)) }
		if len(rest) >= 2 {
			v := ts.Add(ts.Mul(sub(rest[0], 0xC0), k32(64)), sub(rest[1], 0x80))
			if res, ok := mk(2, ts.BAnd(in(rest[0], 0xC2, 0xDF), cont(rest[1])), v); ok {
				return res
			}
		}
		if len(rest) >= 3 {
			b1ok := ts.BOr(ts.BOr(ts.BAnd(ts.Eq(rest[0], cb(0xE0)), in(rest[1], 0xA0, 0xBF)), ts.BAnd(ts.Eq(rest[0], cb(0xED)), in(rest[1], 0x80, 0x9F))),
				ts.BAnd(ts.BOr(in(rest[0], 0xE1, 0xEC), in(rest[0], 0xEE, 0xEF)), cont(rest[1])))
			v := ts.Add(ts.Add(ts.Mul(sub(rest[0], 0xE0), k32(4096)), ts.Mul(sub(rest[1], 0x80), k32(64))), sub(rest[2], 0x80))
			if res, ok := mk(3, ts.BAnd(b1ok, cont(rest[2])), v); ok {
				return res
			}
		}
		if len(rest) >= 4 {
			b1ok := ts.BOr(ts.BOr(ts.BAnd(ts.Eq(rest[0], cb(0xF0)), in(rest[1], 0x90, 0xBF)), ts.BAnd(ts.Eq(rest[0], cb(0xF4)), in(rest[1], 0x80, 0x8F))),
				ts.BAnd(in(rest[0], 0xF1, 0xF3), cont(rest[1])))
			v := ts.Add(ts.Add(ts.Add(ts.Mul(sub(rest[0], 0xF0), k32(262144)), ts.Mul(sub(rest[1], 0x80), k32(4096))), ts.Mul(sub(rest[2], 0x80), k32(64))), sub(rest[3], 0x80))
			if res, ok := mk(4, ts.BAnd(ts.BAnd(b1ok, cont(rest[2])), cont(rest[3])), v); ok {
				return res
			}
		}
		res := TupleV{ts.Bool(true), ts.Const(64, uint64(it.pos)), k32(0xFFFD)}
		it.pos++
		return res
	}
	mt := x.Iter.(*ssa.Range).X.Type().Underlying().(*types.Map)
	for it.pos < len(it.keys) {
		e := it.keys[it.pos]
		it.pos++
		// entry may have been deleted during iteration
		cur := r.rmap(it.m)
		var live *mapEntry
		for _, ce := range cur.entries {
			if !ce.deleted && (ce == e || (ce.concrete && e.concrete && ce.ks == e.ks)) {
				live = ce
				break
			}
		}
		if live == nil {
			continue
		}
		return TupleV{ts.Bool(true), r.fixSort(copyVal(live.key), mt.Key()), r.fixSort(copyVal(live.val), mt.Elem())}
	}
	return TupleV{ts.Bool(false), r.zero(mt.Key()), r.zero(mt.Elem())}
}

func decodeRune(b []byte) (rune, int) {
	s := string(b)
	for _, ru := range s {
		n := len(string(ru))
		if ru == 0xFFFD {
			return ru, 1
		}
		return ru, n
	}
	return 0xFFFD, 1
}

var _ = big.NewInt

// tabulated evaluates a pure single-argument function concretely on every value of its (small) argument
// domain and returns the table lookup.
func (r *Run) tabulated(fn *ssa.Function, arg *Term) Value {
	var hi int64
	if arg.w == IntW {
		if !arg.lo.IsInt64() || !arg.hi.IsInt64() || arg.hi.Int64() > 4096 || arg.lo.Sign() < 0 {
			panic(unsupported("Tabulate: argument domain too large"))
		}
		hi = arg.hi.Int64()
	} else {
		if arg.w > 12 {
			panic(unsupported("Tabulate: argument wider than 12 bits"))
		}
		hi = int64(mask(arg.w))
	}
	key := fmt.Sprintf("tab:%p:%d:%v", fn, hi, r.ts.intMode)
	var vals []uint64
	var rw int
	if v, ok := r.eng.tabCache.Load(key); ok {
		c := v.(*tabCacheEntry)
		vals, rw = c.vals, c.w
	} else {
		vals = make([]uint64, hi+1)
		saved := r.tabulate[fn]
		r.tabulate[fn] = false
		for v := int64(0); v <= hi; v++ {
			var a *Term
			if r.ts.intMode {
				a = r.ts.IConst64(v)
			} else {
				a = r.ts.Const(arg.w, uint64(v))
			}
			res, ok := r.callFunction(fn, []Value{a}, nil).(*Term)
			if !ok || !res.IsConst() {
				panic(unsupported("Tabulate: result is not a concrete scalar"))
			}
			rw = res.w
			if res.w == IntW {
				vals[v] = uint64(res.bk.Int64())
			} else {
				vals[v] = res.k
			}
		}
		r.tabulate[fn] = saved
		r.eng.tabCache.Store(key, &tabCacheEntry{vals: vals, w: rw})
	}
	if r.ts.intMode {
		return r.ts.ISelect(internTable(vals, IntW), arg)
	}
	return r.ts.Select(internTable(vals, rw), arg)
}

type tabCacheEntry struct {
	vals []uint64
	w    int
}
