package main

// If-conversion of small pure acyclic regions (state merging). When a symbolic branch at block B
// reconverges at B's immediate post-dominator J and everything in between is side-effect free, both
// sides are evaluated and J's phis become ite terms instead of forking the path.

import (
	"go/token"
	"go/types"

	"golang.org/x/tools/go/ssa"
)

const maxMergeBlocks = 24

func (fi *funcInfo) computeIpdom(fn *ssa.Function) {
	n := len(fn.Blocks)
	words := (n + 63) / 64
	full := make([]uint64, words)
	for i := 0; i < n; i++ {
		full[i/64] |= 1 << uint(i%64)
	}
	pd := make([][]uint64, n)
	for i, b := range fn.Blocks {
		pd[i] = make([]uint64, words)
		if len(b.Succs) == 0 {
			pd[i][i/64] |= 1 << uint(i%64)
		} else {
			copy(pd[i], full)
		}
	}
	changed := true
	tmp := make([]uint64, words)
	for changed {
		changed = false
		for i := n - 1; i >= 0; i-- {
			b := fn.Blocks[i]
			if len(b.Succs) == 0 {
				continue
			}
			copy(tmp, full)
			for _, s := range b.Succs {
				for w := range tmp {
					tmp[w] &= pd[s.Index][w]
				}
			}
			tmp[i/64] |= 1 << uint(i%64)
			for w := range tmp {
				if tmp[w] != pd[i][w] {
					changed = true
					copy(pd[i], tmp)
					break
				}
			}
		}
	}
	count := func(s []uint64) int {
		c := 0
		for _, w := range s {
			for ; w != 0; w &= w - 1 {
				c++
			}
		}
		return c
	}
	fi.ipdom = make([]int, n)
	for i := range fn.Blocks {
		fi.ipdom[i] = -1
		ci := count(pd[i])
		for j := 0; j < n; j++ {
			if j != i && pd[i][j/64]&(1<<uint(j%64)) != 0 && count(pd[j]) == ci-1 {
				fi.ipdom[i] = j
				break
			}
		}
	}
}

type mergeAbort struct{}

// tryMerge attempts to if-convert the region starting at the If terminating block b.
// On success it returns the join block with its phis already assigned.
func (r *Run) tryMerge(fr *Frame, b *ssa.BasicBlock, cond *Term) (join *ssa.BasicBlock, ok bool) {
	if r.noMerge {
		return nil, false
	}
	fi := fr.info
	if fi.ipdom == nil {
		r.eng.gmu.Lock()
		if fi.ipdom == nil {
			fi.computeIpdom(fr.fn)
		}
		r.eng.gmu.Unlock()
	}
	j := fi.ipdom[b.Index]
	if j < 0 {
		return nil, false
	}
	J := fr.fn.Blocks[j]
	// collect region blocks (reachable from b's successors without passing J)
	region := map[*ssa.BasicBlock]bool{}
	var order []*ssa.BasicBlock
	state := map[*ssa.BasicBlock]int{}
	okRegion := true
	var dfs func(x *ssa.BasicBlock)
	dfs = func(x *ssa.BasicBlock) {
		if !okRegion || x == J {
			return
		}
		switch state[x] {
		case 1:
			okRegion = false // cycle
			return
		case 2:
			return
		}
		if x == b || len(region) >= maxMergeBlocks {
			okRegion = false
			return
		}
		state[x] = 1
		region[x] = true
		for _, s := range x.Succs {
			dfs(s)
		}
		state[x] = 2
		order = append(order, x) // post-order
	}
	for _, s := range b.Succs {
		dfs(s)
	}
	if !okRegion {
		return nil, false
	}
	// static purity check + single entry
	for x := range region {
		for _, p := range x.Preds {
			if p != b && !region[p] {
				return nil, false
			}
		}
		for _, ins := range x.Instrs {
			if !staticallyPure(ins) {
				return nil, false
			}
		}
	}
	// evaluate speculatively; any dynamic problem aborts the merge (registers are SSA, so no undo needed)
	ts := r.ts
	success := false
	func() {
		defer func() {
			if e := recover(); e != nil {
				if _, isAbort := e.(mergeAbort); isAbort {
					return
				}
				if _, isGo := e.(*goPanicT); isGo {
					return // speculative fault: fall back to forking
				}
				panic(e)
			}
		}()
		type edge struct{ from, to *ssa.BasicBlock }
		eg := map[edge]*Term{}
		eg[edge{b, b.Succs[0]}] = cond
		eg[edge{b, b.Succs[1]}] = ts.BNot(cond)
		if b.Succs[0] == b.Succs[1] {
			eg[edge{b, b.Succs[0]}] = ts.Bool(true)
		}
		phiVal := func(x *ssa.BasicBlock, phi *ssa.Phi) Value {
			var res Value
			first := true
			for i, p := range x.Preds {
				g, have := eg[edge{p, x}]
				if !have {
					continue
				}
				v := r.get(fr, phi.Edges[i])
				if first {
					res = v
					first = false
					continue
				}
				res = r.iteVal(g, v, res)
			}
			if first {
				panic(mergeAbort{})
			}
			return res
		}
		for i := len(order) - 1; i >= 0; i-- { // reverse post-order = topological
			x := order[i]
			guard := ts.Bool(false)
			for _, p := range x.Preds {
				if g, have := eg[edge{p, x}]; have {
					guard = ts.BOr(guard, g)
				}
			}
			// phis (parallel)
			var pv []Value
			np := 0
			for _, ins := range x.Instrs {
				phi, isPhi := ins.(*ssa.Phi)
				if !isPhi {
					break
				}
				pv = append(pv, phiVal(x, phi))
				np++
			}
			for k := 0; k < np; k++ {
				r.set(fr, x.Instrs[k].(*ssa.Phi), pv[k])
			}
			for _, ins := range x.Instrs[np:] {
				r.steps++
				switch t := ins.(type) {
				case *ssa.If:
					c := r.ts.norm(r.get(fr, t.Cond).(*Term))
					if x.Succs[0] == x.Succs[1] {
						eg[edge{x, x.Succs[0]}] = guard
					} else {
						eg[edge{x, x.Succs[0]}] = ts.BAnd(guard, c)
						eg[edge{x, x.Succs[1]}] = ts.BAnd(guard, ts.BNot(c))
					}
				case *ssa.Jump:
					eg[edge{x, x.Succs[0]}] = guard
				default:
					r.specInstr(fr, ins)
				}
			}
		}
		// join phis
		var pv []Value
		np := 0
		for _, ins := range J.Instrs {
			phi, isPhi := ins.(*ssa.Phi)
			if !isPhi {
				break
			}
			pv = append(pv, phiVal(J, phi))
			np++
		}
		for k := 0; k < np; k++ {
			r.set(fr, J.Instrs[k].(*ssa.Phi), pv[k])
		}
		success = true
	}()
	if !success {
		return nil, false
	}
	r.merges++
	return J, true
}

func staticallyPure(ins ssa.Instruction) bool {
	switch x := ins.(type) {
	case *ssa.Phi, *ssa.If, *ssa.Jump, *ssa.DebugRef, *ssa.ChangeType, *ssa.ChangeInterface, *ssa.Extract, *ssa.Field, *ssa.FieldAddr, *ssa.MakeInterface:
		return true
	case *ssa.BinOp:
		switch x.Op {
		case token.QUO, token.REM:
			return false
		case token.SHL, token.SHR:
			return !isSigned(x.Y.Type())
		}
		return true
	case *ssa.UnOp:
		return x.Op != token.ARROW
	case *ssa.Convert:
		_, a := x.X.Type().Underlying().(*types.Basic)
		_, b := x.Type().Underlying().(*types.Basic)
		return a && b && isScalarInt(x.X.Type()) && isScalarInt(x.Type())
	case *ssa.IndexAddr, *ssa.Index, *ssa.Lookup:
		return true // checked dynamically (constant in-bounds index only)
	case *ssa.Call:
		if b, ok := x.Call.Value.(*ssa.Builtin); ok {
			return b.Name() == "len" || b.Name() == "cap"
		}
		return false
	}
	return false
}

// specInstr executes a pure instruction speculatively; anything that could fault or fork aborts.
func (r *Run) specInstr(fr *Frame, ins ssa.Instruction) {
	switch x := ins.(type) {
	case *ssa.DebugRef:
		return
	case *ssa.UnOp:
		if x.Op == token.MUL {
			p := r.get(fr, x.X).(*PtrV)
			if p.obj == nil {
				panic(mergeAbort{})
			}
		}
	case *ssa.FieldAddr:
		if r.get(fr, x.X).(*PtrV).obj == nil {
			panic(mergeAbort{})
		}
	case *ssa.IndexAddr:
		idx := r.get(fr, x.Index).(*Term)
		if !idx.IsConst() {
			panic(mergeAbort{})
		}
		i := sext64(idx.k, idx.w)
		switch c := r.get(fr, x.X).(type) {
		case *SliceV:
			if i < 0 || int(i) >= c.len {
				panic(mergeAbort{})
			}
		case *PtrV:
			if c.obj == nil {
				panic(mergeAbort{})
			}
			n := x.X.Type().Underlying().(*types.Pointer).Elem().Underlying().(*types.Array).Len()
			if i < 0 || i >= n {
				panic(mergeAbort{})
			}
		}
	case *ssa.Index:
		idx := r.get(fr, x.Index).(*Term)
		if !idx.IsConst() {
			panic(mergeAbort{})
		}
		switch c := r.get(fr, x.X).(type) {
		case *ArrayV:
			if int(idx.k) >= len(c.e) {
				panic(mergeAbort{})
			}
		case StrV:
			if int(idx.k) >= len(c.b) {
				panic(mergeAbort{})
			}
		}
	case *ssa.Lookup:
		s, isStr := r.get(fr, x.X).(StrV)
		idx, isT := r.get(fr, x.Index).(*Term)
		if !isStr || !isT || !idx.IsConst() || int(idx.k) >= len(s.b) {
			panic(mergeAbort{})
		}
	}
	r.instr(fr, ins)
}

// iteVal builds ite(c, a, b) over engine values (scalars, and aggregates of scalars).
func (r *Run) iteVal(c *Term, a, b Value) Value {
	if c.IsConst() {
		if c.k != 0 {
			return a
		}
		return b
	}
	switch x := a.(type) {
	case *Term:
		y, ok := b.(*Term)
		if !ok || y.w != x.w {
			panic(mergeAbort{})
		}
		return r.ts.Ite(c, x, y)
	case *StructV:
		y, ok := b.(*StructV)
		if !ok || len(y.f) != len(x.f) {
			panic(mergeAbort{})
		}
		n := &StructV{f: make([]Value, len(x.f))}
		for i := range x.f {
			n.f[i] = r.iteVal(c, x.f[i], y.f[i])
		}
		return n
	case *ArrayV:
		y, ok := b.(*ArrayV)
		if !ok || len(y.e) != len(x.e) {
			panic(mergeAbort{})
		}
		n := &ArrayV{e: make([]Value, len(x.e))}
		for i := range x.e {
			n.e[i] = r.iteVal(c, x.e[i], y.e[i])
		}
		return n
	case *PtrV:
		y, ok := b.(*PtrV)
		if ok && r.eqVal(x, y).k != 0 {
			return a
		}
	case StrV:
		y, ok := b.(StrV)
		if ok && len(x.b) == len(y.b) {
			nb := make([]*Term, len(x.b))
			for i := range nb {
				nb[i] = r.ts.Ite(c, x.b[i], y.b[i])
			}
			return StrV{b: nb}
		}
	case *SliceV:
		y, ok := b.(*SliceV)
		if ok && canonObj(x.obj) == canonObj(y.obj) && x.off == y.off && x.len == y.len && x.cap == y.cap {
			return a
		}
	case *IfaceV:
		y, ok := b.(*IfaceV)
		if ok && x.typ == nil && y.typ == nil {
			return a
		}
	case FloatV:
		if y, ok := b.(FloatV); ok && x == y {
			return a
		}
	}
	panic(mergeAbort{})
}
