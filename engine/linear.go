package main

// Constant-table selects (with composition / identity detection) and a GF(2)-linear normal form
// used to decide equalities over XOR networks (bech32's BCH checksum) without the solver.

import (
	"fmt"
	"math/big"
	"os"
	"sort"
	"strings"
	"sync"
)

type tableT struct {
	id   int
	vals []uint64
	w    int // element width
}

var (
	tableMu  sync.Mutex
	tableReg = map[string]*tableT{}
)

func internTable(vals []uint64, w int) *tableT {
	var sb strings.Builder
	fmt.Fprintf(&sb, "%d:", w)
	for _, v := range vals {
		fmt.Fprintf(&sb, "%x,", v)
	}
	k := sb.String()
	tableMu.Lock()
	defer tableMu.Unlock()
	if t, ok := tableReg[k]; ok {
		return t
	}
	t := &tableT{id: len(tableReg) + 1, vals: append([]uint64{}, vals...), w: w}
	tableReg[k] = t
	return t
}

// Select returns tab[idx] for idx known (by the caller's bounds check) to be < len(tab).
func (s *TermStore) Select(tab *tableT, idx *Term) *Term {
	if idx.IsConst() {
		if idx.k < uint64(len(tab.vals)) {
			return s.Const(tab.w, tab.vals[idx.k])
		}
		return s.Const(tab.w, 0)
	}
	// strip zero extension of the index
	base := idx
	for base.op == OpZExt {
		base = base.args[0]
	}
	if nb := s.linSimplify(base); nb != base {
		return s.Select(tab, nb)
	}
	if base.op == OpSelect {
		inner := base.tab
		okc := true
		nv := make([]uint64, len(inner.vals))
		for i, v := range inner.vals {
			if v >= uint64(len(tab.vals)) {
				// unreachable under the caller's bounds check (the index is known to be in range)
				nv[i] = 0
				continue
			}
			nv[i] = tab.vals[v]
		}
		if okc {
			return s.Select(internTable(nv, tab.w), base.args[0])
		}
	}
	// restrict to the feasible index range
	n := uint64(len(tab.vals))
	if base.umax+1 < n && base.umax+1 > 0 {
		n = base.umax + 1
	}
	// identity / constant detection on the feasible range (and the asserted domain of the index)
	var allowed []bool
	if s.linc != nil && s.linc.domain != nil {
		allowed = s.linc.domain[base.id]
	}
	ident, constant := true, true
	first := -1
	for i := uint64(0); i < n; i++ {
		if allowed != nil && (int(i) >= len(allowed) || !allowed[i]) {
			continue
		}
		if first < 0 {
			first = int(i)
		}
		if tab.vals[i] != i {
			ident = false
		}
		if tab.vals[i] != tab.vals[first] {
			constant = false
		}
	}
	if constant && first >= 0 {
		return s.Const(tab.w, tab.vals[first])
	}
	if ident {
		if base.w >= tab.w {
			return s.Extract(base, tab.w-1, 0)
		}
		return s.ZExt(base, tab.w)
	}
	if n < uint64(len(tab.vals)) {
		tab = internTable(tab.vals[:n], tab.w)
	}
	t := s.mk(&Term{op: OpSelect, w: tab.w, k: uint64(tab.id), args: []*Term{base}, tab: tab})
	return t
}

func (t *Term) selectBody() string {
	// nested ite over the index
	idx := t.args[0]
	var sb strings.Builder
	n := len(t.tab.vals)
	lit := func(w int, v uint64) string {
		if w == IntW {
			return intLit(big.NewInt(int64(v)))
		}
		return bvLit(w, v)
	}
	if idx.w == IntW {
		// restrict the chain to the feasible index range
		lo, hi := 0, n-1
		if idx.lo.IsInt64() && int(idx.lo.Int64()) > lo {
			lo = int(idx.lo.Int64())
		}
		if idx.hi.IsInt64() && int(idx.hi.Int64()) < hi {
			hi = int(idx.hi.Int64())
		}
		for i := lo; i < hi; i++ {
			fmt.Fprintf(&sb, "(ite (= %s %d) %s ", idx.ref(), i, lit(t.w, t.tab.vals[i]))
		}
		sb.WriteString(lit(t.w, t.tab.vals[hi]))
		for i := lo; i < hi; i++ {
			sb.WriteString(")")
		}
		return sb.String()
	}
	for i := 0; i < n-1; i++ {
		fmt.Fprintf(&sb, "(ite (= %s %s) %s ", idx.ref(), lit(idx.w, uint64(i)), lit(t.w, t.tab.vals[i]))
	}
	sb.WriteString(lit(t.w, t.tab.vals[n-1]))
	for i := 0; i < n-1; i++ {
		sb.WriteString(")")
	}
	return sb.String()
}

// selectTerm reads elems[idx-lo] (idx a 64-bit term known to be in [lo, lo+n)).
func (r *Run) selectTerm(elems []Value, idx *Term, lo, n int) *Term {
	ts := r.ts
	if ts.intMode {
		allc := true
		for i := lo; i < lo+n; i++ {
			if !elems[i].(*Term).IsConst() {
				allc = false
				break
			}
		}
		if allc && n > 1 {
			vals := make([]uint64, lo+n)
			for i := lo; i < lo+n; i++ {
				vals[i] = uint64(elems[i].(*Term).bk.Int64())
			}
			return ts.ISelect(internTable(vals, IntW), idx)
		}
		var res *Term
		for i := lo + n - 1; i >= lo; i-- {
			e := elems[i].(*Term)
			if res == nil {
				res = e
			} else {
				res = ts.Ite(ts.Eq(idx, ts.IConst64(int64(i))), e, res)
			}
		}
		return res
	}
	allc := true
	for i := lo; i < lo+n; i++ {
		if !elems[i].(*Term).IsConst() {
			allc = false
			break
		}
	}
	if allc && n > 1 {
		vals := make([]uint64, n)
		for i := 0; i < n; i++ {
			vals[i] = elems[lo+i].(*Term).k
		}
		w := elems[lo].(*Term).w
		if w > 0 {
			return ts.Select(internTable(vals, w), ts.Sub(idx, ts.Const(idx.w, uint64(lo))))
		}
	}
	var res *Term
	for i := lo + n - 1; i >= lo; i-- {
		e := elems[i].(*Term)
		if res == nil {
			res = e
		} else {
			res = ts.Ite(ts.Eq(idx, ts.Const(idx.w, uint64(i))), e, res)
		}
	}
	return res
}

// ---------------------------------------------------------------------------------------------
// GF(2) linear forms: each bit is (constant ^ XOR of atoms); atoms are bits of non-linear terms.

type linBit struct {
	c     bool
	atoms []int32 // sorted atom ids
}

type linForm []linBit // index = bit position

type linCtx struct {
	memo    map[int]linForm
	atomIDs map[[2]int]int32
	atomOf  []atomRef
	budget  int
	// GF(2) system of path constraints in reduced echelon form: pivot atom -> row (without the pivot)
	rows    map[int32]linBit
	nrows   int
	rowIdx  map[string]int32
	rowIdxN int
	domain  map[int][]bool // index term id -> allowed index values (from asserted table predicates)
}

// noteDomain records an asserted predicate (= Select(T,idx) #b1) as a restriction of idx's domain.
func (s *TermStore) noteDomain(c *Term) {
	p := predSelect(c)
	if p == nil {
		return
	}
	lc := s.lin()
	if lc.domain == nil {
		lc.domain = map[int][]bool{}
	}
	idx := p.args[0]
	cur, ok := lc.domain[idx.id]
	if !ok {
		cur = make([]bool, len(p.tab.vals))
		for i := range cur {
			cur[i] = true
		}
	}
	for i := range cur {
		if i >= len(p.tab.vals) || p.tab.vals[i] == 0 {
			cur[i] = false
		}
	}
	lc.domain[idx.id] = cur
	if s.sub == nil {
		s.sub = &substCtx{m: map[int]*Term{}, memo: map[int]*Term{}}
	}
	s.sub.memo = map[int]*Term{}
	s.sub.m[-1-idx.id] = s.tt // marks the fact set as non-empty so that norm() runs
}

type atomRef struct {
	t   *Term
	bit int
}

// reduce substitutes pivot atoms using the path's linear system.
func (lc *linCtx) reduce(b linBit) linBit {
	if len(lc.rows) == 0 || len(b.atoms) == 0 {
		return b
	}
	for changed := true; changed; {
		changed = false
		for _, a := range b.atoms {
			if row, ok := lc.rows[a]; ok {
				// a = row  (row has no pivots of other rows: fully reduced)
				b = linBit{c: b.c != row.c, atoms: xorAtoms(xorAtoms(b.atoms, []int32{a}), row.atoms)}
				changed = true
				break
			}
		}
	}
	return b
}

// addEquation records  XOR(atoms) == c  as a path fact. Returns false if it contradicts the system.
func (lc *linCtx) addEquation(b linBit) bool {
	b = lc.reduce(b)
	if len(b.atoms) == 0 {
		return !b.c
	}
	if lc.rows == nil {
		lc.rows = map[int32]linBit{}
	}
	// pivot = the most recently created atom (e.g. checksum symbols), so that earlier atoms stay free
	p := b.atoms[len(b.atoms)-1]
	row := linBit{c: b.c, atoms: append([]int32{}, b.atoms[:len(b.atoms)-1]...)}
	// eliminate p from existing rows
	for q, r := range lc.rows {
		for _, a := range r.atoms {
			if a == p {
				lc.rows[q] = linBit{c: r.c != row.c, atoms: xorAtoms(xorAtoms(r.atoms, []int32{p}), row.atoms)}
				break
			}
		}
	}
	lc.rows[p] = row
	lc.nrows++
	return true
}

// noteEquality feeds an asserted equality a == b into the linear system when it is XOR-structured.
// It returns the equivalent solved-form constraints (pivot bit = XOR of free bits) to assert instead
// of the deep XOR network, ok=false if the equality is not XOR-structured, and contradiction=true if
// the system became inconsistent.
func (s *TermStore) noteEquality(a, b *Term) (ok bool, contradiction bool) {
	if a.w == 0 || a.w > 64 {
		return false, false
	}
	if !hasXor(a, 8) && !hasXor(b, 8) {
		// plain equalities with a constant still refine a non-empty system (e.g. padding bits == 0)
		lc := s.lin()
		if len(lc.rows) > 0 && (a.IsConst() || b.IsConst()) {
			fa, fb := lc.form(a), lc.form(b)
			for i := range fa {
				if !lc.addEquation(linBit{c: fa[i].c != fb[i].c, atoms: xorAtoms(fa[i].atoms, fb[i].atoms)}) {
					return false, true
				}
			}
		}
		return false, false
	}
	lc := s.lin()
	fa, fb := lc.form(a), lc.form(b)
	for i := range fa {
		if !lc.addEquation(linBit{c: fa[i].c != fb[i].c, atoms: xorAtoms(fa[i].atoms, fb[i].atoms)}) {
			return true, true
		}
	}
	return true, false
}

// linSimplify rewrites an XOR-structured term by its reduced linear form when that form is a constant
// or a contiguous bit range of a single existing term.
func (s *TermStore) linSimplify(t *Term) *Term {
	if t.w == 0 || t.w > 64 || !hasXor(t, 8) {
		return t
	}
	lc := s.lin()
	if len(lc.rows) == 0 {
		return t
	}
	f := lc.form(t)
	red := make(linForm, len(f))
	allConst := true
	if lc.rowIdxN != lc.nrows {
		lc.rowIdx = map[string]int32{}
		for p, row := range lc.rows {
			lc.rowIdx[rowKey(row)] = p
		}
		lc.rowIdxN = lc.nrows
	}
	for i := range f {
		red[i] = lc.reduce(f[i])
		if len(red[i].atoms) > 1 {
			if p, ok := lc.rowIdx[rowKey(red[i])]; ok {
				red[i] = linBit{atoms: []int32{p}}
			}
		}
		if len(red[i].atoms) != 0 {
			allConst = false
		}
	}
	if allConst {
		var v uint64
		for i := range red {
			if red[i].c {
				v |= 1 << uint(i)
			}
		}
		return s.Const(t.w, v)
	}
	if os.Getenv("GOSYM_LINDBG") != "" {
		fmt.Fprintf(os.Stderr, "[lin] simplify w=%d rows=%d:", t.w, len(lc.rows))
		for i := range red {
			if i < 8 {
				fmt.Fprintf(os.Stderr, " b%d{c=%v n=%d", i, red[i].c, len(red[i].atoms))
				if len(red[i].atoms) <= 3 {
					for _, a := range red[i].atoms {
						ar := lc.atomOf[a]
						fmt.Fprintf(os.Stderr, " %s#%d.%d", opNames[ar.t.op], ar.t.id, ar.bit)
					}
				}
				fmt.Fprintf(os.Stderr, "}")
			}
		}
		fmt.Fprintln(os.Stderr)
	}
	// low k bits = consecutive bits of one term, rest zero
	var base *Term
	lo, k := 0, 0
	for i := range red {
		b := red[i]
		if len(b.atoms) == 0 && !b.c {
			// zero bit: must be above the run
			if k == i {
				continue
			}
			continue
		}
		if b.c || len(b.atoms) != 1 || i != k {
			return t
		}
		ar := lc.atomOf[b.atoms[0]]
		if base == nil {
			base, lo = ar.t, ar.bit
		} else if ar.t != base || ar.bit != lo+k {
			return t
		}
		k++
	}
	if base == nil || k == 0 {
		return t
	}
	return s.ZExt(s.Extract(base, lo+k-1, lo), t.w)
}

func (s *TermStore) lin() *linCtx {
	if s.linc == nil {
		s.linc = &linCtx{memo: map[int]linForm{}, atomIDs: map[[2]int]int32{}}
	}
	return s.linc
}

func xorAtoms(a, b []int32) []int32 {
	if len(a) == 0 {
		return b
	}
	if len(b) == 0 {
		return a
	}
	out := make([]int32, 0, len(a)+len(b))
	i, j := 0, 0
	for i < len(a) && j < len(b) {
		switch {
		case a[i] < b[j]:
			out = append(out, a[i])
			i++
		case a[i] > b[j]:
			out = append(out, b[j])
			j++
		default:
			i++
			j++
		}
	}
	out = append(out, a[i:]...)
	out = append(out, b[j:]...)
	return out
}

func (lc *linCtx) atomForm(t *Term) linForm {
	f := make(linForm, t.w)
	um := t.umax
	if t.op == OpSelect && lc.domain != nil {
		if allowed, ok := lc.domain[t.args[0].id]; ok {
			um = 0
			for i, v := range t.tab.vals {
				if i < len(allowed) && allowed[i] && v > um {
					um = v
				}
			}
		}
	}
	for i := range f {
		k := [2]int{t.id, i}
		id, ok := lc.atomIDs[k]
		if !ok {
			id = int32(len(lc.atomIDs))
			lc.atomIDs[k] = id
			lc.atomOf = append(lc.atomOf, atomRef{t, i})
		}
		// bits above umax are known zero
		if i < 64 && um>>uint(i) == 0 {
			continue
		}
		f[i] = linBit{atoms: []int32{id}}
	}
	return f
}

func (lc *linCtx) form(t *Term) linForm {
	if f, ok := lc.memo[t.id]; ok {
		return f
	}
	var f linForm
	switch t.op {
	case OpConst:
		f = make(linForm, t.w)
		for i := range f {
			f[i].c = t.k>>uint(i)&1 != 0
		}
	case OpXor:
		a, b := lc.form(t.args[0]), lc.form(t.args[1])
		f = make(linForm, t.w)
		for i := range f {
			f[i] = linBit{c: a[i].c != b[i].c, atoms: xorAtoms(a[i].atoms, b[i].atoms)}
		}
	case OpOr, OpAdd:
		// linear only when bit-disjoint
		a, b := lc.form(t.args[0]), lc.form(t.args[1])
		f = make(linForm, t.w)
		ok := true
		for i := range f {
			az := !a[i].c && len(a[i].atoms) == 0
			bz := !b[i].c && len(b[i].atoms) == 0
			switch {
			case az:
				f[i] = b[i]
			case bz:
				f[i] = a[i]
			default:
				ok = false
			}
		}
		if !ok {
			f = lc.atomForm(t)
		}
	case OpAnd:
		if t.args[1].IsConst() {
			a := lc.form(t.args[0])
			f = make(linForm, t.w)
			for i := range f {
				if t.args[1].k>>uint(i)&1 != 0 {
					f[i] = a[i]
				}
			}
		} else {
			f = lc.atomForm(t)
		}
	case OpNot:
		a := lc.form(t.args[0])
		f = make(linForm, t.w)
		for i := range f {
			f[i] = linBit{c: !a[i].c, atoms: a[i].atoms}
		}
	case OpNeg:
		// -(x) where x is a single bit value: replicate bit 0
		a := lc.form(t.args[0])
		single := true
		for i := 1; i < len(a); i++ {
			if a[i].c || len(a[i].atoms) != 0 {
				single = false
				break
			}
		}
		if single {
			f = make(linForm, t.w)
			for i := range f {
				f[i] = a[0]
			}
		} else {
			f = lc.atomForm(t)
		}
	case OpShl, OpLShr:
		if t.args[1].IsConst() {
			a := lc.form(t.args[0])
			sh := int(t.args[1].k)
			f = make(linForm, t.w)
			for i := range f {
				var src int
				if t.op == OpShl {
					src = i - sh
				} else {
					src = i + sh
				}
				if src >= 0 && src < t.w {
					f[i] = a[src]
				}
			}
		} else {
			f = lc.atomForm(t)
		}
	case OpZExt:
		a := lc.form(t.args[0])
		f = make(linForm, t.w)
		copy(f, a)
	case OpExtract:
		a := lc.form(t.args[0])
		lo := int(t.k & 0xff)
		f = make(linForm, t.w)
		copy(f, a[lo:lo+t.w])
	case OpConcat:
		hi, lo := lc.form(t.args[0]), lc.form(t.args[1])
		f = make(linForm, 0, t.w)
		f = append(f, lo...)
		f = append(f, hi...)
	default:
		f = lc.atomForm(t)
	}
	lc.memo[t.id] = f
	return f
}

func hasXor(t *Term, depth int) bool {
	if depth == 0 {
		return false
	}
	switch t.op {
	case OpXor:
		return true
	case OpAnd, OpOr, OpShl, OpLShr, OpZExt, OpExtract, OpNot:
		return hasXor(t.args[0], depth-1)
	}
	return false
}

// linEq decides a == b when both are GF(2)-linear over the same atoms: 1 true, 0 false, -1 unknown.
func (s *TermStore) linEq(a, b *Term) int {
	if a.w == 0 || a.w > 64 {
		return -1
	}
	if !hasXor(a, 6) && !hasXor(b, 6) {
		return -1
	}
	lc := s.lin()
	fa, fb := lc.form(a), lc.form(b)
	allZero := true
	for i := range fa {
		d := lc.reduce(linBit{c: fa[i].c != fb[i].c, atoms: xorAtoms(fa[i].atoms, fb[i].atoms)})
		if len(d.atoms) == 0 {
			if d.c {
				return 0 // some bit differs by a constant
			}
			continue
		}
		allZero = false
	}
	if allZero {
		return 1
	}
	return -1
}

var _ = sort.Ints

// linBranch classifies a branch condition that is an XOR-structured (dis)equality: such conditions
// are not sent to the solver for feasibility (bit-blasted XOR chains stall it). A linear equality is
// infeasible iff it contradicts the path's GF(2) system; otherwise both sides are explored (the path
// condition still carries the constraint, so any later assertion/model query stays exact).
func (s *TermStore) linBranch(c *Term) (structured bool, eqConsistent bool) {
	e := c
	if e.op == OpBNot {
		e = e.args[0]
	}
	if e.op != OpEq || e.args[0].w == 0 || e.args[0].w > 64 {
		return false, false
	}
	a, b := e.args[0], e.args[1]
	if !hasXor(a, 8) && !hasXor(b, 8) {
		return false, false
	}
	lc := s.lin()
	fa, fb := lc.form(a), lc.form(b)
	// trial insertion on a copy of the system
	saved := lc.rows
	cp := map[int32]linBit{}
	for k, v := range saved {
		cp[k] = v
	}
	lc.rows = cp
	ok := true
	for i := range fa {
		if !lc.addEquation(linBit{c: fa[i].c != fb[i].c, atoms: xorAtoms(fa[i].atoms, fb[i].atoms)}) {
			ok = false
			break
		}
	}
	lc.rows = saved
	return true, ok
}

func rowKey(b linBit) string {
	var sb strings.Builder
	if b.c {
		sb.WriteByte('1')
	} else {
		sb.WriteByte('0')
	}
	for _, a := range b.atoms {
		fmt.Fprintf(&sb, ",%d", a)
	}
	return sb.String()
}

// rowTerms renders the current system in solved form: pivot bit = XOR(free bits) ^ c.
func (s *TermStore) rowTerms() []*Term {
	lc := s.lin()
	bitTerm := func(id int32) *Term {
		ar := lc.atomOf[id]
		return s.Extract(ar.t, ar.bit, ar.bit)
	}
	var pivots []int32
	for p := range lc.rows {
		pivots = append(pivots, p)
	}
	sort.Slice(pivots, func(i, j int) bool { return pivots[i] < pivots[j] })
	var out []*Term
	for _, p := range pivots {
		row := lc.rows[p]
		var rhs *Term
		if row.c {
			rhs = s.Const(1, 1)
		} else {
			rhs = s.Const(1, 0)
		}
		for _, at := range row.atoms {
			// raw construction: the simplifier would fold these using the very system they encode
			rhs = s.mk(&Term{op: OpXor, w: 1, args: []*Term{rhs, bitTerm(at)}})
		}
		out = append(out, s.mk(&Term{op: OpEq, w: 0, args: []*Term{bitTerm(p), rhs}}))
	}
	return out
}

// linAtoms lists the bit terms of all atoms occurring in the system, split into free atoms and pivots.
func (s *TermStore) linAtoms() (free []int32, pivots []int32) {
	lc := s.lin()
	seen := map[int32]bool{}
	for p, row := range lc.rows {
		pivots = append(pivots, p)
		for _, a := range row.atoms {
			if !seen[a] {
				seen[a] = true
				free = append(free, a)
			}
		}
	}
	sort.Slice(free, func(i, j int) bool { return free[i] < free[j] })
	sort.Slice(pivots, func(i, j int) bool { return pivots[i] < pivots[j] })
	return
}

func (s *TermStore) atomBitTerm(id int32) *Term {
	ar := s.lin().atomOf[id]
	return s.Extract(ar.t, ar.bit, ar.bit)
}
