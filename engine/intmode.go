package main

// Go integer semantics over Int-sorted terms (see intterm.go).

import (
	"fmt"
	"go/token"
	"go/types"
	"math/big"

	"golang.org/x/tools/go/ssa"
)

func (r *Run) typeRange(t types.Type) (w int, signed bool) {
	return r.eng.width(t), isSigned(t)
}

func bitLen(v *big.Int) int { return v.BitLen() }

func (m *intModeT) binop(r *Run, op token.Token, x, y *Term, ta, tb types.Type) (Value, bool) {
	if x.w != IntW || y.w != IntW {
		return nil, false
	}
	ts := r.ts
	w, signed := r.typeRange(ta)
	wrap := func(t *Term) *Term { return ts.iwrap(t, w, signed) }
	switch op {
	case token.ADD:
		return wrap(ts.IAdd(x, y)), true
	case token.SUB:
		return wrap(ts.ISub(x, y)), true
	case token.MUL:
		return wrap(ts.IMul(x, y)), true
	case token.QUO, token.REM:
		if r.branch(ts.IEq(y, ts.IConst(bigZero))) {
			r.goPanic("runtime error: integer divide by zero")
		}
		if !y.IsConst() {
			yv := r.concretizeInt(y, "divisor")
			y = ts.IConst(yv)
		}
		c := new(big.Int).Abs(y.bk)
		var q *Term
		if x.lo.Sign() >= 0 {
			q = ts.IDivC(x, c)
		} else if x.hi.Sign() < 0 {
			q = ts.INeg(ts.IDivC(ts.INeg(x), c))
		} else {
			q = ts.Ite(ts.ILt(x, ts.IConst(bigZero)), ts.INeg(ts.IDivC(ts.INeg(x), c)), ts.IDivC(x, c))
		}
		if y.bk.Sign() < 0 {
			q = ts.INeg(q)
		}
		if op == token.QUO {
			return wrap(q), true
		}
		return wrap(ts.ISub(x, ts.IMulC(y.bk, q))), true
	case token.AND:
		return r.iand(x, y, w), true
	case token.AND_NOT:
		return ts.ISub(x, r.iand(x, y, w)), true
	case token.OR:
		return r.ior(x, y, w), true
	case token.XOR:
		// x ^ y = (x | y) - (x & y)
		if x.IsConst() && y.IsConst() {
			return ts.IConst(new(big.Int).Xor(x.bk, y.bk)), true
		}
		return ts.ISub(r.ior(x, y, w), r.iand(x, y, w)), true
	case token.SHL, token.SHR:
		if !y.IsConst() {
			yv := r.concretizeInt(y, "shift count")
			y = ts.IConst(yv)
		}
		if y.bk.Sign() < 0 {
			r.goPanic("runtime error: negative shift amount")
		}
		k := int(y.bk.Int64())
		if !y.bk.IsInt64() || k > 4096 {
			k = 4096
		}
		if op == token.SHL {
			if k >= w {
				return ts.IConst(bigZero), true
			}
			return wrap(ts.IMulC(pow2(k), x)), true
		}
		if k >= w {
			if signed {
				return ts.Ite(ts.ILt(x, ts.IConst(bigZero)), ts.IConst64(-1), ts.IConst(bigZero)), true
			}
			return ts.IConst(bigZero), true
		}
		return ts.IDivC(x, pow2(k)), true
	case token.EQL:
		return ts.IEq(x, y), true
	case token.NEQ:
		return ts.BNot(ts.IEq(x, y)), true
	case token.LSS:
		return ts.ILt(x, y), true
	case token.LEQ:
		return ts.ILe(x, y), true
	case token.GTR:
		return ts.ILt(y, x), true
	case token.GEQ:
		return ts.ILe(y, x), true
	}
	return nil, false
}

func (r *Run) concretizeInt(t *Term, what string) *big.Int {
	if t.IsConst() {
		return t.bk
	}
	v := r.concretize(t, what)
	return big.NewInt(int64(v))
}

// iand: bitwise AND on non-negative-view integers.
func (r *Run) iand(x, y *Term, w int) *Term {
	ts := r.ts
	if x.IsConst() && !y.IsConst() {
		x, y = y, x
	}
	if x.IsConst() && y.IsConst() {
		return ts.IConst(new(big.Int).And(ts.uview(x, w).bk, ts.uview(y, w).bk))
	}
	x = ts.uview(x, w)
	if y.IsConst() {
		m := new(big.Int).Set(y.bk)
		if m.Sign() < 0 {
			m.Add(m, pow2(w))
		}
		if m.Sign() == 0 {
			return ts.IConst(bigZero)
		}
		// contiguous run of ones [a, b)
		a := int(m.TrailingZeroBits())
		sh := new(big.Int).Rsh(m, uint(a))
		b := a + sh.BitLen()
		if new(big.Int).Add(sh, bigOne).Cmp(pow2(sh.BitLen())) == 0 {
			v := x
			if b <= w && x.hi.Cmp(pow2(b)) >= 0 {
				v = ts.IModC(v, pow2(b))
			}
			if a > 0 {
				v = ts.IMulC(pow2(a), ts.IDivC(v, pow2(a)))
			}
			return v
		}
		// general mask: sum over its runs
		res := ts.IConst(bigZero)
		rest := new(big.Int).Set(m)
		for rest.Sign() != 0 {
			a := int(rest.TrailingZeroBits())
			sh := new(big.Int).Rsh(rest, uint(a))
			n := 0
			for sh.Bit(n) == 1 {
				n++
			}
			run := new(big.Int).Lsh(new(big.Int).Sub(pow2(n), bigOne), uint(a))
			res = ts.IAdd(res, r.iand(x, ts.IConst(run), w))
			rest.AndNot(rest, run)
		}
		return res
	}
	y = ts.uview(y, w)
	// both symbolic: a fresh value constrained by sound facts about & (enough for "all-ones" mask idioms)
	hi := minBig(x.hi, y.hi)
	if hi.Sign() == 0 {
		return ts.IConst(bigZero)
	}
	key := fmt.Sprintf("and:%d:%d", x.id, y.id)
	if v, ok := r.ghostVal[key]; ok {
		return v.(*Term)
	}
	ts.quotSeq++
	v := ts.IVar(fmt.Sprintf("and!%d", ts.quotSeq), bigZero, hi)
	ts.pending = append(ts.pending, ts.mkRaw(OpSle, 0, v, x), ts.mkRaw(OpSle, 0, v, y))
	// if both operands are bounded by the same all-ones mask M: v == M  <=>  x == M and y == M
	mx := maxBig(x.hi, y.hi)
	if new(big.Int).Add(mx, bigOne).Cmp(pow2(mx.BitLen())) == 0 {
		M := ts.IConst(mx)
		both := ts.BAnd(ts.IEq(x, M), ts.IEq(y, M))
		ts.pending = append(ts.pending, ts.mkRaw(OpEq, 0, order(ts.mkRaw(OpEq, 0, order(v, M)...), both)...))
	}
	r.h.noteAssumption("x & y of two symbolic integers is a fresh value with v<=x, v<=y and (v==M <=> x==M and y==M) for an all-ones bound M (sound, incomplete)")
	r.ghostVal[key] = v
	return v
}

func (r *Run) ior(x, y *Term, w int) *Term {
	ts := r.ts
	if x.IsConst() && y.IsConst() {
		return ts.IConst(new(big.Int).Or(ts.uview(x, w).bk, ts.uview(y, w).bk))
	}
	x, y = ts.uview(x, w), ts.uview(y, w)
	if x.IsConst() && x.bk.Sign() == 0 {
		return y
	}
	if y.IsConst() && y.bk.Sign() == 0 {
		return x
	}
	// bit-disjoint operands: | is +
	if y.lo.Sign() >= 0 && tzKnown(x) >= bitLen(y.hi) {
		return ts.IAdd(x, y)
	}
	if x.lo.Sign() >= 0 && tzKnown(y) >= bitLen(x.hi) {
		return ts.IAdd(x, y)
	}
	// both 0/1
	if x.hi.Cmp(bigOne) <= 0 && y.hi.Cmp(bigOne) <= 0 && x.lo.Sign() >= 0 && y.lo.Sign() >= 0 {
		return ts.Ite(ts.BOr(ts.IEq(x, ts.IConst(bigOne)), ts.IEq(y, ts.IConst(bigOne))), ts.IConst(bigOne), ts.IConst(bigZero))
	}
	// x | c with c = 2^k-1 and general x: (x div 2^k)*2^k + c
	if y.IsConst() && new(big.Int).Add(y.bk, bigOne).Cmp(pow2(y.bk.BitLen())) == 0 {
		k := y.bk.BitLen()
		return ts.IAdd(ts.IMulC(pow2(k), ts.IDivC(x, pow2(k))), y)
	}
	// split on bits: x | y = x + y - (x & y)
	return ts.ISub(ts.IAdd(x, y), r.iand(x, y, w))
}

func (m *intModeT) convert(r *Run, x *Term, from, to types.Type) (Value, bool) {
	if x.w != IntW {
		return nil, false
	}
	w, signed := r.typeRange(to)
	return r.ts.iwrap(x, w, signed), true
}

func (r *Run) intUnop(op token.Token, x *Term, t types.Type) (Value, bool) {
	if x.w != IntW {
		return nil, false
	}
	w, signed := r.typeRange(t)
	switch op {
	case token.SUB:
		return r.ts.iwrap(r.ts.INeg(x), w, signed), true
	case token.XOR:
		if signed {
			return r.ts.ISub(r.ts.INeg(x), r.ts.IConst(bigOne)), true
		}
		return r.ts.ISub(r.ts.IConst(new(big.Int).Sub(pow2(w), bigOne)), x), true
	}
	return nil, false
}

func (r *Run) drainPending() {
	ts := r.ts
	for len(ts.pending) > 0 {
		p := ts.pending
		ts.pending = nil
		for _, c := range p {
			if !c.IsConst() {
				r.pc = append(r.pc, c)
			}
		}
	}
}

func init() {
	// math/bits primitives (exact in Int mode; the Go bodies are used in BV mode)
	intrinsics["math/bits.Mul64"] = func(r *Run, fn *ssa.Function, a []Value) Value {
		x, y := a[0].(*Term), a[1].(*Term)
		if x.w != IntW {
			return r.callBody(fn, a)
		}
		p := r.ts.IMul(x, y)
		return TupleV{r.ts.IDivC(p, pow2(64)), r.ts.IModC(p, pow2(64))}
	}
	intrinsics["math/bits.Add64"] = func(r *Run, fn *ssa.Function, a []Value) Value {
		x, y, c := a[0].(*Term), a[1].(*Term), a[2].(*Term)
		if x.w != IntW {
			return r.callBody(fn, a)
		}
		s := r.ts.IAdd(r.ts.IAdd(x, y), c)
		return TupleV{r.ts.IModC(s, pow2(64)), r.ts.IDivC(s, pow2(64))}
	}
	intrinsics["math/bits.Sub64"] = func(r *Run, fn *ssa.Function, a []Value) Value {
		x, y, c := a[0].(*Term), a[1].(*Term), a[2].(*Term)
		if x.w != IntW {
			return r.callBody(fn, a)
		}
		d := r.ts.ISub(r.ts.ISub(x, y), c)
		// borrow = 1 iff d < 0 ; diff = d mod 2^64
		return TupleV{r.ts.IModC(d, pow2(64)), r.ts.INeg(r.ts.IDivC(d, pow2(64)))}
	}
	intrinsics[zz+"IntMode"] = func(r *Run, fn *ssa.Function, a []Value) Value {
		if len(r.inputs) > 0 {
			panic(unsupported("zzverif.IntMode must be called before any input is created"))
		}
		r.intMode = &intModeT{}
		r.ts.intMode = true
		r.h.noteBound("scalar encoding", "Int mode: mathematical integers with explicit wrap-around (products of two symbolic factors abstracted to bounded variables)")
		return nil
	}
	// CongruentMod(x, y, m): engine-level predicate  x ≡ y (mod m) for big.Int values, m concrete.
	intrinsics[zz+"CongruentMod"] = func(r *Run, fn *ssa.Function, a []Value) Value {
		x, y, m := r.bigCell(a[0], false), r.bigCell(a[1], false), r.bigCell(a[2], false)
		if m.sym != nil || m.v == nil {
			panic(unsupported("CongruentMod needs a concrete modulus"))
		}
		if x.sym == nil && y.sym == nil {
			d := new(big.Int).Sub(x.v, y.v)
			return r.ts.Bool(new(big.Int).Mod(d, m.v).Sign() == 0)
		}
		d := r.ts.ISub(r.bigTerm(x), r.bigTerm(y))
		// congruent iff d == m*k for some k: the negation is  d == m*k + t, 0 < t < m  (existential, fresh k,t)
		rem := r.ts.IModC(d, m.v)
		return r.ts.IEq(rem, r.ts.IConst(bigZero))
	}
}

// callBody runs the function's own SSA body (bypassing the intrinsic table).
func (r *Run) callBody(fn *ssa.Function, args []Value) Value {
	r.bypass[fn] = true
	defer delete(r.bypass, fn)
	return r.callFunction(fn, args, nil)
}

// fixSort converts bit-vector constants coming from init-time (frozen) objects to Int constants when the
// run is in Int mode. t may be nil (then scalars are taken as unsigned, which is right for bytes).
func (r *Run) fixSort(v Value, t types.Type) Value {
	if !r.ts.intMode {
		return v
	}
	switch x := v.(type) {
	case *Term:
		if x.w == IntW || x.w == 0 {
			return x
		}
		if !x.IsConst() {
			panic(unsupported("bit-vector term met in Int mode"))
		}
		if t != nil && isSigned(t) {
			return r.ts.IConst64(sext64(x.k, x.w))
		}
		return r.ts.IConstU(x.k)
	case *StructV:
		var st *types.Struct
		if t != nil {
			st, _ = t.Underlying().(*types.Struct)
		}
		for i := range x.f {
			var ft types.Type
			if st != nil {
				ft = st.Field(i).Type()
			}
			x.f[i] = r.fixSort(x.f[i], ft)
		}
		return x
	case *ArrayV:
		var et types.Type
		if t != nil {
			if at, ok := t.Underlying().(*types.Array); ok {
				et = at.Elem()
			}
		}
		for i := range x.e {
			x.e[i] = r.fixSort(x.e[i], et)
		}
		return x
	case StrV:
		changed := false
		for _, b := range x.b {
			if b.w != IntW {
				changed = true
				break
			}
		}
		if !changed {
			return x
		}
		nb := make([]*Term, len(x.b))
		for i, b := range x.b {
			nb[i] = r.fixSort(b, nil).(*Term)
		}
		return StrV{b: nb}
	case *IfaceV:
		if x.typ != nil {
			return &IfaceV{typ: x.typ, val: r.fixSort(x.val, x.typ)}
		}
	}
	return v
}
