// Copyright 2010 The Go Authors. All rights reserved.
// Use of this source code is governed by a BSD-style
// license that can be found in the LICENSE file.

// RIPEMD-160 block step.
// In its own file so that a faster assembly or C version
// can be substituted easily.

package ripemd160

import (
	"math/bits"
)

// work buffer indices and roll amounts for one line
var _n = [80]uint{
	0, 1, 2, 3, 4, 5, 6, 7, 8, 9, 10, 11, 12, 13, 14, 15,
	7, 4, 13, 1, 10, 6, 15, 3, 12, 0, 9, 5, 2, 14, 11, 8,
	3, 10, 14, 4, 9, 15, 8, 1, 2, 7, 0, 6, 13, 11, 5, 12,
	1, 9, 11, 10, 0, 8, 12, 4, 13, 3, 7, 15, 14, 5, 6, 2,
	4, 0, 5, 9, 7, 12, 2, 10, 14, 1, 3, 8, 11, 6, 15, 13,
}

var _r = [80]uint{
	11, 14, 15, 12, 5, 8, 7, 9, 11, 13, 14, 15, 6, 7, 9, 8,
	7, 6, 8, 13, 11, 9, 7, 15, 7, 12, 15, 9, 11, 7, 13, 12,
	11, 13, 6, 7, 14, 9, 13, 15, 14, 8, 13, 6, 5, 12, 7, 5,
	11, 12, 14, 15, 14, 15, 9, 8, 9, 14, 5, 6, 8, 6, 5, 12,
	9, 15, 5, 11, 6, 8, 13, 12, 5, 12, 13, 14, 11, 8, 5, 6,
}

// same for the other parallel one
var n_ = [80]uint{
	5, 14, 7, 0, 9, 2, 11, 4, 13, 6, 15, 8, 1, 10, 3, 12,
	6, 11, 3, 7, 0, 13, 5, 10, 14, 15, 8, 12, 4, 9, 1, 2,
	15, 5, 1, 3, 7, 14, 6, 9, 11, 8, 12, 2, 10, 0, 4, 13,
	8, 6, 4, 1, 3, 11, 15, 0, 5, 12, 2, 13, 9, 7, 10, 14,
	12, 15, 10, 4, 1, 5, 8, 7, 6, 2, 13, 14, 0, 3, 9, 11,
}

var r_ = [80]uint{
	8, 9, 9, 11, 13, 15, 15, 5, 7, 7, 8, 11, 14, 14, 12, 6,
	9, 13, 15, 7, 12, 8, 9, 11, 7, 7, 12, 7, 6, 15, 13, 11,
	9, 7, 15, 11, 8, 6, 6, 14, 12, 13, 5, 14, 13, 13, 7, 5,
	15, 5, 8, 11, 14, 14, 6, 14, 6, 9, 12, 9, 12, 5, 15, 8,
	8, 5, 12, 9, 12, 5, 14, 6, 8, 13, 6, 5, 15, 13, 11, 11,
}

func _Block(md *digest, p []byte) int {
	n := 0
	var x [16]uint32
	var alpha, beta uint32
	for len(p) >= BlockSize {
		a, b, c, d, e := md.s[0], md.s[1], md.s[2], md.s[3], md.s[4]
		aa, bb, cc, dd, ee := a, b, c, d, e
		j := 0
		for i := 0; i < 16; i++ {
			x[i] = uint32(p[j]) | uint32(p[j+1])<<8 | uint32(p[j+2])<<16 | uint32(p[j+3])<<24
			j += 4
		}

		// round 1
		i := 0
		for i < 16 {
			alpha = a + (b ^ c ^ d) + x[_n[i]]
			s := int(_r[i])
			alpha = bits.RotateLeft32(alpha, s) + e
			beta = bits.RotateLeft32(c, 10)
			a, b, c, d, e = e, alpha, b, beta, d

			// parallel line
			alpha = aa + (bb ^ (cc | ^dd)) + x[n_[i]] + 0x50a28be6
			s = int(r_[i])
			alpha = bits.RotateLeft32(alpha, s) + ee
			beta = bits.RotateLeft32(cc, 10)
			aa, bb, cc, dd, ee = ee, alpha, bb, beta, dd

			i++
		}

		// round 2
		for i < 32 {
			alpha = a + (b&c | ^b&d) + x[_n[i]] + 0x5a827999
			s := int(_r[i])
			alpha = bits.RotateLeft32(alpha, s) + e
			beta = bits.RotateLeft32(c, 10)
			a, b, c, d, e = e, alpha, b, beta, d

			// parallel line
			alpha = aa + (bb&dd | cc&^dd) + x[n_[i]] + 0x5c4dd124
			s = int(r_[i])
			alpha = bits.RotateLeft32(alpha, s) + ee
			beta = bits.RotateLeft32(cc, 10)
			aa, bb, cc, dd, ee = ee, alpha, bb, beta, dd

			i++
		}

		// round 3
		for i < 48 {
			alpha = a + (b | ^c ^ d) + x[_n[i]] + 0x6ed9eba1
			s := int(_r[i])
			alpha = bits.RotateLeft32(alpha, s) + e
			beta = bits.RotateLeft32(c, 10)
			a, b, c, d, e = e, alpha, b, beta, d

			// parallel line
			alpha = aa + (bb | ^cc ^ dd) + x[n_[i]] + 0x6d703ef3
			s = int(r_[i])
			alpha = bits.RotateLeft32(alpha, s) + ee
			beta = bits.RotateLeft32(cc, 10)
			aa, bb, cc, dd, ee = ee, alpha, bb, beta, dd

			i++
		}

		// round 4
		for i < 64 {
			alpha = a + (b&d | c&^d) + x[_n[i]] + 0x8f1bbcdc
			s := int(_r[i])
			alpha = bits.RotateLeft32(alpha, s) + e
			beta = bits.RotateLeft32(c, 10)
			a, b, c, d, e = e, alpha, b, beta, d

			// parallel line
			alpha = aa + (bb&cc | ^bb&dd) + x[n_[i]] + 0x7a6d76e9
			s = int(r_[i])
			alpha = bits.RotateLeft32(alpha, s) + ee
			beta = bits.RotateLeft32(cc, 10)
			aa, bb, cc, dd, ee = ee, alpha, bb, beta, dd

			i++
		}

		// round 5
		for i < 80 {
			alpha = a + (b ^ (c | ^d)) + x[_n[i]] + 0xa953fd4e
			s := int(_r[i])
			alpha = bits.RotateLeft32(alpha, s) + e
			beta = bits.RotateLeft32(c, 10)
			a, b, c, d, e = e, alpha, b, beta, d

			// parallel line
			alpha = aa + (bb ^ cc ^ dd) + x[n_[i]]
			s = int(r_[i])
			alpha = bits.RotateLeft32(alpha, s) + ee
			beta = bits.RotateLeft32(cc, 10)
			aa, bb, cc, dd, ee = ee, alpha, bb, beta, dd

			i++
		}

		// combine results
		dd += c + md.s[1]
		md.s[1] = md.s[2] + d + ee
		md.s[2] = md.s[3] + e + aa
		md.s[3] = md.s[4] + a + bb
		md.s[4] = md.s[0] + b + cc
		md.s[0] = dd

		p = p[BlockSize:]
		n += BlockSize
	}
	return n
}
