package main

// Intrinsics: the zzverif harness API, functions without Go bodies, ghosts for hashes / locks /
// atomics, and environment stubs.

import (
	"os"
	"crypto/hmac"
	"crypto/sha1"
	"crypto/sha256"
	"crypto/sha512"
	"fmt"
	"go/types"
	"hash"
	"math/big"
	"strings"
	"sync/atomic"

	"golang.org/x/tools/go/ssa"

	"verif/engine/ripemd160"
)

type intrinFn func(r *Run, fn *ssa.Function, args []Value) Value

var intrinsics = map[string]intrinFn{}

const zz = "github.com/piotrnar/gocoin/lib/others/zzverif."

func (e *Engine) intrinsic(fn *ssa.Function) intrinFn {
	if fn.Pkg == nil && fn.Origin() == nil && fn.Parent() == nil && fn.Synthetic == "" {
		return nil
	}
	if v, ok := e.icache.Load(fn); ok {
		h, _ := v.(intrinFn)
		return h
	}
	name := fn.String()
	if o := fn.Origin(); o != nil {
		name = o.String()
	}
	h := intrinsics[name]
	if h == nil {
		e.icache.Store(fn, false)
		return nil
	}
	e.icache.Store(fn, h)
	return h
}

func strArg(v Value) string {
	s, ok := v.(StrV).concrete()
	if !ok {
		panic(unsupported("symbolic string passed to harness API"))
	}
	return s
}

func intArg(v Value) int {
	t := v.(*Term)
	if !t.IsConst() {
		panic(unsupported("symbolic integer passed where the harness API needs a concrete one"))
	}
	return int(sext64(t.k, t.w))
}

func (r *Run) freshScalarS(name string, w int, input bool) *Term {
	return r.freshScalarX(name, w, input, true)
}

func (r *Run) freshScalar(name string, w int, input bool) *Term {
	return r.freshScalarX(name, w, input, false)
}

func (r *Run) freshScalarX(name string, w int, input bool, signed bool) *Term {
	n := r.uniqueName(name)
	if r.eng.inInit {
		panic(unsupported("symbolic input created during package initialisation"))
	}
	if input {
		kind := fmt.Sprintf("u%d", w)
		if w == 0 {
			kind = "bool"
		}
		r.inputs = append(r.inputs, inputVar{name: n, kind: kind, w: w})
	}
	if r.ts.intMode && w > 0 {
		if signed {
			return r.ts.IVar(n, new(big.Int).Neg(pow2(w-1)), new(big.Int).Sub(pow2(w-1), bigOne))
		}
		return r.ts.IVar(n, bigZero, new(big.Int).Sub(pow2(w), bigOne))
	}
	return r.ts.Var(n, w)
}

func (r *Run) freshBytes(name string, n int, input bool) []*Term {
	nm := r.uniqueName(name)
	if r.eng.inInit {
		panic(unsupported("symbolic input created during package initialisation"))
	}
	if input {
		r.inputs = append(r.inputs, inputVar{name: nm, kind: "bytes", n: n})
	}
	out := make([]*Term, n)
	for i := range out {
		if r.ts.intMode {
			out[i] = r.ts.IVar(fmt.Sprintf("%s[%d]", nm, i), bigZero, big.NewInt(255))
		} else {
			out[i] = r.ts.Var(fmt.Sprintf("%s[%d]", nm, i), 8)
		}
	}
	return out
}

func mutexKey(p *PtrV) string {
	if p.obj == nil {
		return "nil"
	}
	return fmt.Sprintf("%d%v", canonObj(p.obj).id, p.path)
}

func init() {
	base := map[string]intrinFn{
		// ------------------------------------------------------------------ harness API
		zz + "Symbolic": func(r *Run, fn *ssa.Function, a []Value) Value { return r.ts.Bool(true) },
		zz + "Tier":     func(r *Run, fn *ssa.Function, a []Value) Value { return r.ts.Const(64, uint64(r.h.tier)) },
		zz + "Bytes": func(r *Run, fn *ssa.Function, a []Value) Value {
			n := intArg(a[1])
			return r.newByteSlice(r.freshBytes(strArg(a[0]), n, true), n)
		},
		zz + "U8":   func(r *Run, fn *ssa.Function, a []Value) Value { return r.freshScalar(strArg(a[0]), 8, true) },
		zz + "U16":  func(r *Run, fn *ssa.Function, a []Value) Value { return r.freshScalar(strArg(a[0]), 16, true) },
		zz + "U32":  func(r *Run, fn *ssa.Function, a []Value) Value { return r.freshScalar(strArg(a[0]), 32, true) },
		zz + "U64":  func(r *Run, fn *ssa.Function, a []Value) Value { return r.freshScalar(strArg(a[0]), 64, true) },
		zz + "I32":  func(r *Run, fn *ssa.Function, a []Value) Value { return r.freshScalarS(strArg(a[0]), 32, true) },
		zz + "I64":  func(r *Run, fn *ssa.Function, a []Value) Value { return r.freshScalarS(strArg(a[0]), 64, true) },
		zz + "Int":  func(r *Run, fn *ssa.Function, a []Value) Value { return r.freshScalarS(strArg(a[0]), 64, true) },
		zz + "Range64": func(r *Run, fn *ssa.Function, a []Value) Value {
			name := strArg(a[0])
			hi := a[1].(*Term)
			if !hi.IsConst() {
				panic(unsupported("Range64 needs a constant bound"))
			}
			if r.ts.intMode {
				n := r.uniqueName(name)
				r.inputs = append(r.inputs, inputVar{name: n, kind: "u64", w: 64})
				return r.ts.IVar(n, bigZero, new(big.Int).Set(hi.bk))
			}
			v := r.freshScalar(name, 64, true)
			r.addPC(r.ts.Ule(v, hi))
			return v
		},
		zz + "Bool": func(r *Run, fn *ssa.Function, a []Value) Value { return r.freshScalar(strArg(a[0]), 0, true) },
		zz + "Len": func(r *Run, fn *ssa.Function, a []Value) Value {
			name, lo, hi := strArg(a[0]), intArg(a[1]), intArg(a[2])
			v := lo + r.choose(hi-lo+1)
			r.choices[r.uniqueName(name)] = v
			return r.ts.Const(64, uint64(v))
		},
		zz + "Enum": func(r *Run, fn *ssa.Function, a []Value) Value {
			name, n := strArg(a[0]), intArg(a[1])
			v := r.choose(n)
			r.choices[r.uniqueName(name)] = v
			return r.ts.Const(64, uint64(v))
		},
		zz + "Assume": func(r *Run, fn *ssa.Function, a []Value) Value {
			c := a[0].(*Term)
			if c.IsConst() {
				if c.k == 0 {
					panic(&pathEnd{kind: "cut-assume", msg: "assumption false"})
				}
				return nil
			}
			if !r.branch(c) {
				panic(&pathEnd{kind: "cut-assume", msg: "assumption false"})
			}
			return nil
		},
		zz + "Assert": func(r *Run, fn *ssa.Function, a []Value) Value {
			label := strArg(a[0])
			c := a[1].(*Term)
			r.h.mu.Lock()
			r.h.asserts[label]++
			r.h.mu.Unlock()
			if c.IsConst() && c.k != 0 {
				r.h.mu.Lock()
				r.h.assertsFolded[label]++
				r.h.mu.Unlock()
				return nil
			}
			if viol, m := r.assertBranch(r.ts.BNot(c)); viol {
				if m != nil {
					r.recordViolation(label, "assertion "+label+" fails", m)
				} else {
					r.violation(label, "assertion "+label+" fails")
				}
				panic(&pathEnd{kind: "violation", msg: label})
			}
			return nil
		},
		zz + "Reach": func(r *Run, fn *ssa.Function, a []Value) Value {
			label := strArg(a[0])
			r.h.mu.Lock()
			_, have := r.h.reached[label]
			r.h.mu.Unlock()
			if have {
				return nil
			}
			m, res := r.model(nil, nil)
			if res != "sat" {
				return nil
			}
			v := &Violation{Harness: r.h.name, Label: label, Inputs: r.modelInputs(m), Choices: copyChoices(r.choices), Fns: r.modelFns(m), Path: r.pathString()}
			r.h.mu.Lock()
			if _, have := r.h.reached[label]; !have {
				r.h.reached[label] = v
			}
			r.h.mu.Unlock()
			return nil
		},
		zz + "LoopBound": func(r *Run, fn *ssa.Function, a []Value) Value {
			name, k := strArg(a[0]), intArg(a[1])
			r.loopBound[name] = k
			r.h.noteBound("loop bound "+name, fmt.Sprint(k))
			return nil
		},
		zz + "Unwind":     func(r *Run, fn *ssa.Function, a []Value) Value { r.unwind = intArg(a[0]); return nil },
		zz + "MaxSteps":   func(r *Run, fn *ssa.Function, a []Value) Value { r.maxSteps = intArg(a[0]); return nil },
		zz + "AllocLimit": func(r *Run, fn *ssa.Function, a []Value) Value { r.allocLimit = intArg(a[0]); return nil },
		zz + "SymIndexFork": func(r *Run, fn *ssa.Function, a []Value) Value {
			r.symIndexFork = intArg(a[0])
			return nil
		},
		zz + "Steps": func(r *Run, fn *ssa.Function, a []Value) Value { return r.ts.Const(64, uint64(r.steps)) },
		zz + "AllocCells": func(r *Run, fn *ssa.Function, a []Value) Value {
			return r.ts.Const(64, uint64(r.allocCells))
		},
		zz + "Replace": func(r *Run, fn *ssa.Function, a []Value) Value {
			name := strArg(a[0])
			target := r.eng.lookupFunc(name)
			if target == nil {
				panic(&pathEnd{kind: "anchor-missing", msg: "Replace target not found: " + name})
			}
			iv := a[1].(*IfaceV)
			r.replace[target] = iv.val
			r.h.noteStub(name)
			return nil
		},
		zz + "Tabulate": func(r *Run, fn *ssa.Function, a []Value) Value {
			name := strArg(a[0])
			target := r.eng.lookupFunc(name)
			if target == nil {
				panic(&pathEnd{kind: "anchor-missing", msg: "Tabulate target not found: " + name})
			}
			r.tabulate[target] = true
			r.h.noteStub(name + ": pure function of one small integer, evaluated concretely for every argument value and used as a table")
			return nil
		},
		zz + "Bound":      func(r *Run, fn *ssa.Function, a []Value) Value { r.h.noteBound(strArg(a[0]), strArg(a[1])); return nil },
		zz + "Assumption": func(r *Run, fn *ssa.Function, a []Value) Value { r.h.noteAssumption(strArg(a[0])); return nil },
		zz + "Stub":       func(r *Run, fn *ssa.Function, a []Value) Value { r.h.noteStub(strArg(a[0])); return nil },
		zz + "Known": func(r *Run, fn *ssa.Function, a []Value) Value {
			id := strArg(a[0])
			c := a[1].(*Term)
			if !r.eng.knownOpen[id] {
				return nil
			}
			if r.branch(c) {
				r.knownCtx = id
			} else if r.knownCtx == id {
				r.knownCtx = "" // the region of this finding ends here
			}
			return nil
		},
		zz + "Concrete": func(r *Run, fn *ssa.Function, a []Value) Value {
			t := a[0].(*Term)
			return r.ts.Const(t.w, r.concretize(t, "zzverif.Concrete"))
		},
		zz + "MutexHeld": func(r *Run, fn *ssa.Function, a []Value) Value {
			iv := a[0].(*IfaceV)
			p := iv.val.(*PtrV)
			return r.ts.Bool(r.mutex[mutexKey(p)] != 0)
		},
		zz + "MutexesHeld": func(r *Run, fn *ssa.Function, a []Value) Value {
			n := 0
			for k, v := range r.mutex {
				if v != 0 && !strings.HasPrefix(k, "once-") {
					n++
					if os.Getenv("GOSYM_VERBOSE") != "" {
						fmt.Fprintf(os.Stderr, "[mutex held] %s = %d\n", k, v)
					}
				}
			}
			return r.ts.Const(64, uint64(n))
		},
		zz + "Event": func(r *Run, fn *ssa.Function, a []Value) Value {
			r.events = append(r.events, strArg(a[0]))
			return nil
		},
		zz + "EventCount": func(r *Run, fn *ssa.Function, a []Value) Value {
			s := strArg(a[0])
			n := 0
			for _, e := range r.events {
				if e == s {
					n++
				}
			}
			return r.ts.Const(64, uint64(n))
		},
		zz + "Ite8": func(r *Run, fn *ssa.Function, a []Value) Value {
			return r.ts.Ite(a[0].(*Term), a[1].(*Term), a[2].(*Term))
		},
		zz + "Ite64": func(r *Run, fn *ssa.Function, a []Value) Value {
			return r.ts.Ite(a[0].(*Term), a[1].(*Term), a[2].(*Term))
		},
		// sort.Ints as a branch-free compare-exchange network (bubble network, n <= 32)
		"sort.Ints": func(r *Run, fn *ssa.Function, a []Value) Value {
			s := a[0].(*SliceV)
			if s.len > 32 {
				panic(unsupported("sort.Ints of more than 32 elements"))
			}
			if s.len < 2 {
				return nil
			}
			arr := r.sliceArrW(s)
			ts := r.ts
			for i := 0; i < s.len; i++ {
				for j := 0; j+1 < s.len-i; j++ {
					x := arr.e[s.off+j].(*Term)
					y := arr.e[s.off+j+1].(*Term)
					sw := ts.Slt(y, x)
					arr.e[s.off+j] = ts.Ite(sw, y, x)
					arr.e[s.off+j+1] = ts.Ite(sw, x, y)
				}
			}
			return nil
		},

		// ------------------------------------------------------------------ sync
		"(*sync.Mutex).Lock":      lockFn(1, false),
		"(*sync.Mutex).Unlock":    unlockFn(1),
		"(*sync.Mutex).TryLock":   lockFn(1, true),
		"(*sync.RWMutex).Lock":    lockFn(1, false),
		"(*sync.RWMutex).Unlock":  unlockFn(1),
		"(*sync.RWMutex).TryLock": lockFn(1, true),
		"(*sync.RWMutex).RLock": func(r *Run, fn *ssa.Function, a []Value) Value {
			k := mutexKey(a[0].(*PtrV))
			if r.mutex[k] == 1 {
				panic(&pathEnd{kind: "deadlock", msg: "RLock while write-locked at " + r.curPos()})
			}
			r.mutex[k] += 2
			return nil
		},
		"(*sync.RWMutex).RUnlock": func(r *Run, fn *ssa.Function, a []Value) Value {
			k := mutexKey(a[0].(*PtrV))
			if r.mutex[k] < 2 {
				r.goPanic("fatal error: sync: RUnlock of unlocked RWMutex")
			}
			r.mutex[k] -= 2
			return nil
		},
		"(*sync.WaitGroup).Add":  func(r *Run, fn *ssa.Function, a []Value) Value { return nil },
		"(*sync.WaitGroup).Done": func(r *Run, fn *ssa.Function, a []Value) Value { return nil },
		"(*sync.WaitGroup).Wait": func(r *Run, fn *ssa.Function, a []Value) Value {
			for r.runOneQueued() { // lazy goroutines: everything spawned so far runs to completion
			}
			return nil
		},
		zz + "LazyGo": func(r *Run, fn *ssa.Function, a []Value) Value {
			r.lazyGo = true
			return nil
		},
		zz + "Hangs": func(r *Run, fn *ssa.Function, a []Value) Value {
			hung := false
			func() {
				defer func() {
					if e := recover(); e != nil {
						if pe, ok := e.(*pathEnd); ok && pe.kind == "deadlock" {
							hung = true
							return
						}
						panic(e)
					}
				}()
				r.callValue(a[0], nil, nil)
			}()
			return r.ts.Bool(hung)
		},
		zz + "KillGoroutines": func(r *Run, fn *ssa.Function, a []Value) Value {
			r.goQueue = nil
			return nil
		},
		zz + "RunGoroutines": func(r *Run, fn *ssa.Function, a []Value) Value {
			for r.runOneQueued() {
			}
			return nil
		},
		"(*sync.Once).Do": func(r *Run, fn *ssa.Function, a []Value) Value {
			k := "once" + mutexKey(a[0].(*PtrV))
			if r.mutex[k] == 0 {
				r.mutex[k] = 1
				r.callValue(a[1], nil, nil)
			}
			return nil
		},

		// ------------------------------------------------------------------ atomics
		"sync/atomic.AddInt32":   atomicAdd,
		"sync/atomic.AddInt64":   atomicAdd,
		"sync/atomic.AddUint32":  atomicAdd,
		"sync/atomic.AddUint64":  atomicAdd,
		"sync/atomic.AddUintptr": atomicAdd,
		"sync/atomic.LoadInt32":  atomicLoad, "sync/atomic.LoadInt64": atomicLoad, "sync/atomic.LoadUint32": atomicLoad,
		"sync/atomic.LoadUint64": atomicLoad, "sync/atomic.LoadUintptr": atomicLoad, "sync/atomic.LoadPointer": atomicLoad,
		"sync/atomic.StoreInt32": atomicStore, "sync/atomic.StoreInt64": atomicStore, "sync/atomic.StoreUint32": atomicStore,
		"sync/atomic.StoreUint64": atomicStore, "sync/atomic.StoreUintptr": atomicStore, "sync/atomic.StorePointer": atomicStore,
		"sync/atomic.SwapInt32": atomicSwap, "sync/atomic.SwapInt64": atomicSwap, "sync/atomic.SwapUint32": atomicSwap,
		"sync/atomic.SwapUint64": atomicSwap,
		"sync/atomic.CompareAndSwapInt32": atomicCAS, "sync/atomic.CompareAndSwapInt64": atomicCAS,
		"sync/atomic.CompareAndSwapUint32": atomicCAS, "sync/atomic.CompareAndSwapUint64": atomicCAS,

		// ------------------------------------------------------------------ bytealg
		"internal/bytealg.IndexByte": func(r *Run, fn *ssa.Function, a []Value) Value {
			return r.indexByte(r.sliceBytes(a[0].(*SliceV)), a[1].(*Term))
		},
		"internal/bytealg.IndexByteString": func(r *Run, fn *ssa.Function, a []Value) Value {
			return r.indexByte(a[0].(StrV).b, a[1].(*Term))
		},
		"internal/bytealg.Compare": func(r *Run, fn *ssa.Function, a []Value) Value {
			x := StrV{b: r.sliceBytes(a[0].(*SliceV))}
			y := StrV{b: r.sliceBytes(a[1].(*SliceV))}
			lt := r.strLess(x, y, false)
			eq := r.eqVal(x, y)
			m1 := r.constI64(-1)
			return r.ts.Ite(lt, m1, r.ts.Ite(eq, r.ts.Const(64, 0), r.ts.Const(64, 1)))
		},
		"internal/bytealg.Count": func(r *Run, fn *ssa.Function, a []Value) Value {
			return r.countByte(r.sliceBytes(a[0].(*SliceV)), a[1].(*Term))
		},
		"internal/bytealg.CountString": func(r *Run, fn *ssa.Function, a []Value) Value {
			return r.countByte(a[0].(StrV).b, a[1].(*Term))
		},
		"internal/bytealg.Index": func(r *Run, fn *ssa.Function, a []Value) Value {
			return r.indexSub(r.sliceBytes(a[0].(*SliceV)), r.sliceBytes(a[1].(*SliceV)))
		},
		"internal/bytealg.IndexString": func(r *Run, fn *ssa.Function, a []Value) Value {
			return r.indexSub(a[0].(StrV).b, a[1].(StrV).b)
		},
		"internal/bytealg.MakeNoZero": func(r *Run, fn *ssa.Function, a []Value) Value {
			n := int(r.concretize(a[0].(*Term), "MakeNoZero"))
			return r.newByteSlice(make([]*Term, 0), n).withLen(r, n)
		},
		"bytes.Equal": func(r *Run, fn *ssa.Function, a []Value) Value {
			return r.eqVal(StrV{b: r.sliceBytes(a[0].(*SliceV))}, StrV{b: r.sliceBytes(a[1].(*SliceV))})
		},
		"strings.Builder.copyCheck":      nop,
		"(*strings.Builder).copyCheck":   nop,
		"internal/race.ReadRange":        nop,
		"internal/race.WriteRange":       nop,
		"internal/race.Acquire":          nop,
		"internal/race.Release":          nop,
		"internal/race.Enable":           nop,
		"internal/race.Disable":          nop,
		"internal/race.Read":             nop,
		"internal/race.Write":            nop,
		"internal/race.ReleaseMerge":     nop,
		"runtime.GC":                     nop,
		"runtime.Gosched":                nop,
		"runtime.KeepAlive":              nop,
		"runtime/debug.FreeOSMemory":     nop,
		"runtime/debug.PrintStack":       nop,
		"runtime/debug.SetGCPercent":     func(r *Run, fn *ssa.Function, a []Value) Value { return r.ts.Const(64, 100) },
		"runtime/debug.Stack":            func(r *Run, fn *ssa.Function, a []Value) Value { return &SliceV{} },
		"runtime.NumCPU":                 func(r *Run, fn *ssa.Function, a []Value) Value { return r.ts.Const(64, 1) },
		"runtime.GOMAXPROCS":             func(r *Run, fn *ssa.Function, a []Value) Value { return r.ts.Const(64, 1) },
		"runtime.SetFinalizer":           nop,
		"os.Exit": func(r *Run, fn *ssa.Function, a []Value) Value {
			panic(&pathEnd{kind: "exit", msg: "os.Exit"})
		},
		"time.Sleep": nop,
		"time.now": func(r *Run, fn *ssa.Function, a []Value) Value {
			// arbitrary wall-clock second in [2020-09, 2096), monotonic reading derived from it
			sec := r.freshScalar("time.now.sec", 64, true)
			lo, hi := r.ts.Const(64, 1600000000), r.ts.Const(64, 4000000000)
			r.addPC(r.ts.BAnd(r.ts.Ule(lo, sec), r.ts.Ult(sec, hi)))
			for _, prev := range r.clock {
				r.addPC(r.ts.Ule(prev, sec)) // non-decreasing
			}
			r.clock = append(r.clock, sec)
			r.h.noteStub("time.now: arbitrary non-decreasing instant (whole seconds) in [1.6e9, 4e9)")
			mono := r.ts.Mul(r.ts.Sub(sec, lo), r.ts.Const(64, 1000000000))
			return TupleV{sec, r.ts.Const(32, 0), mono}
		},
		"time.runtimeNano": func(r *Run, fn *ssa.Function, a []Value) Value { return r.ts.Const(64, 1) },

		// ------------------------------------------------------------------ fmt / log (formatting is never the subject)
		"fmt.Println":  fmtNop,
		"fmt.Printf":   fmtNop,
		"fmt.Print":    fmtNop,
		"fmt.Fprintln": fmtNop,
		"fmt.Fprintf":  fmtNop,
		"fmt.Fprint":   fmtNop,
		"fmt.Sprintf":  fmtSprintf,
		"fmt.Sprint":   fmtSprint,
		"fmt.Sprintln": fmtStr,
		"fmt.Errorf": func(r *Run, fn *ssa.Function, a []Value) Value {
			ef := r.eng.lookupFunc("errors.New")
			return r.callFunction(ef, []Value{r.constStr("<fmt.Errorf>")}, nil)
		},
		"log.Println": nop, "log.Printf": nop, "log.Print": nop,

		// encoding/binary.Write / Read for integers, booleans and byte slices (the library falls back to reflection for
		// named integer types, which the engine does not model)
		"encoding/binary.Write": func(r *Run, fn *ssa.Function, a []Value) Value {
			w, order, data := a[0].(*IfaceV), a[1].(*IfaceV), a[2].(*IfaceV)
			big := strings.Contains(order.typ.String(), "bigEndian")
			var bs []*Term
			switch v := data.val.(type) {
			case *Term:
				n := v.w / 8
				if v.w == 0 {
					n = 1
				}
				if v.w == IntW {
					// Int mode: the library's own fast path (intDataSize / PutUintNN) is executed as before
					was := r.bypass[fn]
					r.bypass[fn] = true
					defer func() { r.bypass[fn] = was }()
					return r.callFunction(fn, a, nil)
				}
				for i := 0; i < n; i++ {
					sh := i
					if big {
						sh = n - 1 - i
					}
					var b *Term
					if v.w == 0 {
						b = r.ts.Ite(v, r.ts.Const(8, 1), r.ts.Const(8, 0))
					} else {
						b = r.ts.Extract(v, 8*sh+7, 8*sh)
					}
					bs = append(bs, b)
				}
			case *SliceV:
				bs = r.sliceBytes(v)
			default:
				panic(unsupported(fmt.Sprintf("binary.Write of %v", data.typ)))
			}
			res := r.callMethod(w, "Write", []Value{r.newByteSlice(bs, len(bs))})
			return res.(TupleV)[1]
		},
		"encoding/binary.Read": func(r *Run, fn *ssa.Function, a []Value) Value {
			rd, order, data := a[0].(*IfaceV), a[1].(*IfaceV), a[2].(*IfaceV)
			big := strings.Contains(order.typ.String(), "bigEndian")
			p, ok := data.val.(*PtrV)
			if !ok {
				panic(unsupported(fmt.Sprintf("binary.Read into %v", data.typ)))
			}
			cur, ok := r.load(p).(*Term)
			if !ok || cur.w == IntW || cur.w == 0 {
				panic(unsupported(fmt.Sprintf("binary.Read into %v", data.typ)))
			}
			n := cur.w / 8
			buf := r.newByteSlice(nil, n)
			buf.len = n
			res := r.callMethod(rd, "Read", []Value{buf}).(TupleV)
			got := res[0].(*Term)
			if !got.IsConst() {
				panic(unsupported("binary.Read: symbolic read length"))
			}
			if int(got.k) < n {
				ef := r.eng.lookupFunc("errors.New")
				return r.callFunction(ef, []Value{r.constStr("unexpected EOF")}, nil)
			}
			bs := r.sliceBytes(buf)
			v := r.ts.Const(cur.w, 0)
			for i := 0; i < n; i++ {
				sh := i
				if big {
					sh = n - 1 - i
				}
				v = r.ts.bin(OpOr, v, r.ts.bin(OpShl, r.ts.ZExt(bs[i], cur.w), r.ts.Const(cur.w, uint64(8*sh))))
			}
			r.store(p, v)
			return &IfaceV{}
		},

		// ------------------------------------------------------------------ hashes (ghost byte streams)
		"crypto/sha256.New":    func(r *Run, fn *ssa.Function, a []Value) Value { return r.newHash("sha256", "crypto/sha256", "digest") },
		"crypto/sha1.New":      func(r *Run, fn *ssa.Function, a []Value) Value { return r.newHash("sha1", "crypto/sha1", "digest") },
		"crypto/sha512.New":    func(r *Run, fn *ssa.Function, a []Value) Value { return r.newHash("sha512", "crypto/sha512", "digest") },
		"github.com/piotrnar/gocoin/lib/others/ripemd160.New": func(r *Run, fn *ssa.Function, a []Value) Value {
			return r.newHash("ripemd160", "github.com/piotrnar/gocoin/lib/others/ripemd160", "digest")
		},
		"crypto/hmac.New": func(r *Run, fn *ssa.Function, a []Value) Value {
			// ghost: HMAC_alg(key, msg) is an (assumed injective) function of  len(key) || key || msg
			inner := r.callValue(a[0], nil, nil).(*IfaceV)
			ig := r.ghostOf(inner.val)
			key := r.sliceBytes(a[1].(*SliceV))
			h := r.newHash("hmac-"+ig.alg, "crypto/hmac", "hmac").(*IfaceV)
			g := r.ghostOf(h.val)
			g.stream = append(g.stream, r.ts.Const(8, uint64(len(key)>>8)), r.ts.Const(8, uint64(len(key)&0xff)))
			g.stream = append(g.stream, key...)
			g.prefix = len(g.stream)
			return h
		},
		zz + "UF": func(r *Run, fn *ssa.Function, a []Value) Value {
			// uninterpreted (injective) function of a byte string with n output bytes
			name, n := strArg(a[0]), intArg(a[1])
			in := r.sliceBytes(a[2].(*SliceV))
			out := r.digest(fmt.Sprintf("uf:%s:%d", name, n), in)
			r.h.noteStub("uninterpreted injective function " + name)
			return r.newByteSlice(out, len(out))
		},
		zz + "Fn": func(r *Run, fn *ssa.Function, a []Value) Value {
			// uninterpreted function (functional consistency only, no injectivity) of a byte string with n output bytes
			name, n := strArg(a[0]), intArg(a[1])
			in := r.sliceBytes(a[2].(*SliceV))
			out := r.digest(fmt.Sprintf("fn:%s:%d", name, n), in)
			r.h.noteStub("uninterpreted function " + name)
			return r.newByteSlice(out, len(out))
		},
		"crypto/internal/boring/sig.StandardCrypto": func(r *Run, fn *ssa.Function, a []Value) Value { return nil }, // an empty marker function
		"github.com/piotrnar/gocoin/lib/others/siphash.Hash": func(r *Run, fn *ssa.Function, a []Value) Value {
			// assembly on amd64: SipHash-2-4 computed here for concrete arguments, an injective ghost otherwise
			k0, k1 := a[0].(*Term), a[1].(*Term)
			in := r.sliceBytes(a[2].(*SliceV))
			if cb, ok := concreteBytes(in); ok && k0.IsConst() && k1.IsConst() {
				return r.ts.Const(64, sipHash24(k0.k, k1.k, cb))
			}
			stream := append([]*Term{}, in...)
			out := r.digest("uf:siphash:8", stream)
			r.h.noteStub("siphash.Hash on symbolic data: uninterpreted injective function")
			v := r.ts.Const(64, 0)
			for i := 7; i >= 0; i-- {
				v = r.ts.bin(OpOr, r.ts.bin(OpShl, v, r.ts.Const(64, 8)), r.ts.ZExt(out[i], 64))
			}
			return v
		},
		"crypto/sha256.Sum256": func(r *Run, fn *ssa.Function, a []Value) Value {
			out := r.digest("sha256", r.sliceBytes(a[0].(*SliceV)))
			return bytesToArray(out)
		},
		"crypto/sha512.Sum512": func(r *Run, fn *ssa.Function, a []Value) Value {
			out := r.digest("sha512", r.sliceBytes(a[0].(*SliceV)))
			return bytesToArray(out)
		},
		"crypto/sha1.Sum": func(r *Run, fn *ssa.Function, a []Value) Value {
			out := r.digest("sha1", r.sliceBytes(a[0].(*SliceV)))
			return bytesToArray(out)
		},
	}
	for k, v := range base {
		intrinsics[k] = v
	}
	for _, p := range []string{"crypto/sha256", "crypto/sha1", "crypto/sha512", "github.com/piotrnar/gocoin/lib/others/ripemd160", "crypto/hmac"} {
		pre := "(*" + p + ".digest)."
		if p == "crypto/hmac" {
			pre = "(*crypto/hmac.hmac)."
		}
		intrinsics[pre+"Write"] = hashWrite
		intrinsics[pre+"Sum"] = hashSum
		intrinsics[pre+"Reset"] = hashReset
		intrinsics[pre+"Size"] = hashSize
		intrinsics[pre+"BlockSize"] = func(r *Run, fn *ssa.Function, a []Value) Value {
			g := r.ghostOf(a[0])
			if g.alg == "sha512" {
				return r.ts.Const(64, 128)
			}
			return r.ts.Const(64, 64)
		}
		intrinsics[pre+"MarshalBinary"] = hashMarshal
		intrinsics[pre+"UnmarshalBinary"] = hashUnmarshal
	}
}

func nop(r *Run, fn *ssa.Function, a []Value) Value {
	return r.zeroResults(fn)
}

func fmtNop(r *Run, fn *ssa.Function, a []Value) Value {
	return TupleV{r.ts.Const(64, 0), &IfaceV{}}
}
func fmtStr(r *Run, fn *ssa.Function, a []Value) Value { return r.constStr("<fmt>") }

// fmtSprintf: fmt.Sprintf when the format and every operand are concrete strings, integers or booleans (the real
// fmt.Sprintf is applied to their Go values); the placeholder otherwise.
func fmtSprintf(r *Run, fn *ssa.Function, a []Value) Value {
	fs, ok := a[0].(StrV).concrete()
	if !ok {
		return r.constStr("<fmt>")
	}
	sl, ok := a[1].(*SliceV)
	var args []interface{}
	if ok && sl.obj != nil {
		arr := r.sliceArr(sl)
		for i := 0; i < sl.len; i++ {
			iv, isI := arr.e[sl.off+i].(*IfaceV)
			if !isI || iv.typ == nil {
				return r.constStr("<fmt>")
			}
			switch v := iv.val.(type) {
			case StrV:
				str, c := v.concrete()
				if !c {
					return r.constStr("<fmt>")
				}
				args = append(args, str)
			case *Term:
				if !v.IsConst() {
					return r.constStr("<fmt>")
				}
				b, isB := iv.typ.Underlying().(*types.Basic)
				switch {
				case isB && b.Info()&types.IsBoolean != 0:
					args = append(args, v.k != 0)
				case v.w == IntW:
					args = append(args, v.bk)
				case isB && b.Info()&types.IsUnsigned != 0:
					args = append(args, v.k)
				default:
					args = append(args, sext64(v.k, v.w))
				}
			default:
				return r.constStr("<fmt>")
			}
		}
	}
	return r.constStr(fmt.Sprintf(fs, args...))
}

// fmtSprint: fmt.Sprint for operands that are strings (symbolic bytes allowed) and concrete integers / booleans;
// anything else gives the placeholder. Spaces go between operands when neither is a string, as in package fmt.
func fmtSprint(r *Run, fn *ssa.Function, a []Value) Value {
	sl, ok := a[0].(*SliceV)
	if !ok || sl.obj == nil {
		return r.constStr("")
	}
	arr := r.sliceArr(sl)
	var out []*Term
	prevStr := true
	for i := 0; i < sl.len; i++ {
		iv, isI := arr.e[sl.off+i].(*IfaceV)
		if !isI || iv.typ == nil {
			return r.constStr("<fmt>")
		}
		switch v := iv.val.(type) {
		case StrV:
			out = append(out, v.b...)
			prevStr = true
		case *Term:
			if !v.IsConst() {
				return r.constStr("<fmt>")
			}
			var txt string
			b, isB := iv.typ.Underlying().(*types.Basic)
			switch {
			case isB && b.Info()&types.IsBoolean != 0:
				txt = fmt.Sprint(v.k != 0)
			case v.w == IntW:
				txt = v.bk.String()
			case isB && b.Info()&types.IsUnsigned != 0:
				txt = fmt.Sprint(v.k)
			default:
				txt = fmt.Sprint(sext64(v.k, v.w))
			}
			if i > 0 && !prevStr {
				out = append(out, r.constBytes([]byte(" "))...)
			}
			out = append(out, r.constBytes([]byte(txt))...)
			prevStr = false
		default:
			return r.constStr("<fmt>")
		}
	}
	return StrV{b: out}
}

func (s *SliceV) withLen(r *Run, n int) *SliceV { s.len = n; return s }

func bytesToArray(b []*Term) Value {
	a := &ArrayV{e: make([]Value, len(b))}
	for i, t := range b {
		a.e[i] = t
	}
	return a
}

func lockFn(state int, try bool) intrinFn {
	return func(r *Run, fn *ssa.Function, a []Value) Value {
		p := a[0].(*PtrV)
		if p.obj == nil {
			r.goPanic("runtime error: invalid memory address or nil pointer dereference")
		}
		k := mutexKey(p)
		for r.mutex[k] != 0 && !try && r.runOneQueued() {
			// lazy goroutines: whoever unlocks it may still be queued
		}
		if r.mutex[k] != 0 {
			if try {
				return r.ts.Bool(false)
			}
			// everything runs on one sequential schedule here, so a second Lock of a held mutex is a self-deadlock
			// (or a lock leaked earlier on this path): the handler would hang. Reported as a violation; natively the
			// replay must time out.
			msg := "Lock of a mutex that is already held at " + r.curPos()
			r.violation("deadlock", msg)
			panic(&pathEnd{kind: "violation", msg: msg})
		}
		r.mutex[k] = state
		if try {
			return r.ts.Bool(true)
		}
		return nil
	}
}

func unlockFn(state int) intrinFn {
	return func(r *Run, fn *ssa.Function, a []Value) Value {
		p := a[0].(*PtrV)
		k := mutexKey(p)
		if r.mutex[k] != state {
			r.goPanic("fatal error: sync: unlock of unlocked mutex")
		}
		r.mutex[k] = 0
		return nil
	}
}

func atomicAdd(r *Run, fn *ssa.Function, a []Value) Value {
	p := a[0].(*PtrV)
	v := r.ts.Add(r.load(p).(*Term), a[1].(*Term))
	r.store(p, v)
	return v
}
func atomicLoad(r *Run, fn *ssa.Function, a []Value) Value {
	if os.Getenv("GOSYM_STACK") != "" {
		p := a[0].(*PtrV)
		fmt.Fprintf(os.Stderr, "[atomicLoad] %s path=%v obj=%T\n", fn.String(), p.path, p.obj.val)
	}
	return r.load(a[0].(*PtrV))
}
func atomicStore(r *Run, fn *ssa.Function, a []Value) Value {
	r.store(a[0].(*PtrV), a[1])
	return nil
}
func atomicSwap(r *Run, fn *ssa.Function, a []Value) Value {
	p := a[0].(*PtrV)
	old := r.load(p)
	r.store(p, a[1])
	return old
}
func atomicCAS(r *Run, fn *ssa.Function, a []Value) Value {
	p := a[0].(*PtrV)
	old := r.load(p).(*Term)
	if r.branch(r.ts.Eq(old, a[1].(*Term))) {
		r.store(p, a[2])
		return r.ts.Bool(true)
	}
	return r.ts.Bool(false)
}

func (r *Run) indexByte(b []*Term, c *Term) Value {
	for i, x := range b {
		if r.branch(r.ts.Eq(x, c)) {
			return r.ts.Const(64, uint64(i))
		}
	}
	return r.constI64(-1)
}

func (r *Run) countByte(b []*Term, c *Term) Value {
	n := r.ts.Const(64, 0)
	for _, x := range b {
		n = r.ts.Add(n, r.ts.Ite(r.ts.Eq(x, c), r.ts.Const(64, 1), r.ts.Const(64, 0)))
	}
	return n
}

func (r *Run) indexSub(b, sep []*Term) Value {
	for i := 0; i+len(sep) <= len(b); i++ {
		eq := r.ts.Bool(true)
		for j := range sep {
			eq = r.ts.BAnd(eq, r.ts.Eq(b[i+j], sep[j]))
		}
		if r.branch(eq) {
			return r.ts.Const(64, uint64(i))
		}
	}
	return r.constI64(-1)
}

// ----- hash ghosts --------------------------------------------------------------------------

type hashGhost struct {
	alg    string
	stream []*Term
	prefix int // bytes that survive Reset (HMAC key block)
}

type digestRec struct {
	alg    string
	stream []*Term
	out    []*Term
}

var hashSnaps atomic.Value // []hashSnap (engine-global; written only during init)

type hashSnap struct {
	alg    string
	stream []byte
}

func (r *Run) newHash(alg, pkg, tname string) Value {
	p := r.eng.prog.ImportedPackage(pkg)
	if p == nil {
		panic(unsupported("hash package not loaded: " + pkg))
	}
	named := p.Pkg.Scope().Lookup(tname).Type()
	o := r.newObj(named, r.zero(named))
	r.hashes[o] = &hashGhost{alg: alg}
	return &IfaceV{typ: types.NewPointer(named), val: &PtrV{obj: o}}
}

func (r *Run) ghostOf(v Value) *hashGhost {
	p := v.(*PtrV)
	g := r.hashes[p.obj]
	if g == nil {
		// a zero-valued digest struct used directly: create on the fly (sha256 by type name)
		alg := "sha256"
		ts := p.obj.typ.String()
		switch {
		case strings.Contains(ts, "ripemd160"):
			alg = "ripemd160"
		case strings.Contains(ts, "sha512"):
			alg = "sha512"
		case strings.Contains(ts, "sha1"):
			alg = "sha1"
		}
		g = &hashGhost{alg: alg}
		r.hashes[p.obj] = g
	}
	return g
}

func hashWrite(r *Run, fn *ssa.Function, a []Value) Value {
	g := r.ghostOf(a[0])
	b := r.sliceBytes(a[1].(*SliceV))
	g.stream = append(g.stream[:len(g.stream):len(g.stream)], b...)
	return TupleV{r.ts.Const(64, uint64(len(b))), &IfaceV{}}
}

func hashSum(r *Run, fn *ssa.Function, a []Value) Value {
	g := r.ghostOf(a[0])
	out := r.digest(g.alg, g.stream)
	in := a[1].(*SliceV)
	pre := r.sliceBytes(in)
	all := append(append([]*Term{}, pre...), out...)
	return r.newByteSlice(all, len(all))
}

func hashReset(r *Run, fn *ssa.Function, a []Value) Value {
	g := r.ghostOf(a[0])
	g.stream = g.stream[:g.prefix:g.prefix]
	return nil
}

func hashSize(r *Run, fn *ssa.Function, a []Value) Value {
	g := r.ghostOf(a[0])
	return r.ts.Const(64, uint64(digestSize(g.alg)))
}

func digestSize(alg string) int {
	if strings.HasPrefix(alg, "hmac-") {
		return digestSize(alg[5:])
	}
	if strings.HasPrefix(alg, "uf:") || strings.HasPrefix(alg, "fn:") {
		var n int
		fmt.Sscanf(alg[strings.LastIndex(alg, ":")+1:], "%d", &n)
		return n
	}
	switch alg {
	case "sha256":
		return 32
	case "sha1", "ripemd160":
		return 20
	case "sha512":
		return 64
	}
	panic("unknown hash " + alg)
}

func hashMarshal(r *Run, fn *ssa.Function, a []Value) Value {
	g := r.ghostOf(a[0])
	cb, ok := concreteBytes(g.stream)
	if !ok {
		panic(unsupported("MarshalBinary of a hash with symbolic state"))
	}
	var snaps []hashSnap
	if v := hashSnaps.Load(); v != nil {
		snaps = v.([]hashSnap)
	}
	snaps = append(append([]hashSnap{}, snaps...), hashSnap{alg: g.alg, stream: cb})
	hashSnaps.Store(snaps)
	tag := []byte(fmt.Sprintf("GHOSTSNAP%08d", len(snaps)-1))
	return TupleV{r.newByteSlice(r.constBytes(tag), len(tag)), &IfaceV{}}
}

func hashUnmarshal(r *Run, fn *ssa.Function, a []Value) Value {
	g := r.ghostOf(a[0])
	cb, ok := concreteBytes(r.sliceBytes(a[1].(*SliceV)))
	if !ok || !strings.HasPrefix(string(cb), "GHOSTSNAP") {
		panic(unsupported("UnmarshalBinary of foreign hash state"))
	}
	var idx int
	fmt.Sscanf(string(cb[9:]), "%d", &idx)
	snaps := hashSnaps.Load().([]hashSnap)
	g.alg = snaps[idx].alg
	g.stream = r.constBytes(snaps[idx].stream)
	return &IfaceV{}
}

func realHash(alg string) hash.Hash {
	if strings.HasPrefix(alg, "hmac-") || strings.HasPrefix(alg, "uf:") {
		return nil
	}
	switch alg {
	case "sha256":
		return sha256.New()
	case "sha1":
		return sha1.New()
	case "sha512":
		return sha512.New()
	case "ripemd160":
		return ripemd160.New()
	}
	panic("unknown hash " + alg)
}

// digest returns the digest bytes of a stream: computed for real when concrete, otherwise fresh
// bytes constrained to behave as an injective function (assumption H-inj) w.r.t. all other digests
// of the same algorithm on this path.
func (r *Run) digest(alg string, stream []*Term) []*Term {
	ts := r.ts
	plainFn := strings.HasPrefix(alg, "fn:")
	if cb, ok := concreteBytes(stream); ok && !strings.HasPrefix(alg, "uf:") && !plainFn {
		var sum []byte
		if strings.HasPrefix(alg, "hmac-") {
			kl := int(cb[0])<<8 | int(cb[1])
			hm := hmac.New(func() hash.Hash { return realHash(alg[5:]) }, cb[2:2+kl])
			hm.Write(cb[2+kl:])
			sum = hm.Sum(nil)
		} else {
			h := realHash(alg)
			h.Write(cb)
			sum = h.Sum(nil)
		}
		out := r.constBytes(sum)
		r.digests = append(r.digests, &digestRec{alg: alg, stream: append([]*Term{}, stream...), out: out})
		return out
	}
	for _, d := range r.digests {
		if d.alg == alg && len(d.stream) == len(stream) {
			same := true
			for i := range stream {
				if stream[i] != d.stream[i] {
					same = false
					break
				}
			}
			if same {
				return d.out
			}
		}
	}
	out := r.freshBytes("h!"+alg, digestSize(alg), false)
	for _, d := range r.digests {
		if d.alg != alg {
			continue
		}
		outEq := ts.Bool(true)
		for i := range out {
			outEq = ts.BAnd(outEq, ts.Eq(out[i], d.out[i]))
		}
		if len(d.stream) != len(stream) {
			if !plainFn {
				r.addPC(ts.BNot(outEq)) // H-inj across lengths
			}
			continue
		}
		sEq := ts.Bool(true)
		for i := range stream {
			sEq = ts.BAnd(sEq, ts.Eq(stream[i], d.stream[i]))
		}
		if plainFn {
			r.addPC(ts.BOr(ts.BNot(sEq), outEq))
		} else {
			r.addPC(ts.Eq(sEq, outEq))
		}
	}
	if !plainFn {
		r.h.noteAssumption("H-inj: " + alg + " is treated as an injective function on the streams hashed along a path")
	}
	r.digests = append(r.digests, &digestRec{alg: alg, stream: append([]*Term{}, stream...), out: out})
	return out
}

func (h *HarnessRun) noteBound(k, v string) {
	h.mu.Lock()
	h.bounds[k] = v
	h.mu.Unlock()
}
func (h *HarnessRun) noteStub(s string) {
	h.mu.Lock()
	h.stubs[s] = true
	h.mu.Unlock()
}
func (h *HarnessRun) noteAssumption(s string) {
	h.mu.Lock()
	h.assumptions[s] = true
	h.mu.Unlock()
}


func sipHash24(k0, k1 uint64, p []byte) uint64 {
	v0 := k0 ^ 0x736f6d6570736575
	v1 := k1 ^ 0x646f72616e646f6d
	v2 := k0 ^ 0x6c7967656e657261
	v3 := k1 ^ 0x7465646279746573
	rotl := func(x uint64, b uint) uint64 { return x<<b | x>>(64-b) }
	round := func() {
		v0 += v1
		v1 = rotl(v1, 13)
		v1 ^= v0
		v0 = rotl(v0, 32)
		v2 += v3
		v3 = rotl(v3, 16)
		v3 ^= v2
		v0 += v3
		v3 = rotl(v3, 21)
		v3 ^= v0
		v2 += v1
		v1 = rotl(v1, 17)
		v1 ^= v2
		v2 = rotl(v2, 32)
	}
	n := len(p)
	for len(p) >= 8 {
		m := uint64(p[0]) | uint64(p[1])<<8 | uint64(p[2])<<16 | uint64(p[3])<<24 | uint64(p[4])<<32 | uint64(p[5])<<40 | uint64(p[6])<<48 | uint64(p[7])<<56
		v3 ^= m
		round()
		round()
		v0 ^= m
		p = p[8:]
	}
	b := uint64(n) << 56
	for i, c := range p {
		b |= uint64(c) << (8 * uint(i))
	}
	v3 ^= b
	round()
	round()
	v0 ^= b
	v2 ^= 0xff
	round()
	round()
	round()
	round()
	return v0 ^ v1 ^ v2 ^ v3
}


// callMethod invokes an exported method of the dynamic type of an interface value.
func (r *Run) callMethod(recv *IfaceV, name string, args []Value) Value {
	if recv == nil || recv.typ == nil {
		r.goPanic("runtime error: invalid memory address or nil pointer dereference")
	}
	ms := r.eng.prog.MethodSets.MethodSet(recv.typ)
	for i := 0; i < ms.Len(); i++ {
		sel := ms.At(i)
		if sel.Obj().Name() == name {
			fn := r.eng.prog.MethodValue(sel)
			if fn == nil {
				break
			}
			return r.callFunction(fn, append([]Value{recv.val}, args...), nil)
		}
	}
	panic(unsupported(fmt.Sprintf("method %s not found on %v", name, recv.typ)))
}
