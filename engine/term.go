package main

// Term DAG for the BV/Bool encoding. Terms are hash-consed per run (TermStore) and
// aggressively constant-folded so that concrete execution never touches the solver.

import (
	"fmt"
	"math/big"
	"math/bits"
	"strings"
	"sync"
	"sync/atomic"
)

type Op uint8

const (
	OpConst Op = iota
	OpVar
	OpAdd
	OpSub
	OpMul
	OpUDiv
	OpURem
	OpSDiv
	OpSRem
	OpAnd
	OpOr
	OpXor
	OpNot
	OpNeg
	OpShl
	OpLShr
	OpAShr
	OpConcat
	OpExtract // k = hi<<8 | lo
	OpZExt
	OpSExt
	OpIte
	OpEq
	OpUlt
	OpUle
	OpSlt
	OpSle
	OpBAnd
	OpBOr
	OpBNot
	OpUF // uninterpreted function application: name = function symbol
	OpSelect // constant table lookup: tab[args[0]]
	OpLin    // Int mode: c0 + Σ coef_i·args[i]
)

var opNames = map[Op]string{
	OpAdd: "bvadd", OpSub: "bvsub", OpMul: "bvmul", OpUDiv: "bvudiv", OpURem: "bvurem", OpSDiv: "bvsdiv",
	OpSRem: "bvsrem", OpAnd: "bvand", OpOr: "bvor", OpXor: "bvxor", OpNot: "bvnot", OpNeg: "bvneg",
	OpShl: "bvshl", OpLShr: "bvlshr", OpAShr: "bvashr", OpConcat: "concat", OpIte: "ite", OpEq: "=",
	OpUlt: "bvult", OpUle: "bvule", OpSlt: "bvslt", OpSle: "bvsle", OpBAnd: "and", OpBOr: "or", OpBNot: "not",
}

// Term: w > 0 bit-vector of width w (<= 64); w == 0 Bool.
type Term struct {
	id   int
	op   Op
	w    int
	k    uint64
	name string
	args []*Term
	umax uint64 // upper bound on the unsigned value (BV terms)
	tab  *tableT
	// Int mode
	bk     *big.Int
	lo, hi *big.Int
	alias  *Term // same value as alias, tighter interval
	lin    *linT
}

func (t *Term) IsConst() bool { return t.op == OpConst }
func (t *Term) IsBool() bool  { return t.w == 0 }

func mask(w int) uint64 {
	if w >= 64 {
		return ^uint64(0)
	}
	return (uint64(1) << uint(w)) - 1
}

func sext64(v uint64, w int) int64 {
	if w >= 64 || w <= 0 {
		return int64(v)
	}
	sh := uint(64 - w)
	return int64(v<<sh) >> sh
}

type TermStore struct {
	tab   map[string]*Term
	next  int
	vars  []*Term
	ufs   map[string]string // UF symbol -> declaration
	ufSeq []string
	tt    *Term
	ff    *Term
	linc  *linCtx
	sub   *substCtx
	sup   map[int]*supInfo
	// Int mode
	intMode    bool
	pending    []*Term // side conditions (ranges of fresh variables, quotient definitions)
	ranged     map[string]bool
	monos      map[[2]int]*Term
	quots      map[string]*Term
	quotOf     map[int]quotDef
	monoSeq    int
	quotSeq    int
	wraps      int
	abstracted bool
	monoDefs   [][3]*Term
	idomain    map[int][]bool
}

// Constants are global (shared by all stores, including the init-time heap) so that frozen
// init-time objects can be used by every run; their ids are negative and unique.
type constKey struct {
	w int
	k uint64
}

var (
	constTab  sync.Map
	constNext int64
)

func globalConst(w int, k uint64) *Term {
	ck := constKey{w, k}
	if v, ok := constTab.Load(ck); ok {
		return v.(*Term)
	}
	t := &Term{op: OpConst, w: w, k: k, umax: k, id: int(-atomic.AddInt64(&constNext, 1))}
	v, _ := constTab.LoadOrStore(ck, t)
	return v.(*Term)
}

func NewTermStore() *TermStore {
	s := &TermStore{tab: map[string]*Term{}, ufs: map[string]string{}}
	s.tt = globalConst(0, 1)
	s.ff = globalConst(0, 0)
	return s
}

func (s *TermStore) key(t *Term) string {
	var sb strings.Builder
	fmt.Fprintf(&sb, "%d:%d:%d:%s", t.op, t.w, t.k, t.name)
	for _, a := range t.args {
		fmt.Fprintf(&sb, ",%d", a.id)
	}
	return sb.String()
}

func (s *TermStore) mk(t *Term) *Term {
	k := s.key(t)
	if o, ok := s.tab[k]; ok {
		return o
	}
	t.id = s.next
	s.next++
	t.umax = s.computeUmax(t)
	s.tab[k] = t
	if t.op == OpVar {
		s.vars = append(s.vars, t)
	}
	return t
}

func (s *TermStore) computeUmax(t *Term) uint64 {
	if t.w == 0 {
		return 1
	}
	m := mask(t.w)
	switch t.op {
	case OpConst:
		return t.k
	case OpZExt:
		return t.args[0].umax
	case OpAnd:
		a, b := t.args[0].umax, t.args[1].umax
		if a < b {
			return a
		}
		return b
	case OpOr, OpXor:
		a, b := t.args[0].umax, t.args[1].umax
		if a < b {
			a = b
		}
		if a == 0 {
			return 0
		}
		n := bits.Len64(a)
		return mask(n) & m
	case OpAdd:
		a, b := t.args[0].umax, t.args[1].umax
		sum, c := bits.Add64(a, b, 0)
		if c == 0 && sum <= m {
			return sum
		}
		return m
	case OpMul:
		hi, lo := bits.Mul64(t.args[0].umax, t.args[1].umax)
		if hi == 0 && lo <= m {
			return lo
		}
		return m
	case OpURem:
		if t.args[1].IsConst() && t.args[1].k > 0 {
			x := t.args[1].k - 1
			if t.args[0].umax < x {
				return t.args[0].umax
			}
			return x
		}
		return t.args[0].umax
	case OpUDiv:
		if t.args[1].IsConst() && t.args[1].k > 0 {
			return t.args[0].umax / t.args[1].k
		}
		return t.args[0].umax
	case OpLShr:
		if t.args[1].IsConst() {
			if t.args[1].k >= 64 {
				return 0
			}
			return t.args[0].umax >> t.args[1].k
		}
		return t.args[0].umax
	case OpShl:
		if t.args[1].IsConst() && t.args[1].k < 64 {
			a := t.args[0].umax
			sh := t.args[1].k
			if a == 0 {
				return 0
			}
			if uint64(bits.Len64(a))+sh <= uint64(t.w) {
				return a << sh
			}
		}
		return m
	case OpIte:
		a, b := t.args[1].umax, t.args[2].umax
		if a < b {
			return b
		}
		return a
	case OpExtract:
		hi, lo := int(t.k>>8), int(t.k&0xff)
		a := t.args[0].umax >> uint(lo)
		mm := mask(hi - lo + 1)
		if lo == 0 && a <= mm {
			return a
		}
		return mm
	case OpConcat:
		return m
	case OpSelect:
		var mx uint64
		for _, v := range t.tab.vals {
			if v > mx {
				mx = v
			}
		}
		return mx
	}
	return m
}

func (s *TermStore) Const(w int, v uint64) *Term {
	if s.intMode && w != 0 {
		return s.IConstU(v & mask(w))
	}
	if w == 0 {
		if v != 0 {
			return s.tt
		}
		return s.ff
	}
	return globalConst(w, v&mask(w))
}
func (s *TermStore) Bool(b bool) *Term {
	if b {
		return s.tt
	}
	return s.ff
}
func (s *TermStore) Var(name string, w int) *Term {
	return s.mk(&Term{op: OpVar, w: w, name: name})
}

// UF application; decl e.g. "(declare-fun f ((_ BitVec 8)) Bool)" registered once.
func (s *TermStore) UF(name string, w int, args ...*Term) *Term {
	if _, ok := s.ufs[name]; !ok {
		var sb strings.Builder
		fmt.Fprintf(&sb, "(declare-fun %s (", name)
		for _, a := range args {
			sb.WriteString(sortStr(a.w) + " ")
		}
		fmt.Fprintf(&sb, ") %s)", sortStr(w))
		s.ufs[name] = sb.String()
		s.ufSeq = append(s.ufSeq, name)
	}
	return s.mk(&Term{op: OpUF, w: w, name: name, args: args})
}

func sortStr(w int) string {
	if w == 0 {
		return "Bool"
	}
	if w == IntW {
		return "Int"
	}
	return fmt.Sprintf("(_ BitVec %d)", w)
}

func (s *TermStore) bin(op Op, a, b *Term) *Term {
	if a.w == IntW && b.w == IntW {
		switch op {
		case OpAdd:
			return s.IAdd(a, b)
		case OpSub:
			return s.ISub(a, b)
		case OpMul:
			return s.IMul(a, b)
		}
		panic(unsupported("Int-mode operation " + opNames[op] + " reached the bit-vector layer"))
	}
	if a.w != b.w {
		panic(fmt.Sprintf("width mismatch %d vs %d in %v", a.w, b.w, op))
	}
	w := a.w
	m := mask(w)
	if a.IsConst() && b.IsConst() {
		x, y := a.k, b.k
		switch op {
		case OpAdd:
			return s.Const(w, x+y)
		case OpSub:
			return s.Const(w, x-y)
		case OpMul:
			return s.Const(w, x*y)
		case OpUDiv:
			if y == 0 {
				return s.Const(w, m)
			}
			return s.Const(w, x/y)
		case OpURem:
			if y == 0 {
				return a
			}
			return s.Const(w, x%y)
		case OpSDiv:
			sx, sy := sext64(x, w), sext64(y, w)
			if sy == 0 {
				if sx >= 0 {
					return s.Const(w, m)
				}
				return s.Const(w, 1)
			}
			if sy == -1 {
				return s.Const(w, uint64(-sx))
			}
			return s.Const(w, uint64(sx/sy))
		case OpSRem:
			sx, sy := sext64(x, w), sext64(y, w)
			if sy == 0 {
				return a
			}
			if sy == -1 {
				return s.Const(w, 0)
			}
			return s.Const(w, uint64(sx%sy))
		case OpAnd:
			return s.Const(w, x&y)
		case OpOr:
			return s.Const(w, x|y)
		case OpXor:
			return s.Const(w, x^y)
		case OpShl:
			if y >= uint64(w) {
				return s.Const(w, 0)
			}
			return s.Const(w, x<<y)
		case OpLShr:
			if y >= uint64(w) {
				return s.Const(w, 0)
			}
			return s.Const(w, x>>y)
		case OpAShr:
			sx := sext64(x, w)
			if y >= uint64(w) {
				y = uint64(w - 1)
			}
			return s.Const(w, uint64(sx>>y))
		}
	}
	// algebraic simplifications
	switch op {
	case OpAdd:
		if a.IsConst() {
			a, b = b, a
		}
		if b.IsConst() && b.k == 0 {
			return a
		}
		// (x + c1) + c2
		if b.IsConst() && a.op == OpAdd && a.args[1].IsConst() {
			return s.bin(OpAdd, a.args[0], s.Const(w, a.args[1].k+b.k))
		}
	case OpSub:
		if b.IsConst() && b.k == 0 {
			return a
		}
		if a == b {
			return s.Const(w, 0)
		}
		if b.IsConst() {
			return s.bin(OpAdd, a, s.Const(w, -b.k))
		}
	case OpMul:
		if a.IsConst() {
			a, b = b, a
		}
		if b.IsConst() {
			if b.k == 0 {
				return b
			}
			if b.k == 1 {
				return a
			}
		}
	case OpAnd:
		if a.IsConst() {
			a, b = b, a
		}
		if b.IsConst() {
			if b.k == 0 {
				return b
			}
			if b.k == m {
				return a
			}
			if a.umax <= b.k && b.k&(b.k+1) == 0 {
				return a
			}
			if a.umax < b.k&-b.k {
				return s.Const(w, 0)
			}
		}
		if a == b {
			return a
		}
	case OpOr:
		if a.IsConst() {
			a, b = b, a
		}
		if b.IsConst() {
			if b.k == 0 {
				return a
			}
			if b.k == m {
				return b
			}
		}
		if a == b {
			return a
		}
	case OpXor:
		if a.IsConst() {
			a, b = b, a
		}
		if b.IsConst() && b.k == 0 {
			return a
		}
		if a == b {
			return s.Const(w, 0)
		}
		if b.IsConst() && a.op == OpXor && a.args[1].IsConst() {
			// (x ^ c1) ^ c2 = x ^ (c1 ^ c2)
			return s.bin(OpXor, a.args[0], s.Const(w, a.args[1].k^b.k))
		}
	case OpShl, OpLShr, OpAShr:
		if b.IsConst() && b.k == 0 {
			return a
		}
		if a.IsConst() && a.k == 0 {
			return a
		}
		if b.IsConst() && b.k >= uint64(w) && op != OpAShr {
			return s.Const(w, 0)
		}
		if op == OpLShr && b.IsConst() && a.umax>>b.k == 0 {
			return s.Const(w, 0)
		}
		// (zext x) >> c  with x narrower: extract when c aligns within x
		if op == OpLShr && b.IsConst() && a.op == OpZExt {
			x := a.args[0]
			c := int(b.k)
			if c < x.w {
				return s.ZExt(s.Extract(x, x.w-1, c), w)
			}
		}
	case OpUDiv:
		if b.IsConst() && b.k == 1 {
			return a
		}
	case OpURem:
		if b.IsConst() && b.k == 1 {
			return s.Const(w, 0)
		}
		if b.IsConst() && b.k > 0 && a.umax < b.k {
			return a
		}
	}
	return s.mk(&Term{op: op, w: w, args: []*Term{a, b}})
}

func (s *TermStore) Add(a, b *Term) *Term { return s.bin(OpAdd, a, b) }
func (s *TermStore) Sub(a, b *Term) *Term { return s.bin(OpSub, a, b) }
func (s *TermStore) Mul(a, b *Term) *Term { return s.bin(OpMul, a, b) }
func (s *TermStore) And(a, b *Term) *Term { return s.bin(OpAnd, a, b) }
func (s *TermStore) Or(a, b *Term) *Term  { return s.bin(OpOr, a, b) }
func (s *TermStore) Xor(a, b *Term) *Term { return s.bin(OpXor, a, b) }

func (s *TermStore) Not(a *Term) *Term {
	if a.IsConst() {
		return s.Const(a.w, ^a.k)
	}
	if a.op == OpNot {
		return a.args[0]
	}
	return s.mk(&Term{op: OpNot, w: a.w, args: []*Term{a}})
}
func (s *TermStore) Neg(a *Term) *Term {
	if a.w == IntW {
		return s.INeg(a)
	}
	if a.IsConst() {
		return s.Const(a.w, -a.k)
	}
	return s.mk(&Term{op: OpNeg, w: a.w, args: []*Term{a}})
}

func (s *TermStore) Extract(a *Term, hi, lo int) *Term {
	if a.w == IntW {
		x := a
		if lo > 0 {
			x = s.IDivC(x, pow2(lo))
		}
		return s.IModC(x, pow2(hi-lo+1))
	}
	if lo == 0 && hi == a.w-1 {
		return a
	}
	nw := hi - lo + 1
	if a.IsConst() {
		return s.Const(nw, a.k>>uint(lo))
	}
	switch a.op {
	case OpZExt:
		x := a.args[0]
		if hi < x.w {
			return s.Extract(x, hi, lo)
		}
		if lo >= x.w {
			return s.Const(nw, 0)
		}
		return s.ZExt(s.Extract(x, x.w-1, lo), nw)
	case OpSExt:
		x := a.args[0]
		if hi < x.w {
			return s.Extract(x, hi, lo)
		}
	case OpExtract:
		l0 := int(a.k & 0xff)
		return s.Extract(a.args[0], hi+l0, lo+l0)
	case OpConcat:
		h, l := a.args[0], a.args[1]
		if hi < l.w {
			return s.Extract(l, hi, lo)
		}
		if lo >= l.w {
			return s.Extract(h, hi-l.w, lo-l.w)
		}
	case OpAnd, OpOr, OpXor:
		// extraction commutes with bitwise operations
		return s.bin(a.op, s.Extract(a.args[0], hi, lo), s.Extract(a.args[1], hi, lo))
	case OpNot:
		return s.Not(s.Extract(a.args[0], hi, lo))
	case OpAdd, OpSub, OpMul:
		if lo == 0 {
			return s.bin(a.op, s.Extract(a.args[0], hi, 0), s.Extract(a.args[1], hi, 0))
		}
	case OpShl:
		// extract low bits below a constant shift are zero
		if a.args[1].IsConst() {
			c := int(a.args[1].k)
			if hi < c {
				return s.Const(nw, 0)
			}
			if lo >= c {
				x := a.args[0]
				if hi-c < x.w {
					return s.Extract(x, hi-c, lo-c)
				}
			}
			if lo < c && c <= hi && nw <= 64 {
				return s.Concat(s.Extract(a.args[0], hi-c, 0), s.Const(c-lo, 0))
			}
		}
	case OpLShr:
		if a.args[1].IsConst() {
			c := int(a.args[1].k)
			if hi+c < a.w {
				return s.Extract(a.args[0], hi+c, lo+c)
			}
		}
	case OpIte:
		if a.args[1].IsConst() && a.args[2].IsConst() {
			return s.Ite(a.args[0], s.Extract(a.args[1], hi, lo), s.Extract(a.args[2], hi, lo))
		}
	}
	return s.mk(&Term{op: OpExtract, w: nw, k: uint64(hi)<<8 | uint64(lo), args: []*Term{a}})
}

func (s *TermStore) ZExt(a *Term, w int) *Term {
	if a.w == IntW {
		return a
	}
	if w == a.w {
		return a
	}
	if w < a.w {
		return s.Extract(a, w-1, 0)
	}
	if a.IsConst() {
		return s.Const(w, a.k)
	}
	if a.op == OpZExt {
		return s.ZExt(a.args[0], w)
	}
	if a.op == OpIte && a.args[1].IsConst() && a.args[2].IsConst() {
		return s.Ite(a.args[0], s.ZExt(a.args[1], w), s.ZExt(a.args[2], w))
	}
	return s.mk(&Term{op: OpZExt, w: w, args: []*Term{a}})
}

func (s *TermStore) SExt(a *Term, w int) *Term {
	if a.w == IntW {
		return a
	}
	if w == a.w {
		return a
	}
	if w < a.w {
		return s.Extract(a, w-1, 0)
	}
	if a.IsConst() {
		return s.Const(w, uint64(sext64(a.k, a.w)))
	}
	if a.umax < uint64(1)<<uint(a.w-1) {
		return s.ZExt(a, w)
	}
	if a.op == OpIte && a.args[1].IsConst() && a.args[2].IsConst() {
		return s.Ite(a.args[0], s.SExt(a.args[1], w), s.SExt(a.args[2], w))
	}
	return s.mk(&Term{op: OpSExt, w: w, args: []*Term{a}})
}

func (s *TermStore) Concat(hi, lo *Term) *Term {
	if hi.IsConst() && lo.IsConst() && hi.w+lo.w <= 64 {
		return s.Const(hi.w+lo.w, hi.k<<uint(lo.w)|lo.k)
	}
	if hi.IsConst() && hi.k == 0 {
		return s.ZExt(lo, hi.w+lo.w)
	}
	return s.mk(&Term{op: OpConcat, w: hi.w + lo.w, args: []*Term{hi, lo}})
}

func (s *TermStore) Ite(c, a, b *Term) *Term {
	if c.IsConst() {
		if c.k != 0 {
			return a
		}
		return b
	}
	if a == b {
		return a
	}
	if a.w == 0 {
		// boolean ite
		if a.IsConst() && b.IsConst() {
			if a.k != 0 {
				return c
			}
			return s.BNot(c)
		}
		return s.BOr(s.BAnd(c, a), s.BAnd(s.BNot(c), b))
	}
	if c.op == OpBNot {
		return s.Ite(c.args[0], b, a)
	}
	if a.w == IntW {
		return s.mk(&Term{op: OpIte, w: IntW, args: []*Term{c, a, b}, lo: minBig(a.lo, b.lo), hi: maxBig(a.hi, b.hi)})
	}
	return s.mk(&Term{op: OpIte, w: a.w, args: []*Term{c, a, b}})
}

func (s *TermStore) Eq(a, b *Term) *Term {
	if a.w == IntW && b.w == IntW {
		return s.IEq(a, b)
	}
	if a.w != b.w {
		panic(fmt.Sprintf("eq width mismatch %d vs %d", a.w, b.w))
	}
	if a == b {
		return s.tt
	}
	if a.IsConst() && b.IsConst() {
		return s.Bool(a.k == b.k)
	}
	if a.w == 0 {
		if a.IsConst() {
			a, b = b, a
		}
		if b.IsConst() {
			if b.k != 0 {
				return a
			}
			return s.BNot(a)
		}
		return s.mk(&Term{op: OpEq, w: 0, args: order(a, b)})
	}
	if a.IsConst() {
		a, b = b, a
	}
	if b.IsConst() {
		if b.k > a.umax {
			return s.ff
		}
		switch a.op {
		case OpZExt:
			x := a.args[0]
			if b.k > mask(x.w) {
				return s.ff
			}
			return s.Eq(x, s.Const(x.w, b.k))
		case OpIte:
			if iteOfConsts(a, 4) {
				return s.Ite(a.args[0], s.Eq(a.args[1], b), s.Eq(a.args[2], b))
			}
		case OpAdd:
			if a.args[1].IsConst() {
				return s.Eq(a.args[0], s.Const(a.w, b.k-a.args[1].k))
			}
		case OpXor:
			if a.args[1].IsConst() {
				return s.Eq(a.args[0], s.Const(a.w, b.k^a.args[1].k))
			}
		case OpSelect:
			// which indices give this value?
			idx := a.args[0]
			var hits []uint64
			for i, v := range a.tab.vals {
				if v == b.k {
					hits = append(hits, uint64(i))
				}
			}
			if len(hits) == 0 {
				return s.ff
			}
			if len(hits) == len(a.tab.vals) {
				return s.tt
			}
			if len(hits) == 1 {
				return s.Eq(idx, s.Const(idx.w, hits[0]))
			}
			if a.w > 1 {
				return s.selectPred(a, func(v uint64) bool { return v == b.k })
			}
		}
	}
	switch s.linEq(a, b) {
	case 1:
		return s.tt
	case 0:
		return s.ff
	}
	res := s.mk(&Term{op: OpEq, w: 0, args: order(a, b)})
	if a.w <= 8 && a.w > 1 && (a.op == OpSelect || b.op == OpSelect) {
		return s.tabulate(res)
	}
	return res
}

func order(a, b *Term) []*Term {
	if a.id > b.id {
		a, b = b, a
	}
	return []*Term{a, b}
}

func (s *TermStore) Ult(a, b *Term) *Term {
	if a.w == IntW {
		return s.ILt(s.uview(a, 64), s.uview(b, 64))
	}
	if a.IsConst() && b.IsConst() {
		return s.Bool(a.k < b.k)
	}
	if a == b {
		return s.ff
	}
	if b.IsConst() && b.k == 0 {
		return s.ff
	}
	if b.IsConst() && a.umax < b.k {
		return s.tt
	}
	if a.IsConst() && a.k >= b.umax {
		return s.ff
	}
	if a.IsConst() && a.k == 0 {
		return s.BNot(s.Eq(b, a))
	}
	if b.IsConst() && b.k == 1 {
		return s.Eq(a, s.Const(a.w, 0))
	}
	if a.op == OpZExt && b.IsConst() {
		x := a.args[0]
		if b.k > mask(x.w) {
			return s.tt
		}
		return s.Ult(x, s.Const(x.w, b.k))
	}
	if a.op == OpSelect && b.IsConst() {
		return s.selectPred(a, func(v uint64) bool { return v < b.k })
	}
	if b.op == OpSelect && a.IsConst() {
		return s.selectPred(b, func(v uint64) bool { return a.k < v })
	}
	if b.op == OpZExt && a.IsConst() {
		x := b.args[0]
		if a.k >= mask(x.w) {
			return s.ff
		}
		return s.Ult(s.Const(x.w, a.k), x)
	}
	if a.op == OpZExt && b.op == OpZExt && a.args[0].w == b.args[0].w {
		return s.Ult(a.args[0], b.args[0])
	}
	return s.mk(&Term{op: OpUlt, w: 0, args: []*Term{a, b}})
}
// selectPred pushes a predicate on a table lookup into the table.
func (s *TermStore) selectPred(sel *Term, pred func(uint64) bool) *Term {
	nv := make([]uint64, len(sel.tab.vals))
	for i, v := range sel.tab.vals {
		if pred(v) {
			nv[i] = 1
		}
	}
	r := s.Select(internTable(nv, 1), sel.args[0])
	return s.Eq(r, s.Const(1, 1))
}

func (s *TermStore) Ule(a, b *Term) *Term { return s.BNot(s.Ult(b, a)) }

func iteOfConsts(t *Term, depth int) bool {
	if t.IsConst() {
		return true
	}
	if t.op != OpIte || depth == 0 {
		return false
	}
	return iteOfConsts(t.args[1], depth-1) && iteOfConsts(t.args[2], depth-1)
}

func (s *TermStore) Slt(a, b *Term) *Term {
	if a.w == IntW {
		return s.ILt(a, b)
	}
	if a.IsConst() && b.IsConst() {
		return s.Bool(sext64(a.k, a.w) < sext64(b.k, b.w))
	}
	if a == b {
		return s.ff
	}
	if a.op == OpIte && b.IsConst() && iteOfConsts(a, 4) {
		return s.Ite(a.args[0], s.Slt(a.args[1], b), s.Slt(a.args[2], b))
	}
	if b.op == OpIte && a.IsConst() && iteOfConsts(b, 4) {
		return s.Ite(b.args[0], s.Slt(a, b.args[1]), s.Slt(a, b.args[2]))
	}
	half := uint64(1) << uint(a.w-1)
	if a.umax < half && b.umax < half {
		return s.Ult(a, b)
	}
	return s.mk(&Term{op: OpSlt, w: 0, args: []*Term{a, b}})
}
func (s *TermStore) Sle(a, b *Term) *Term { return s.BNot(s.Slt(b, a)) }

// predSelect recognises the canonical form (= Select(T,i) #b1) of a predicate on a table index.
func predSelect(t *Term) *Term {
	if t.op == OpEq {
		for k := 0; k < 2; k++ {
			if t.args[k].op == OpSelect && t.args[k].w == 1 && t.args[1-k].IsConst() && t.args[1-k].k == 1 {
				return t.args[k]
			}
		}
	}
	return nil
}

func (s *TermStore) combinePred(a, b *Term, f func(x, y uint64) uint64) *Term {
	pa, pb := predSelect(a), predSelect(b)
	if pa == nil || pb == nil || pa.args[0] != pb.args[0] || len(pa.tab.vals) != len(pb.tab.vals) {
		return nil
	}
	nv := make([]uint64, len(pa.tab.vals))
	for i := range nv {
		nv[i] = f(pa.tab.vals[i], pb.tab.vals[i]) & 1
	}
	return s.Eq(s.Select(internTable(nv, 1), pa.args[0]), s.Const(1, 1))
}

func (s *TermStore) BNot(a *Term) *Term {
	if a.IsConst() {
		return s.Bool(a.k == 0)
	}
	if a.op == OpBNot {
		return a.args[0]
	}
	if p := predSelect(a); p != nil {
		nv := make([]uint64, len(p.tab.vals))
		for i, v := range p.tab.vals {
			nv[i] = v ^ 1
		}
		return s.Eq(s.Select(internTable(nv, 1), p.args[0]), s.Const(1, 1))
	}
	return s.mk(&Term{op: OpBNot, w: 0, args: []*Term{a}})
}
func (s *TermStore) BAnd(a, b *Term) *Term {
	if a.IsConst() {
		if a.k != 0 {
			return b
		}
		return a
	}
	if b.IsConst() {
		if b.k != 0 {
			return a
		}
		return b
	}
	if a == b {
		return a
	}
	if (a.op == OpBNot && a.args[0] == b) || (b.op == OpBNot && b.args[0] == a) {
		return s.ff
	}
	if c := s.combinePred(a, b, func(x, y uint64) uint64 { return x & y }); c != nil {
		return c
	}
	return s.mk(&Term{op: OpBAnd, w: 0, args: []*Term{a, b}})
}
func (s *TermStore) BOr(a, b *Term) *Term {
	if a.IsConst() {
		if a.k != 0 {
			return a
		}
		return b
	}
	if b.IsConst() {
		if b.k != 0 {
			return b
		}
		return a
	}
	if a == b {
		return a
	}
	if (a.op == OpBNot && a.args[0] == b) || (b.op == OpBNot && b.args[0] == a) {
		return s.tt
	}
	if c := s.combinePred(a, b, func(x, y uint64) uint64 { return x | y }); c != nil {
		return c
	}
	return s.mk(&Term{op: OpBOr, w: 0, args: []*Term{a, b}})
}

// ---------------------------------------------------------------------------------------------
// SMT-LIB emission

func bvLit(w int, v uint64) string {
	if w%4 == 0 {
		return fmt.Sprintf("#x%0*x", w/4, v&mask(w))
	}
	return fmt.Sprintf("(_ bv%d %d)", v&mask(w), w)
}

func (t *Term) ref() string {
	switch t.op {
	case OpConst:
		if t.w == IntW {
			return intLit(t.bk)
		}
		if t.w == 0 {
			if t.k != 0 {
				return "true"
			}
			return "false"
		}
		return bvLit(t.w, t.k)
	case OpVar:
		return "|" + t.name + "|"
	}
	return fmt.Sprintf("t%d", t.id)
}

func (t *Term) body() string {
	var sb strings.Builder
	switch t.op {
	case OpExtract:
		fmt.Fprintf(&sb, "((_ extract %d %d) %s)", t.k>>8, t.k&0xff, t.args[0].ref())
	case OpZExt:
		fmt.Fprintf(&sb, "((_ zero_extend %d) %s)", t.w-t.args[0].w, t.args[0].ref())
	case OpSExt:
		fmt.Fprintf(&sb, "((_ sign_extend %d) %s)", t.w-t.args[0].w, t.args[0].ref())
	case OpSelect:
		return t.selectBody()
	case OpLin:
		sb.WriteString("(+ " + intLit(t.lin.c0))
		for i, a := range t.lin.atoms {
			if t.lin.coefs[i].Cmp(bigOne) == 0 {
				sb.WriteString(" " + a.ref())
			} else {
				sb.WriteString(" (* " + intLit(t.lin.coefs[i]) + " " + a.ref() + ")")
			}
		}
		sb.WriteString(")")
	case OpUF:
		if len(t.args) == 0 {
			return t.name
		}
		sb.WriteString("(" + t.name)
		for _, a := range t.args {
			sb.WriteString(" " + a.ref())
		}
		sb.WriteString(")")
	default:
		name := opNames[t.op]
		if len(t.args) > 0 && t.args[len(t.args)-1].w == IntW {
			switch t.op {
			case OpAdd:
				name = "+"
			case OpMul:
				name = "*"
			case OpSlt:
				name = "<"
			case OpSle:
				name = "<="
			}
		}
		sb.WriteString("(" + name)
		for _, a := range t.args {
			sb.WriteString(" " + a.ref())
		}
		sb.WriteString(")")
	}
	return sb.String()
}

// String renders a term fully inlined (debugging only; may be large).
func (t *Term) String() string {
	switch t.op {
	case OpConst, OpVar:
		return t.ref()
	}
	var sb strings.Builder
	switch t.op {
	case OpExtract:
		fmt.Fprintf(&sb, "((_ extract %d %d) %s)", t.k>>8, t.k&0xff, t.args[0].String())
	case OpZExt:
		fmt.Fprintf(&sb, "(zext%d %s)", t.w, t.args[0].String())
	case OpSExt:
		fmt.Fprintf(&sb, "(sext%d %s)", t.w, t.args[0].String())
	default:
		n := opNames[t.op]
		if t.op == OpUF {
			n = t.name
		}
		sb.WriteString("(" + n)
		for _, a := range t.args {
			sb.WriteString(" " + a.String())
		}
		sb.WriteString(")")
	}
	return sb.String()
}

// rebuild re-creates t with new arguments through the simplifying constructors.
func (s *TermStore) rebuild(t *Term, a []*Term) *Term {
	switch t.op {
	case OpAdd, OpSub, OpMul, OpUDiv, OpURem, OpSDiv, OpSRem, OpAnd, OpOr, OpXor, OpShl, OpLShr, OpAShr:
		return s.bin(t.op, a[0], a[1])
	case OpNot:
		return s.Not(a[0])
	case OpNeg:
		return s.Neg(a[0])
	case OpConcat:
		return s.Concat(a[0], a[1])
	case OpExtract:
		return s.Extract(a[0], int(t.k>>8), int(t.k&0xff))
	case OpZExt:
		return s.ZExt(a[0], t.w)
	case OpSExt:
		return s.SExt(a[0], t.w)
	case OpIte:
		return s.Ite(a[0], a[1], a[2])
	case OpEq:
		return s.Eq(a[0], a[1])
	case OpUlt:
		return s.Ult(a[0], a[1])
	case OpUle:
		return s.Ule(a[0], a[1])
	case OpSlt:
		return s.Slt(a[0], a[1])
	case OpSle:
		return s.Sle(a[0], a[1])
	case OpBAnd:
		return s.BAnd(a[0], a[1])
	case OpBOr:
		return s.BOr(a[0], a[1])
	case OpBNot:
		return s.BNot(a[0])
	case OpSelect:
		if t.w == IntW {
			return s.ISelect(t.tab, a[0])
		}
		return s.Select(t.tab, a[0])
	case OpUF:
		return s.UF(t.name, t.w, a...)
	case OpLin:
		res := s.IConst(t.lin.c0)
		for i, x := range a {
			res = s.IAdd(res, s.IMulC(t.lin.coefs[i], x))
		}
		return res
	}
	return t
}

// substCtx: known equalities term == constant gathered from the path condition.
type substCtx struct {
	m    map[int]*Term
	memo map[int]*Term
}

func (s *TermStore) noteConstEq(c *Term) {
	if c.op != OpEq {
		// a bare boolean atom or its negation
		if s.sub == nil {
			s.sub = &substCtx{m: map[int]*Term{}, memo: map[int]*Term{}}
		}
		if c.op == OpBNot {
			if c.args[0].op != OpConst {
				s.sub.m[c.args[0].id] = s.ff
				s.sub.memo = map[int]*Term{}
			}
		} else if c.op == OpVar || c.op == OpUlt || c.op == OpSlt {
			s.sub.m[c.id] = s.tt
			s.sub.memo = map[int]*Term{}
		}
		return
	}
	a, b := c.args[0], c.args[1]
	if a.IsConst() {
		a, b = b, a
	}
	if !b.IsConst() || a.IsConst() {
		return
	}
	if s.sub == nil {
		s.sub = &substCtx{m: map[int]*Term{}, memo: map[int]*Term{}}
	}
	s.sub.m[a.id] = b
	s.sub.memo = map[int]*Term{}
}

// norm rewrites t under the known equalities (bottom-up, memoised per set of facts).
func (s *TermStore) norm(t *Term) *Term {
	if s.sub == nil || len(s.sub.m) == 0 || t.IsConst() {
		return t
	}
	if v, ok := s.sub.memo[t.id]; ok {
		return v
	}
	var res *Term
	if k, ok := s.sub.m[t.id]; ok {
		res = k
	} else if len(t.args) == 0 {
		res = t
	} else {
		na := make([]*Term, len(t.args))
		changed := false
		for i, x := range t.args {
			na[i] = s.norm(x)
			if na[i] != x {
				changed = true
			}
		}
		if changed || t.op == OpSelect || (len(t.args) > 0 && t.args[0].w == IntW && (t.op == OpSlt || t.op == OpEq)) {
			res = s.rebuild(t, na)
			if res != t && !res.IsConst() {
				if k, ok := s.sub.m[res.id]; ok {
					res = k
				}
			}
		} else {
			res = t
		}
	}
	s.sub.memo[t.id] = res
	return res
}

// supportVars collects the variables a term depends on.
func supportVars(t *Term, seen map[int]bool, out *[]*Term) {
	if t.IsConst() || seen[t.id] {
		return
	}
	seen[t.id] = true
	if t.op == OpVar {
		*out = append(*out, t)
		return
	}
	for _, a := range t.args {
		supportVars(a, seen, out)
	}
}

// evalTerm evaluates t under an assignment of its variables (by ref name). UFs are not evaluable.
func evalTerm(t *Term, m map[string]uint64, memo map[int]uint64) (uint64, bool) {
	if t.w == IntW {
		return 0, false // Int-mode terms are evaluated by the solver
	}
	if t.IsConst() {
		return t.k, true
	}
	for _, a := range t.args {
		if a.w == IntW {
			return 0, false
		}
	}
	if v, ok := memo[t.id]; ok {
		return v, true
	}
	var a [3]uint64
	if t.op != OpVar && t.op != OpUF {
		for i, x := range t.args {
			v, ok := evalTerm(x, m, memo)
			if !ok {
				return 0, false
			}
			if i < 3 {
				a[i] = v
			}
		}
	}
	w := t.w
	var aw int
	if len(t.args) > 0 {
		aw = t.args[0].w
	}
	mk := mask(w)
	b2u := func(b bool) uint64 {
		if b {
			return 1
		}
		return 0
	}
	var r uint64
	switch t.op {
	case OpVar:
		v, ok := m[t.ref()]
		if !ok {
			return 0, false
		}
		r = v
	case OpUF:
		return 0, false
	case OpAdd:
		r = (a[0] + a[1]) & mk
	case OpSub:
		r = (a[0] - a[1]) & mk
	case OpMul:
		r = (a[0] * a[1]) & mk
	case OpUDiv:
		if a[1] == 0 {
			r = mk
		} else {
			r = a[0] / a[1]
		}
	case OpURem:
		if a[1] == 0 {
			r = a[0]
		} else {
			r = a[0] % a[1]
		}
	case OpSDiv:
		x, y := sext64(a[0], w), sext64(a[1], w)
		switch {
		case y == 0 && x >= 0:
			r = mk
		case y == 0:
			r = 1
		case y == -1:
			r = uint64(-x) & mk
		default:
			r = uint64(x/y) & mk
		}
	case OpSRem:
		x, y := sext64(a[0], w), sext64(a[1], w)
		switch {
		case y == 0:
			r = a[0]
		case y == -1:
			r = 0
		default:
			r = uint64(x%y) & mk
		}
	case OpAnd:
		r = a[0] & a[1]
	case OpOr:
		r = a[0] | a[1]
	case OpXor:
		r = a[0] ^ a[1]
	case OpNot:
		r = ^a[0] & mk
	case OpNeg:
		r = (-a[0]) & mk
	case OpShl:
		if a[1] >= uint64(w) {
			r = 0
		} else {
			r = (a[0] << a[1]) & mk
		}
	case OpLShr:
		if a[1] >= uint64(w) {
			r = 0
		} else {
			r = a[0] >> a[1]
		}
	case OpAShr:
		sh := a[1]
		if sh >= uint64(w) {
			sh = uint64(w - 1)
		}
		r = uint64(sext64(a[0], w)>>sh) & mk
	case OpConcat:
		r = (a[0]<<uint(t.args[1].w) | a[1]) & mk
	case OpExtract:
		r = (a[0] >> (t.k & 0xff)) & mk
	case OpZExt:
		r = a[0]
	case OpSExt:
		r = uint64(sext64(a[0], aw)) & mk
	case OpIte:
		if a[0] != 0 {
			r = a[1]
		} else {
			r = a[2]
		}
	case OpEq:
		r = b2u(a[0] == a[1])
	case OpUlt:
		r = b2u(a[0] < a[1])
	case OpUle:
		r = b2u(a[0] <= a[1])
	case OpSlt:
		r = b2u(sext64(a[0], aw) < sext64(a[1], aw))
	case OpSle:
		r = b2u(sext64(a[0], aw) <= sext64(a[1], aw))
	case OpBAnd:
		r = b2u(a[0] != 0 && a[1] != 0)
	case OpBOr:
		r = b2u(a[0] != 0 || a[1] != 0)
	case OpBNot:
		r = b2u(a[0] == 0)
	case OpSelect:
		if a[0] < uint64(len(t.tab.vals)) {
			r = t.tab.vals[a[0]]
		} else {
			r = t.tab.vals[len(t.tab.vals)-1]
		}
	default:
		return 0, false
	}
	memo[t.id] = r
	return r, true
}

// support1 reports whether t depends on exactly one variable of width <= 8 (returned) — such terms
// can be tabulated exhaustively.
func (s *TermStore) support1(t *Term) (*Term, bool) {
	if t.IsConst() {
		return nil, true
	}
	if s.sup == nil {
		s.sup = map[int]*supInfo{}
	}
	if si, ok := s.sup[t.id]; ok {
		return si.v, si.ok
	}
	si := &supInfo{ok: true}
	switch t.op {
	case OpVar:
		if t.w > 8 || t.w == 0 {
			si.ok = false
		} else {
			si.v = t
		}
	case OpUF:
		si.ok = false
	default:
		for _, a := range t.args {
			v, ok := s.support1(a)
			if !ok {
				si.ok = false
				break
			}
			if v != nil {
				if si.v != nil && si.v != v {
					si.ok = false
					break
				}
				si.v = v
			}
		}
	}
	s.sup[t.id] = si
	return si.v, si.ok
}

type supInfo struct {
	v  *Term
	ok bool
}

// tabulate turns a boolean term over one small variable into a predicate table lookup.
func (s *TermStore) tabulate(t *Term) *Term {
	if t.w != 0 || t.IsConst() || predSelect(t) != nil {
		return t
	}
	v, ok := s.support1(t)
	if !ok || v == nil {
		return t
	}
	// only worth it for non-trivial terms
	if t.op == OpEq && (t.args[0] == v || t.args[1] == v) && (t.args[0].IsConst() || t.args[1].IsConst()) {
		return t
	}
	n := 1 << uint(v.w)
	vals := make([]uint64, n)
	m := map[string]uint64{}
	for i := 0; i < n; i++ {
		m[v.ref()] = uint64(i)
		r, ok := evalTerm(t, m, map[int]uint64{})
		if !ok {
			return t
		}
		vals[i] = r
	}
	sel := s.Select(internTable(vals, 1), v)
	return s.Eq(sel, s.Const(1, 1))
}
