package main

import (
	"fmt"
	"go/types"
	"math/big"

	"golang.org/x/tools/go/ssa"
)

// Value is one of:
//   *Term (bool / integer scalar), FloatV, *PtrV, *SliceV, StrV, *StructV, *ArrayV, *IfaceV, *MapV,
//   *FuncV, TupleV, *ChanV, *BigV (math/big.Int cell), nil (invalid)
type Value interface{}

type FloatV float64

type Obj struct {
	id     int
	val    Value // cell tree: mutable *StructV/*ArrayV nodes, leaves are immutable values
	typ    types.Type
	frozen bool
	orig   *Obj // for shadows of frozen objects
	label  string
}

type PtrV struct {
	obj  *Obj
	path []int
	// optional symbolic trailing index (scalar element arrays only): index term is 64-bit and known to lie in [lo, lo+n)
	sym *Term
	lo  int
	n   int
	// function pointers / unsafe tags
	raw uint64 // for uintptr round trips of nil etc. (unused mostly)
}

type SliceV struct {
	obj  *Obj // nil => nil slice
	path []int
	off  int
	len  int
	cap  int
}

type StrV struct {
	b []*Term // each 8-bit
}

type StructV struct{ f []Value }
type ArrayV struct {
	e []Value
	// lazily materialised all-zero scalar array (huge buffers such as network.OneConnection.sendBuf)
	lazyN    int
	lazyZero Value
}

func (a *ArrayV) mat() {
	if a.e == nil && a.lazyN > 0 {
		a.e = make([]Value, a.lazyN)
		for i := range a.e {
			a.e[i] = a.lazyZero
		}
		a.lazyN = 0
	}
}

type IfaceV struct {
	typ types.Type // nil => nil interface
	val Value
}

type mapEntry struct {
	key      Value
	ks       string
	concrete bool
	val      Value
	deleted  bool
}

type MapObj struct {
	id      int
	entries []*mapEntry
	index   map[string]int
	allConc bool
	frozen  bool
	orig    *MapObj
	live    int
}

type MapV struct{ m *MapObj } // m == nil => nil map

type FuncV struct {
	fn       *ssa.Function
	bindings []Value
	builtin  *ssa.Builtin
	bound    Value  // for bound-method style engine closures
	name     string // engine-defined function (intrinsic by name)
}

type TupleV []Value

type ChanObj struct {
	buf    []Value
	cap    int
	closed bool
	init   bool // made by a package initialiser: shared by all paths, so every path works on its own copy (Run.cs)
}
type ChanV struct{ c *ChanObj }

// BigV is the cell content of a math/big.Int (concrete only in BV mode).
type BigV struct {
	v    *big.Int
	sym  *ITerm  // Int-mode symbolic value
	bsym []*Term // BV-mode symbolic non-negative magnitude as big-endian bytes (compare-only arithmetic)
}

func (e *Engine) width(t types.Type) int {
	switch b := t.Underlying().(type) {
	case *types.Basic:
		switch b.Kind() {
		case types.Bool, types.UntypedBool:
			return 0
		case types.Int8, types.Uint8:
			return 8
		case types.Int16, types.Uint16:
			return 16
		case types.Int32, types.Uint32, types.UntypedRune:
			return 32
		case types.Int, types.Uint, types.Int64, types.Uint64, types.Uintptr, types.UntypedInt:
			return 64
		}
	}
	return -1
}

func isSigned(t types.Type) bool {
	if b, ok := t.Underlying().(*types.Basic); ok {
		return b.Info()&types.IsInteger != 0 && b.Info()&types.IsUnsigned == 0
	}
	return false
}
func isFloat(t types.Type) bool {
	if b, ok := t.Underlying().(*types.Basic); ok {
		return b.Info()&types.IsFloat != 0
	}
	return false
}
func isString(t types.Type) bool {
	if b, ok := t.Underlying().(*types.Basic); ok {
		return b.Info()&types.IsString != 0
	}
	return false
}
func isScalarInt(t types.Type) bool {
	if b, ok := t.Underlying().(*types.Basic); ok {
		return b.Info()&(types.IsInteger|types.IsBoolean) != 0
	}
	return false
}

func isBigInt(t types.Type) bool {
	if n, ok := t.(*types.Named); ok {
		o := n.Obj()
		return o.Pkg() != nil && o.Pkg().Path() == "math/big" && o.Name() == "Int"
	}
	return false
}

// zero value of a type (as a fresh cell tree / register value)
func (r *Run) zero(t types.Type) Value {
	if isBigInt(t) {
		return &BigV{v: new(big.Int)}
	}
	switch u := t.Underlying().(type) {
	case *types.Basic:
		switch {
		case u.Info()&types.IsBoolean != 0:
			return r.ts.Bool(false)
		case u.Info()&types.IsInteger != 0:
			return r.ts.Const(r.eng.width(t), 0)
		case u.Info()&types.IsFloat != 0:
			return FloatV(0)
		case u.Info()&types.IsString != 0:
			return StrV{}
		case u.Kind() == types.UnsafePointer:
			return &PtrV{}
		case u.Kind() == types.UntypedNil:
			return nil
		}
	case *types.Pointer:
		return &PtrV{}
	case *types.Slice:
		return &SliceV{}
	case *types.Struct:
		s := &StructV{f: make([]Value, u.NumFields())}
		for i := range s.f {
			s.f[i] = r.zero(u.Field(i).Type())
		}
		return s
	case *types.Array:
		n := int(u.Len())
		if n > 1<<16 && isScalarInt(u.Elem()) {
			return &ArrayV{lazyN: n, lazyZero: r.zero(u.Elem())}
		}
		a := &ArrayV{e: make([]Value, n)}
		if n > 0 {
			if isScalarInt(u.Elem()) {
				z := r.zero(u.Elem())
				for i := range a.e {
					a.e[i] = z
				}
			} else {
				for i := range a.e {
					a.e[i] = r.zero(u.Elem())
				}
			}
		}
		return a
	case *types.Interface:
		return &IfaceV{}
	case *types.Map:
		return &MapV{}
	case *types.Signature:
		return &FuncV{}
	case *types.Chan:
		return &ChanV{}
	case *types.Tuple:
		tv := make(TupleV, u.Len())
		for i := range tv {
			tv[i] = r.zero(u.At(i).Type())
		}
		return tv
	}
	panic(unsupported(fmt.Sprintf("zero value of %v", t)))
}

func copyVal(v Value) Value {
	switch x := v.(type) {
	case *StructV:
		n := &StructV{f: make([]Value, len(x.f))}
		for i, f := range x.f {
			n.f[i] = copyVal(f)
		}
		return n
	case *ArrayV:
		if x.e == nil && x.lazyN > 0 {
			return &ArrayV{lazyN: x.lazyN, lazyZero: x.lazyZero}
		}
		n := &ArrayV{e: make([]Value, len(x.e))}
		for i, f := range x.e {
			n.e[i] = copyVal(f)
		}
		return n
	case *BigV:
		if x.sym != nil {
			return &BigV{sym: x.sym}
		}
		if x.bsym != nil {
			return &BigV{bsym: x.bsym}
		}
		return &BigV{v: new(big.Int).Set(x.v)}
	}
	return v
}

func (r *Run) newObj(t types.Type, v Value) *Obj {
	r.objSeq++
	return &Obj{id: r.objSeq, val: v, typ: t, frozen: r.isInit}
}

// ---------------------------------------------------------------------------------------------
// frozen (init-time) objects and per-run shadows

func (r *Run) robj(o *Obj) *Obj { // for reading
	if o.frozen && !r.isInit {
		if s, ok := r.shadow[o]; ok {
			return s
		}
	}
	return o
}

func (r *Run) wobj(o *Obj) *Obj { // for writing
	if o.frozen && !r.isInit {
		if s, ok := r.shadow[o]; ok {
			return s
		}
		s := &Obj{id: o.id, val: copyVal(o.val), typ: o.typ, orig: o, label: o.label}
		r.shadow[o] = s
		return s
	}
	return o
}

func canonObj(o *Obj) *Obj {
	if o != nil && o.orig != nil {
		return o.orig
	}
	return o
}

func (r *Run) rmap(m *MapObj) *MapObj {
	if m.frozen && !r.isInit {
		if s, ok := r.mshadow[m]; ok {
			return s
		}
	}
	return m
}
func (r *Run) wmap(m *MapObj) *MapObj {
	if m.frozen && !r.isInit {
		if s, ok := r.mshadow[m]; ok {
			return s
		}
		s := &MapObj{id: m.id, index: map[string]int{}, allConc: m.allConc, orig: m, live: m.live}
		for _, e := range m.entries {
			ne := *e
			ne.val = copyVal(e.val)
			s.entries = append(s.entries, &ne)
		}
		for k, v := range m.index {
			s.index[k] = v
		}
		r.mshadow[m] = s
		return s
	}
	return m
}

// ---------------------------------------------------------------------------------------------
// memory access

func navigate(root Value, path []int) Value {
	v := root
	for _, i := range path {
		switch x := v.(type) {
		case *StructV:
			v = x.f[i]
		case *ArrayV:
			x.mat()
			if i < 0 || i >= len(x.e) {
				panic(fmt.Sprintf("engine: navigate index %d out of %d", i, len(x.e)))
			}
			v = x.e[i]
		default:
			panic(fmt.Sprintf("engine: navigate into %T", v))
		}
	}
	return v
}

func (r *Run) load(p *PtrV) Value {
	if p.obj == nil {
		r.goPanic("runtime error: invalid memory address or nil pointer dereference")
	}
	o := r.robj(p.obj)
	if p.sym != nil {
		arr := navigate(o.val, p.path).(*ArrayV)
		arr.mat()
		if r.ts.intMode {
			el := make([]Value, len(arr.e))
			for i := p.lo; i < p.lo+p.n; i++ {
				el[i] = r.fixSort(arr.e[i], nil)
			}
			return r.selectTerm(el, p.sym, p.lo, p.n)
		}
		return r.selectTerm(arr.e, p.sym, p.lo, p.n)
	}
	return copyVal(navigate(o.val, p.path))
}

func (r *Run) store(p *PtrV, v Value) {
	if p.obj == nil {
		r.goPanic("runtime error: invalid memory address or nil pointer dereference")
	}
	o := r.wobj(p.obj)
	if p.sym != nil {
		arr := navigate(o.val, p.path).(*ArrayV)
		arr.mat()
		nv := v.(*Term)
		for i := p.lo; i < p.lo+p.n; i++ {
			arr.e[i] = r.ts.Ite(r.ts.Eq(p.sym, r.ts.Const(64, uint64(i))), nv, arr.e[i].(*Term))
		}
		return
	}
	v = copyVal(v)
	if len(p.path) == 0 {
		o.val = v
		return
	}
	parent := navigate(o.val, p.path[:len(p.path)-1])
	last := p.path[len(p.path)-1]
	switch x := parent.(type) {
	case *StructV:
		x.f[last] = v
	case *ArrayV:
		x.e[last] = v
	default:
		panic(fmt.Sprintf("engine: store into %T", parent))
	}
}

func (p *PtrV) field(i int) *PtrV {
	np := make([]int, len(p.path)+1)
	copy(np, p.path)
	np[len(p.path)] = i
	return &PtrV{obj: p.obj, path: np}
}

func (s *SliceV) elemPtr(i int) *PtrV {
	np := make([]int, len(s.path)+1)
	copy(np, s.path)
	np[len(s.path)] = s.off + i
	return &PtrV{obj: s.obj, path: np}
}

func (r *Run) sliceArr(s *SliceV) *ArrayV {
	a := navigate(r.robj(s.obj).val, s.path).(*ArrayV)
	a.mat()
	return a
}
func (r *Run) sliceArrW(s *SliceV) *ArrayV {
	a := navigate(r.wobj(s.obj).val, s.path).(*ArrayV)
	a.mat()
	return a
}

// byte terms of a []byte slice value
func (r *Run) sliceBytes(s *SliceV) []*Term {
	if s.obj == nil || s.len == 0 {
		return nil
	}
	arr := r.sliceArr(s)
	out := make([]*Term, s.len)
	for i := 0; i < s.len; i++ {
		out[i] = r.fixSort(arr.e[s.off+i], nil).(*Term)
	}
	return out
}

func (r *Run) newByteSlice(b []*Term, capacity int) *SliceV {
	if capacity < len(b) {
		capacity = len(b)
	}
	a := &ArrayV{e: make([]Value, capacity)}
	z := r.ts.Const(8, 0)
	for i := range a.e {
		if i < len(b) {
			a.e[i] = b[i]
		} else {
			a.e[i] = z
		}
	}
	o := r.newObj(types.NewArray(types.Typ[types.Uint8], int64(capacity)), a)
	return &SliceV{obj: o, off: 0, len: len(b), cap: capacity}
}

func (r *Run) constBytes(b []byte) []*Term {
	out := make([]*Term, len(b))
	for i, c := range b {
		out[i] = r.ts.Const(8, uint64(c))
	}
	return out
}

func (r *Run) constStr(s string) StrV { return StrV{b: r.constBytes([]byte(s))} }

func concreteBytes(ts []*Term) ([]byte, bool) {
	out := make([]byte, len(ts))
	for i, t := range ts {
		if !t.IsConst() {
			return nil, false
		}
		out[i] = byte(t.k)
	}
	return out, true
}

func (s StrV) concrete() (string, bool) {
	b, ok := concreteBytes(s.b)
	return string(b), ok
}

// canonical key for fully concrete map keys
func keyString(v Value) (string, bool) {
	switch x := v.(type) {
	case *Term:
		if !x.IsConst() {
			return "", false
		}
		return fmt.Sprintf("i%d:%d", x.w, x.k), true
	case StrV:
		s, ok := x.concrete()
		return "s" + s, ok
	case *ArrayV:
		out := "a["
		for _, e := range x.e {
			k, ok := keyString(e)
			if !ok {
				return "", false
			}
			out += k + ","
		}
		return out + "]", true
	case *StructV:
		out := "t{"
		for _, e := range x.f {
			k, ok := keyString(e)
			if !ok {
				return "", false
			}
			out += k + ","
		}
		return out + "}", true
	case *PtrV:
		if x.obj == nil {
			return "pnil", true
		}
		return fmt.Sprintf("p%d%v", canonObj(x.obj).id, x.path), true
	case *IfaceV:
		if x.typ == nil {
			return "inil", true
		}
		k, ok := keyString(x.val)
		return "I" + x.typ.String() + ":" + k, ok
	case FloatV:
		return fmt.Sprintf("f%v", float64(x)), true
	}
	return "", false
}
