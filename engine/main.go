package main

import (
	"crypto/sha256"
	"encoding/json"
	"flag"
	"fmt"
	"go/ast"
	"go/types"
	"io"
	"os"
	"path/filepath"
	"regexp"
	"runtime/pprof"
	"sort"
	"strings"
	"sync"
	"sync/atomic"
	"time"

	"golang.org/x/tools/go/packages"
	"golang.org/x/tools/go/ssa"
	"golang.org/x/tools/go/ssa/ssautil"
)

var (
	debugEngine bool
	traceSolver io.Writer
)

type harnessRef struct {
	name string
	rel  string // package dir relative to repo
}

type knownFinding struct {
	Property string `json:"property"`
	ID       string `json:"id"`
	Status   string `json:"status"` // open | fixed
	What     string `json:"what"`
	Commit   string `json:"commit,omitempty"`
}

func main() {
	repo := flag.String("repo", "/repo", "repository root")
	verif := flag.String("verif", "/verif", "verification root")
	only := flag.String("only", "", "regexp selecting harness names")
	workers := flag.Int("workers", 16, "worker goroutines / solver processes")
	solver := flag.String("solver", "z3-new", "feasibility solver")
	qtimeout := flag.Int("qtimeout", 10000, "per-query timeout (ms)")
	noReplay := flag.Bool("noreplay", false, "skip native replays")
	maxPaths := flag.Int64("maxpaths", 0, "override path budget per harness")
	budget := flag.Int("budget", 0, "override time budget per harness (s)")
	trace := flag.String("trace", "", "write worker 0 solver traffic to file")
	flag.BoolVar(&debugEngine, "debug", false, "let engine errors crash with a stack")
	flag.BoolVar(&oneShot, "oneshot", false, "fresh solver context per query (reset) instead of push/pop")
	cpuprof := flag.String("cpuprofile", "", "write CPU profile")
	flag.Parse()
	args := flag.Args()
	// allow flags after the positional arguments: gosym check C09 quick -only X
	var posArgs []string
	for i := 0; i < len(args); i++ {
		if len(args[i]) > 1 && args[i][0] == '-' {
			flag.CommandLine.Parse(args[i:])
			rest := flag.Args()
			posArgs = append(posArgs, rest...)
			break
		}
		posArgs = append(posArgs, args[i])
	}
	args = posArgs
	if len(args) < 2 || args[0] != "check" {
		fmt.Fprintln(os.Stderr, "usage: gosym [flags] check <property> [quick|thorough]")
		os.Exit(2)
	}
	prop := args[1]
	tier := "quick"
	if len(args) > 2 {
		tier = args[2]
	}
	if t := os.Getenv("VERIF_TIER"); t != "" && len(args) <= 2 {
		tier = t
	}
	var seed int64
	fmt.Sscanf(os.Getenv("VERIF_SEED"), "%d", &seed)
	if *trace != "" {
		f, _ := os.Create(*trace)
		traceSolver = f
		defer f.Close()
	}
	if *cpuprof != "" {
		f, _ := os.Create(*cpuprof)
		pprof.StartCPUProfile(f)
		defer pprof.StopCPUProfile()
	}
	c := &checker{repo: *repo, verif: *verif, prop: prop, tier: tier, seed: seed, workers: *workers, solver: *solver,
		qtimeout: *qtimeout, only: *only, noReplay: *noReplay, maxPaths: *maxPaths, budget: *budget}
	rc := c.run()
	if *cpuprof != "" {
		pprof.StopCPUProfile()
	}
	os.Exit(rc)
}

type checker struct {
	repo, verif, prop, tier string
	seed                    int64
	workers                 int
	solver                  string
	qtimeout                int
	only                    string
	noReplay                bool
	maxPaths                int64
	budget                  int
	eng                     *Engine
	known                   []knownFinding
	t0                      time.Time
}

func (c *checker) inconclusive(reason string) int {
	fmt.Printf("INCONCLUSIVE property=%s reason=%s\n", c.prop, reason)
	c.writeEvidence(nil, 0, []string{"INCONCLUSIVE: " + reason})
	return 2
}

func (c *checker) findHarnesses() ([]harnessRef, map[string][]string, error) {
	var refs []harnessRef
	files := map[string][]string{} // rel dir -> files
	re := regexp.MustCompile(`(?m)^func (H_` + c.prop + `_\w+)\(\)`)
	var onlyRe *regexp.Regexp
	if c.only != "" {
		onlyRe = regexp.MustCompile(c.only)
	}
	root := filepath.Join(c.verif, "harness")
	err := filepath.Walk(root, func(p string, fi os.FileInfo, err error) error {
		if err != nil || fi.IsDir() || !strings.HasSuffix(p, ".go") || strings.HasSuffix(p, "_test.go") {
			return err
		}
		rel, _ := filepath.Rel(root, filepath.Dir(p))
		if rel == "zzverif" {
			return nil
		}
		files[rel] = append(files[rel], p)
		src, err := os.ReadFile(p)
		if err != nil {
			return err
		}
		for _, m := range re.FindAllStringSubmatch(string(src), -1) {
			if onlyRe != nil && !onlyRe.MatchString(m[1]) {
				continue
			}
			refs = append(refs, harnessRef{name: m[1], rel: rel})
		}
		return nil
	})
	sort.Slice(refs, func(i, j int) bool { return refs[i].name < refs[j].name })
	return refs, files, err
}

func (c *checker) overlay(files map[string][]string, rels map[string]bool) map[string][]byte {
	ov := map[string][]byte{}
	for rel, fs := range files {
		if !rels[rel] {
			continue
		}
		for _, f := range fs {
			b, _ := os.ReadFile(f)
			ov[filepath.Join(c.repo, rel, filepath.Base(f))] = b
		}
	}
	zf, _ := filepath.Glob(filepath.Join(c.verif, "harness", "zzverif", "*.go"))
	for _, f := range zf {
		if strings.HasSuffix(f, "_test.go") {
			continue
		}
		b, _ := os.ReadFile(f)
		ov[filepath.Join(c.repo, "lib/others/zzverif", filepath.Base(f))] = b
	}
	return ov
}

func (c *checker) run() int {
	c.t0 = time.Now()
	if b, err := os.ReadFile(filepath.Join(c.verif, "known_findings.json")); err == nil {
		json.Unmarshal(b, &c.known)
	}
	refs, files, err := c.findHarnesses()
	if err != nil || len(refs) == 0 {
		return c.inconclusive(fmt.Sprintf("no-harness (%v)", err))
	}
	rels := map[string]bool{}
	var patterns []string
	for _, h := range refs {
		if !rels[h.rel] {
			rels[h.rel] = true
			patterns = append(patterns, "./"+h.rel)
		}
	}
	sort.Strings(patterns)
	cfg := &packages.Config{
		Mode:       packages.LoadAllSyntax,
		Dir:        c.repo,
		BuildFlags: []string{"-tags=verif", "-mod=mod"},
		Overlay:    c.overlay(files, rels),
		Env:        append(os.Environ(), "GOFLAGS=-mod=mod", "GOPROXY=off", "GOSUMDB=off", "GOTOOLCHAIN=local", "CGO_ENABLED=0"),
	}
	tl := time.Now()
	pkgs, err := packages.Load(cfg, patterns...)
	if err != nil {
		return c.inconclusive("load-error: " + err.Error())
	}
	nerr := 0
	packages.Visit(pkgs, nil, func(p *packages.Package) {
		for _, e := range p.Errors {
			if nerr < 10 {
				fmt.Fprintln(os.Stderr, "load:", e)
			}
			nerr++
		}
	})
	if nerr > 0 {
		return c.inconclusive(fmt.Sprintf("anchor-missing (%d type/load errors; harness no longer compiles against the tree)", nerr))
	}
	prog, spkgs := ssautil.AllPackages(pkgs, ssa.InstantiateGenerics)
	prog.Build()
	fmt.Fprintf(os.Stderr, "[gosym] loaded+built SSA in %.1fs\n", time.Since(tl).Seconds())

	eng := &Engine{prog: prog, fset: prog.Fset, globals: map[*ssa.Global]*Obj{}, repoDir: c.repo, initStore: NewTermStore(),
		sizes: types.SizesFor("gc", "amd64"), knownOpen: map[string]bool{}}
	for _, k := range c.known {
		if k.Status == "open" {
			eng.knownOpen[k.ID] = true
		}
	}
	c.eng = eng
	eng.indexFuncs()
	ti := time.Now()
	eng.runInits()
	fmt.Fprintf(os.Stderr, "[gosym] package initialisers run in %.1fs\n", time.Since(ti).Seconds())

	// locate harness functions
	byRel := map[string]*ssa.Package{}
	for i, p := range pkgs {
		rel, _ := filepath.Rel(c.repo, filepath.Dir(p.GoFiles[0]))
		byRel[rel] = spkgs[i]
	}
	var results []*HarnessRun
	status := 0
	var notes []string
	for _, h := range refs {
		sp := byRel[h.rel]
		if sp == nil {
			return c.inconclusive("package for harness not loaded: " + h.rel)
		}
		fn := sp.Func(h.name)
		if fn == nil {
			return c.inconclusive("harness function missing: " + h.name)
		}
		hr := c.explore(fn, h)
		results = append(results, hr)
	}
	// classify
	type pending struct {
		hr *HarnessRun
		v  *Violation
		ref harnessRef
	}
	var toReplay []pending
	inconclusive := []string{}
	for i, hr := range results {
		if hr.aborted != "" {
			inconclusive = append(inconclusive, hr.name+": "+hr.aborted)
		}
		for _, k := range []string{"unsupported", "unwind", "engine-error", "anchor-missing", "concretize-cap", "deadlock", "solver-timeout"} {
			if hr.outcomes[k] > 0 {
				inconclusive = append(inconclusive, fmt.Sprintf("%s: %d paths ended %s (%s)", hr.name, hr.outcomes[k], k, hr.outcomeMsg[k]))
			}
		}
		if hr.outcomes["solver-unknown-events"] > 0 {
			inconclusive = append(inconclusive, fmt.Sprintf("%s: %d solver answers were unknown (%s)", hr.name, hr.outcomes["solver-unknown-events"], hr.outcomeMsg["solver-unknown"]))
		}
		keys := make([]string, 0, len(hr.violations))
		for k := range hr.violations {
			keys = append(keys, k)
		}
		sort.Strings(keys)
		for _, k := range keys {
			toReplay = append(toReplay, pending{hr, hr.violations[k], refs[i]})
		}
	}
	// native replay
	replayed := 0
	var violLines []string
	var knownLines []string
	rp := newReplayer(c)
	defer rp.cleanup()
	for _, p := range toReplay {
		res := "skipped"
		path := c.writeReplayFile(p.v)
		if !c.noReplay {
			res = rp.replay(p.ref, p.v, path)
			replayed++
		}
		reproduced := res == "reproduced" || c.noReplay
		if p.v.Known != "" {
			if reproduced {
				what := p.v.Msg
				for _, k := range c.known {
					if k.ID == p.v.Known {
						what = k.What
					}
				}
				kl := fmt.Sprintf("KNOWN-FINDING: property=%s %s %s", c.prop, p.v.Known, what)
				dup := false
				for _, l := range knownLines {
					dup = dup || l == kl
				}
				if !dup {
					knownLines = append(knownLines, kl)
				}
			} else {
				inconclusive = append(inconclusive, fmt.Sprintf("%s/%s: counterexample for known finding %s did not reproduce natively (%s)", p.v.Harness, p.v.Label, p.v.Known, res))
			}
			continue
		}
		if reproduced {
			violLines = append(violLines, fmt.Sprintf("VIOLATION property=%s replay=%s", c.prop, path))
			fmt.Fprintf(os.Stderr, "[gosym] violation %s/%s: %s  inputs=%v choices=%v\n", p.v.Harness, p.v.Label, p.v.Msg, p.v.Inputs, p.v.Choices)
		} else {
			inconclusive = append(inconclusive, fmt.Sprintf("%s/%s: solver counterexample did not reproduce natively (%s); replay=%s", p.v.Harness, p.v.Label, res, path))
		}
	}
	// vacuity witnesses: every Reach label must have a model; replay them natively as well
	validated := 0
	for i, hr := range results {
		labels := make([]string, 0, len(hr.reached))
		for l := range hr.reached {
			labels = append(labels, l)
		}
		sort.Strings(labels)
		for _, l := range labels {
			if c.noReplay {
				continue
			}
			w := hr.reached[l]
			path := c.writeReplayFile(w)
			res := rp.replayWitness(refs[i], w, path)
			if res == "ok" {
				validated++
				os.Remove(path)
			} else {
				inconclusive = append(inconclusive, fmt.Sprintf("%s: witness for Reach(%q) did not replay natively: %s (%s)", hr.name, l, res, path))
			}
		}
	}
	for _, hr := range results {
		if exp := hr.expectedReach(); len(exp) > 0 {
			for _, l := range exp {
				if _, ok := hr.reached[l]; !ok {
					inconclusive = append(inconclusive, fmt.Sprintf("%s: vacuity witness %q not reached", hr.name, l))
				}
			}
		}
		if hr.outcomes["ok"] == 0 && len(hr.violations) == 0 {
			inconclusive = append(inconclusive, hr.name+": no path completed (vacuous harness)")
		}
	}
	for _, l := range knownLines {
		fmt.Println(l)
	}
	sort.Strings(violLines)
	for _, l := range violLines {
		fmt.Println(l)
	}
	if len(violLines) > 0 {
		status = 1
	} else if len(inconclusive) > 0 {
		status = 2
		for _, s := range inconclusive {
			fmt.Printf("INCONCLUSIVE property=%s reason=%s\n", c.prop, s)
		}
	}
	notes = append(notes, inconclusive...)
	notes = append(notes, knownLines...)
	c.writeEvidenceFull(results, validated+replayed, len(violLines), notes)
	tot := int64(0)
	for _, hr := range results {
		tot += hr.paths
	}
	fmt.Fprintf(os.Stderr, "[gosym] solver round-trip %.1fs, send %.1fs\n", float64(atomic.LoadInt64(&statRoundTripNs))/1e9, float64(atomic.LoadInt64(&statSendNs))/1e9)
	fmt.Printf("RESULT property=%s tier=%s harnesses=%d paths=%d queries=%d solver_s=%.1f wall_s=%.1f status=%d\n", c.prop, c.tier, len(results), tot,
		atomic.LoadInt64(&statQueries), float64(atomic.LoadInt64(&statSolverNs))/1e9, time.Since(c.t0).Seconds(), status)
	return status
}

func (c *checker) explore(fn *ssa.Function, ref harnessRef) *HarnessRun {
	h := &HarnessRun{eng: c.eng, name: ref.name, fn: fn, seed: c.seed,
		outcomes: map[string]int{}, outcomeMsg: map[string]string{}, violations: map[string]*Violation{}, reached: map[string]*Violation{},
		touched: map[*ssa.Function]bool{}, bounds: map[string]string{}, stubs: map[string]bool{}, assumptions: map[string]bool{},
		asserts: map[string]int{}, assertsFolded: map[string]int{}, knownSeen: map[string]bool{}}
	if c.tier == "thorough" {
		h.tier = 1
		h.maxPaths = 5000000
		h.deadline = time.Now().Add(40 * time.Minute)
	} else {
		h.maxPaths = 400000
		h.deadline = time.Now().Add(5 * time.Minute)
	}
	if c.maxPaths > 0 {
		h.maxPaths = c.maxPaths
	}
	if c.budget > 0 {
		h.deadline = time.Now().Add(time.Duration(c.budget) * time.Second)
	}
	h.cond = sync.NewCond(&h.mu)
	h.work = [][]Decision{nil}
	t0 := time.Now()
	var wg sync.WaitGroup
	stopTick := make(chan struct{})
	go func() {
		tk := time.NewTicker(15 * time.Second)
		defer tk.Stop()
		for {
			select {
			case <-stopTick:
				return
			case <-tk.C:
				h.mu.Lock()
				fmt.Fprintf(os.Stderr, "[gosym]   ... %s: %d paths, %d queued, %d active, %d queries, %.0fs solver, outcomes=%v\n", h.name, atomic.LoadInt64(&h.paths), len(h.work), h.active,
					atomic.LoadInt64(&statQueries), float64(atomic.LoadInt64(&statSolverNs))/1e9, h.outcomes)
				h.mu.Unlock()
			}
		}
	}()
	defer close(stopTick)
	for i := 0; i < c.workers; i++ {
		wg.Add(1)
		go func(i int) {
			defer wg.Done()
			h.worker(i, c.solver, c.qtimeout)
		}(i)
	}
	wg.Wait()
	fmt.Fprintf(os.Stderr, "[gosym] %s: %d paths in %.1fs outcomes=%v violations=%d reached=%d %s\n", h.name, h.paths, time.Since(t0).Seconds(), h.outcomes, len(h.violations), len(h.reached), h.aborted)
	for k, m := range h.outcomeMsg {
		if k != "ok" && k != "cut-bound" && k != "cut-assume" && k != "violation" {
			fmt.Fprintf(os.Stderr, "[gosym]    %s: %s\n", k, m)
		}
	}
	return h
}

// expectedReach lists the Reach labels the harness source mentions (so an unreached one is detected).
func (h *HarnessRun) expectedReach() []string {
	var out []string
	seen := map[string]bool{}
	var visit func(fn *ssa.Function)
	visited := map[*ssa.Function]bool{}
	visit = func(fn *ssa.Function) {
		if visited[fn] || fn.Blocks == nil {
			return
		}
		visited[fn] = true
		for _, b := range fn.Blocks {
			for _, ins := range b.Instrs {
				if call, ok := ins.(ssa.CallInstruction); ok {
					cc := call.Common()
					if callee := cc.StaticCallee(); callee != nil {
						if callee.String() == zz+"Reach" {
							if k, ok := cc.Args[0].(*ssa.Const); ok {
								s := constStringVal(k)
								if !seen[s] {
									seen[s] = true
									out = append(out, s)
								}
							}
						} else if callee.Pkg == fn.Pkg && strings.HasPrefix(callee.Name(), "h_") {
							visit(callee)
						}
					}
				}
				if mc, ok := ins.(*ssa.MakeClosure); ok {
					visit(mc.Fn.(*ssa.Function))
				}
			}
		}
	}
	visit(h.fn)
	return out
}

func constStringVal(k *ssa.Const) string {
	s := k.Value.ExactString()
	if len(s) >= 2 && s[0] == '"' {
		var out string
		fmt.Sscanf(s, "%q", &out)
		return out
	}
	return s
}

// ----- engine set-up ---------------------------------------------------------------------------

func (e *Engine) indexFuncs() {
	e.funcByName = map[string]*ssa.Function{}
	for fn := range ssautil.AllFunctions(e.prog) {
		n := fn.String()
		e.funcByName[n] = fn
		e.funcByName[strings.ReplaceAll(n, "github.com/piotrnar/gocoin/", "")] = fn
	}
}

func (e *Engine) lookupFunc(name string) *ssa.Function {
	if f, ok := e.funcByName[name]; ok {
		return f
	}
	// allow "btc.NewTx" style (last path element of the package)
	for n, f := range e.funcByName {
		if strings.HasSuffix(n, "/"+name) {
			return f
		}
		if strings.HasPrefix(name, "(*") {
			// (*btc.Tx).Serialize  vs (*lib/btc.Tx).Serialize
			if strings.HasPrefix(n, "(*") && strings.HasSuffix(n, "/"+name[2:]) {
				return f
			}
		} else if strings.HasPrefix(name, "(") {
			if strings.HasPrefix(n, "(") && !strings.HasPrefix(n, "(*") && strings.HasSuffix(n, "/"+name[1:]) {
				return f
			}
		}
	}
	return nil
}

func (e *Engine) runInits() {
	e.inInit = true
	defer func() { e.inInit = false }()
	// dependency order
	var order []*ssa.Package
	seen := map[*types.Package]bool{}
	var visit func(p *types.Package)
	visit = func(p *types.Package) {
		if seen[p] {
			return
		}
		seen[p] = true
		for _, imp := range p.Imports() {
			visit(imp)
		}
		if sp := e.prog.Package(p); sp != nil {
			order = append(order, sp)
		}
	}
	all := e.prog.AllPackages()
	sort.Slice(all, func(i, j int) bool { return all[i].Pkg.Path() < all[j].Pkg.Path() })
	for _, sp := range all {
		visit(sp.Pkg)
	}
	skip := map[string]bool{"runtime": true, "os": true, "syscall": true, "reflect": true, "net": true, "time": true, "testing": true,
		"os/signal": true, "os/exec": true, "net/http": true, "crypto/tls": true, "crypto/x509": true, "log": true, "flag": true,
		"unicode": true, "fmt": true, "sync": true, "internal/poll": true, "internal/godebug": true, "crypto/internal/boring/sig": true}
	r := &Run{eng: e, ts: e.initStore, emitted: map[int]bool{}, declared: map[string]bool{},
		shadow: map[*Obj]*Obj{}, mshadow: map[*MapObj]*MapObj{}, touched: map[*ssa.Function]bool{},
		loopBound: map[string]int{}, replace: map[*ssa.Function]Value{}, inReplacement: map[*ssa.Function]bool{},
		choices: map[string]int{}, nameCount: map[string]int{}, maxSteps: 1 << 62, unwind: 1 << 30, allocLimit: 1 << 30,
		mutex: map[string]int{}, hashes: map[*Obj]*hashGhost{}, ghostVal: map[string]Value{}, isInit: true, bypass: map[*ssa.Function]bool{}, tabulate: map[*ssa.Function]bool{}}
	r.h = &HarnessRun{eng: e, name: "init", outcomes: map[string]int{}, outcomeMsg: map[string]string{}, bounds: map[string]string{},
		stubs: map[string]bool{}, assumptions: map[string]bool{}, asserts: map[string]int{}, assertsFolded: map[string]int{}}
	for _, sp := range order {
		path := sp.Pkg.Path()
		if skip[path] || strings.HasPrefix(path, "runtime/") || strings.HasPrefix(path, "internal/") || strings.HasPrefix(path, "vendor/") ||
			strings.HasPrefix(path, "net/") || strings.HasPrefix(path, "crypto/internal/") || strings.HasPrefix(path, "golang.org/x/") {
			continue
		}
		initFn := sp.Func("init")
		if initFn == nil {
			continue
		}
		func() {
			defer func() {
				if x := recover(); x != nil {
					msg := fmt.Sprint(x)
					switch v := x.(type) {
					case *pathEnd:
						msg = v.kind + ": " + v.msg
					case *goPanicT:
						msg = "panic: " + v.msg + " at " + v.pos
					default:
						if debugEngine {
							panic(x)
						}
					}
					e.initWarnings = append(e.initWarnings, fmt.Sprintf("init of %s incomplete: %s", path, msg))
					if os.Getenv("GOSYM_VERBOSE") != "" {
						fmt.Fprintf(os.Stderr, "[gosym] init of %s incomplete: %s\n", path, msg)
					}
				}
			}()
			r.depth = 0
			r.frame = nil
			r.steps = 0
			r.callFunction(initFn, nil, nil)
		}()
	}
	// freeze everything created so far
	for _, o := range e.globals {
		o.frozen = true
	}
}

// ----- evidence --------------------------------------------------------------------------------

type fnEvidence struct {
	Name string `json:"name"`
	Pos  string `json:"pos"`
	Hash string `json:"src_sha256_16"`
}

func (c *checker) funcEvidence(results []*HarnessRun) []fnEvidence {
	set := map[*ssa.Function]bool{}
	for _, hr := range results {
		for f := range hr.touched {
			set[f] = true
		}
	}
	var out []fnEvidence
	srcCache := map[string][]byte{}
	for f := range set {
		info := c.eng.info(f)
		if strings.Contains(info.pos, "/zz_verif_") || strings.Contains(info.pos, "/zzverif/") {
			continue
		}
		fe := fnEvidence{Name: info.name, Pos: strings.TrimPrefix(info.pos, c.repo+"/")}
		if syn := f.Syntax(); syn != nil {
			if _, ok := syn.(ast.Node); ok {
				p0 := c.eng.fset.Position(syn.Pos())
				p1 := c.eng.fset.Position(syn.End())
				src, ok := srcCache[p0.Filename]
				if !ok {
					src, _ = os.ReadFile(p0.Filename)
					srcCache[p0.Filename] = src
				}
				if p0.Offset >= 0 && p1.Offset <= len(src) && p0.Offset < p1.Offset {
					s := sha256.Sum256(src[p0.Offset:p1.Offset])
					fe.Hash = fmt.Sprintf("%x", s[:8])
				}
			}
		}
		out = append(out, fe)
	}
	sort.Slice(out, func(i, j int) bool { return out[i].Name < out[j].Name })
	return out
}

func (c *checker) writeEvidence(results []*HarnessRun, validated int, notes []string) {
	c.writeEvidenceFull(results, validated, 0, notes)
}

func (c *checker) writeEvidenceFull(results []*HarnessRun, validated, violations int, notes []string) {
	type hEv struct {
		Name        string            `json:"harness"`
		Paths       int64             `json:"paths"`
		Outcomes    map[string]int    `json:"path_outcomes"`
		Bounds      map[string]string `json:"bounds"`
		Asserts     map[string]int    `json:"assertions_checked"`
		Folded      map[string]int    `json:"assertions_folded_by_normal_forms"`
		Reached     []string          `json:"vacuity_witnesses_reached"`
		Stubs       []string          `json:"stubs"`
		Assumptions []string          `json:"assumptions"`
		Aborted     string            `json:"aborted,omitempty"`
	}
	var hs []hEv
	var samples []interface{}
	states, trans := int64(0), int64(0)
	assumptions := map[string]bool{}
	for _, hr := range results {
		he := hEv{Name: hr.name, Paths: hr.paths, Outcomes: hr.outcomes, Bounds: hr.bounds, Asserts: hr.asserts, Folded: hr.assertsFolded, Aborted: hr.aborted}
		for l, w := range hr.reached {
			he.Reached = append(he.Reached, l)
			if len(samples) < 12 {
				samples = append(samples, map[string]interface{}{"harness": hr.name, "witness_for": l, "inputs": w.Inputs, "choices": w.Choices})
			}
		}
		sort.Strings(he.Reached)
		for s := range hr.stubs {
			he.Stubs = append(he.Stubs, s)
		}
		sort.Strings(he.Stubs)
		for s := range hr.assumptions {
			he.Assumptions = append(he.Assumptions, s)
			assumptions[s] = true
		}
		sort.Strings(he.Assumptions)
		if hr.sequentialised {
			assumptions["go statements are executed on one schedule (synchronously at the spawn point, or - where the harness asks for it - queued until a goroutine blocks); race-freedom (C11) assumed"] = true
		}
		hs = append(hs, he)
		states += hr.paths
		trans += hr.steps
	}
	if len(samples) == 0 {
		samples = append(samples, map[string]interface{}{"note": "no witness recorded"})
	}
	var asl []string
	for s := range assumptions {
		asl = append(asl, s)
	}
	asl = append(asl, "bounded claim: holds for every input inside the per-harness bounds on every feasible path; nothing is claimed outside them")
	asl = append(asl, "go/ssa (x/tools v0.29.0) translation and this engine's SSA semantics are trusted; counterexamples are replayed natively before being reported")
	sort.Strings(asl)
	if c.eng != nil {
		for _, w := range c.eng.initWarnings {
			_ = w
		}
	}
	if states == 0 {
		states = 1
	}
	if trans == 0 {
		trans = 1
	}
	ev := map[string]interface{}{
		"property_id": c.prop,
		"tier":        c.tier,
		"seed":        c.seed,
		"level":       "model_checking",
		"coverage": map[string]interface{}{
			"states":                        states,
			"transitions":                   trans,
			"traces_validated_against_impl": validated,
			"samples":                       samples,
			"explanation":                   "states = feasible paths of the real go/ssa code explored symbolically (each ends in an assertion check decided by the SMT solver over all inputs of that path); transitions = SSA instructions executed symbolically",
			"functions_encoded":             c.funcEvidence(results),
			"harnesses":                     hs,
			"queries":                       atomic.LoadInt64(&statQueries),
			"solver_unknown":                atomic.LoadInt64(&statUnknown),
			"solver_errors":                 atomic.LoadInt64(&statSolverErr),
			"solver_time_s":                 float64(atomic.LoadInt64(&statSolverNs)) / 1e9,
			"solver":                        c.solver,
			"notes":                         notes,
		},
		"assumptions": asl,
		"wall_s":      time.Since(c.t0).Seconds(),
		"violations":  violations,
	}
	b, _ := json.MarshalIndent(ev, "", " ")
	os.MkdirAll(filepath.Join(c.verif, "evidence"), 0o755)
	os.WriteFile(filepath.Join(c.verif, "evidence", c.prop+".json"), b, 0o644)
}

func (c *checker) writeReplayFile(v *Violation) string {
	dir := filepath.Join(c.verif, "replays")
	os.MkdirAll(dir, 0o755)
	name := fmt.Sprintf("%s_%s_%s.json", c.prop, v.Harness, sanitize(v.Label))
	if v.Known != "" {
		name = fmt.Sprintf("%s_%s_%s_known_%s.json", c.prop, v.Harness, sanitize(v.Label), sanitize(v.Known))
	}
	p := filepath.Join(dir, name)
	b, _ := json.MarshalIndent(v, "", " ")
	os.WriteFile(p, b, 0o644)
	return p
}

func sanitize(s string) string {
	return regexp.MustCompile(`[^A-Za-z0-9_.-]+`).ReplaceAllString(s, "_")
}
