package main

// Int mode: scalars are mathematical integers (SMT sort Int) carrying an interval. The TermStore
// constructors dispatch on the sort, so that the interpreter's generic code works unchanged; Go's
// fixed-width wrap-around is applied explicitly (iwrap) and dropped when the interval proves it
// redundant. Division/remainder by constants use a fresh quotient variable q with
// c*q <= x < c*q + c  (remainder = x - c*q with interval [0,c-1]); products of two symbolic terms are
// abstracted to one bounded variable per unordered pair (sound over-approximation).

import (
	"fmt"
	"math/big"
	"os"
)

const IntW = -1

var (
	bigZero = big.NewInt(0)
	bigOne  = big.NewInt(1)
)

func pow2(k int) *big.Int { return new(big.Int).Lsh(bigOne, uint(k)) }

func (t *Term) IsInt() bool { return t.w == IntW }

func (s *TermStore) IConst(v *big.Int) *Term {
	k := "I" + v.String()
	if t, ok := s.tab[k]; ok {
		return t
	}
	t := &Term{op: OpConst, w: IntW, bk: new(big.Int).Set(v), lo: new(big.Int).Set(v), hi: new(big.Int).Set(v)}
	t.id = s.next
	s.next++
	if v.IsUint64() {
		t.k = v.Uint64()
		t.umax = t.k
	} else if v.IsInt64() {
		t.k = uint64(v.Int64())
		t.umax = ^uint64(0)
	} else {
		t.umax = ^uint64(0)
	}
	s.tab[k] = t
	return t
}

func (s *TermStore) IConst64(v int64) *Term   { return s.IConst(big.NewInt(v)) }
func (s *TermStore) IConstU(v uint64) *Term   { return s.IConst(new(big.Int).SetUint64(v)) }

// IVar declares an integer variable with a known interval (the range constraint is queued as a side condition).
func (s *TermStore) IVar(name string, lo, hi *big.Int) *Term {
	t := s.mk(&Term{op: OpVar, w: IntW, name: name, lo: lo, hi: hi})
	if !s.ranged[name] {
		if s.ranged == nil {
			s.ranged = map[string]bool{}
		}
		s.ranged[name] = true
		s.pending = append(s.pending, s.mkRaw(OpSle, 0, s.IConst(lo), t), s.mkRaw(OpSle, 0, t, s.IConst(hi)))
	}
	return t
}

func (s *TermStore) mkRaw(op Op, w int, args ...*Term) *Term {
	return s.mk(&Term{op: op, w: w, args: args})
}

func (s *TermStore) mkI(op Op, lo, hi *big.Int, args ...*Term) *Term {
	return s.mk(&Term{op: op, w: IntW, args: args, lo: lo, hi: hi})
}

func minBig(a, b *big.Int) *big.Int {
	if a.Cmp(b) < 0 {
		return a
	}
	return b
}
func maxBig(a, b *big.Int) *big.Int {
	if a.Cmp(b) > 0 {
		return a
	}
	return b
}

// ---- canonical linear forms: an Int term is an atom or  c0 + Σ coef_i·atom_i  (OpLin) ----

type linT struct {
	c0    *big.Int
	atoms []*Term // sorted by id, no OpLin / constants among them
	coefs []*big.Int
}

func (s *TermStore) toLin(t *Term) *linT {
	if t.op == OpLin {
		return t.lin
	}
	if t.IsConst() {
		return &linT{c0: t.bk}
	}
	return &linT{c0: bigZero, atoms: []*Term{t}, coefs: []*big.Int{bigOne}}
}

func linAdd(a, b *linT, kb *big.Int) *linT {
	r := &linT{c0: new(big.Int).Add(a.c0, new(big.Int).Mul(kb, b.c0))}
	i, j := 0, 0
	for i < len(a.atoms) || j < len(b.atoms) {
		switch {
		case j >= len(b.atoms) || (i < len(a.atoms) && a.atoms[i].id < b.atoms[j].id):
			r.atoms = append(r.atoms, a.atoms[i])
			r.coefs = append(r.coefs, a.coefs[i])
			i++
		case i >= len(a.atoms) || b.atoms[j].id < a.atoms[i].id:
			r.atoms = append(r.atoms, b.atoms[j])
			r.coefs = append(r.coefs, new(big.Int).Mul(kb, b.coefs[j]))
			j++
		default:
			c := new(big.Int).Add(a.coefs[i], new(big.Int).Mul(kb, b.coefs[j]))
			if c.Sign() != 0 {
				r.atoms = append(r.atoms, a.atoms[i])
				r.coefs = append(r.coefs, c)
			}
			i++
			j++
		}
	}
	return r
}

// fromLin interns the canonical form; [lo,hi] is an interval known for the value (operand-derived).
func (s *TermStore) fromLin(l *linT, lo, hi *big.Int) *Term {
	if len(l.atoms) == 0 {
		return s.IConst(l.c0)
	}
	if len(l.atoms) == 1 && l.c0.Sign() == 0 && l.coefs[0].Cmp(bigOne) == 0 {
		t := l.atoms[0]
		s.refine(t, lo, hi)
		return t
	}
	var sb []byte
	sb = append(sb, 'L')
	sb = append(sb, l.c0.String()...)
	for i, a := range l.atoms {
		sb = append(sb, fmt.Sprintf("|%d*%s", a.id, l.coefs[i].String())...)
	}
	k := string(sb)
	if t, ok := s.tab[k]; ok {
		s.refine(t, lo, hi)
		return t
	}
	t := &Term{op: OpLin, w: IntW, lin: l, args: l.atoms, lo: lo, hi: hi, umax: ^uint64(0)}
	t.id = s.next
	s.next++
	s.tab[k] = t
	return t
}

// linInterval: interval of a linear form from its atoms' intervals.
func linInterval(l *linT) (*big.Int, *big.Int) {
	lo, hi := new(big.Int).Set(l.c0), new(big.Int).Set(l.c0)
	for i, a := range l.atoms {
		x, y := new(big.Int).Mul(l.coefs[i], a.lo), new(big.Int).Mul(l.coefs[i], a.hi)
		lo.Add(lo, minBig(x, y))
		hi.Add(hi, maxBig(x, y))
	}
	return lo, hi
}

// refine intersects a term's recorded interval with a soundly derived one.
func (s *TermStore) refine(t *Term, lo, hi *big.Int) {
	if lo != nil && lo.Cmp(t.lo) > 0 {
		t.lo = lo
	}
	if hi != nil && hi.Cmp(t.hi) < 0 {
		t.hi = hi
	}
}

func (s *TermStore) IAdd(a, b *Term) *Term {
	if a.IsConst() && b.IsConst() {
		return s.IConst(new(big.Int).Add(a.bk, b.bk))
	}
	if b.IsConst() && b.bk.Sign() == 0 {
		return a
	}
	if a.IsConst() && a.bk.Sign() == 0 {
		return b
	}
	return s.fromLin(linAdd(s.toLin(a), s.toLin(b), bigOne), new(big.Int).Add(a.lo, b.lo), new(big.Int).Add(a.hi, b.hi))
}

func (s *TermStore) INeg(a *Term) *Term { return s.IMulC(big.NewInt(-1), a) }

func (s *TermStore) ISub(a, b *Term) *Term {
	if a == b {
		return s.IConst(bigZero)
	}
	if b.IsConst() && b.bk.Sign() == 0 {
		return a
	}
	return s.fromLin(linAdd(s.toLin(a), s.toLin(b), big.NewInt(-1)), new(big.Int).Sub(a.lo, b.hi), new(big.Int).Sub(a.hi, b.lo))
}

// IMulC: constant * term
func (s *TermStore) IMulC(k *big.Int, a *Term) *Term {
	if a.IsConst() {
		return s.IConst(new(big.Int).Mul(k, a.bk))
	}
	if k.Sign() == 0 {
		return s.IConst(bigZero)
	}
	if k.Cmp(bigOne) == 0 {
		return a
	}
	x, y := new(big.Int).Mul(k, a.lo), new(big.Int).Mul(k, a.hi)
	return s.fromLin(linAdd(&linT{c0: bigZero}, s.toLin(a), k), minBig(x, y), maxBig(x, y))
}

// IMul: product. Linear forms are multiplied out; a product of two atoms is abstracted to one bounded
// variable per unordered pair (shared between the code under test and the specification).
func (s *TermStore) IMul(a, b *Term) *Term {
	if a.IsConst() {
		return s.IMulC(a.bk, b)
	}
	if b.IsConst() {
		return s.IMulC(b.bk, a)
	}
	la, lb := s.toLin(a), s.toLin(b)
	if (len(la.atoms)+1)*(len(lb.atoms)+1) > 4096 {
		panic(unsupported("product of two large linear forms"))
	}
	res := s.IConst(new(big.Int).Mul(la.c0, lb.c0))
	for i, x := range la.atoms {
		if lb.c0.Sign() != 0 {
			res = s.IAdd(res, s.IMulC(new(big.Int).Mul(la.coefs[i], lb.c0), x))
		}
		for j, y := range lb.atoms {
			res = s.IAdd(res, s.IMulC(new(big.Int).Mul(la.coefs[i], lb.coefs[j]), s.mono(x, y)))
		}
	}
	if la.c0.Sign() != 0 {
		for j, y := range lb.atoms {
			res = s.IAdd(res, s.IMulC(new(big.Int).Mul(la.c0, lb.coefs[j]), y))
		}
	}
	// operand-derived interval of the product
	c := []*big.Int{new(big.Int).Mul(a.lo, b.lo), new(big.Int).Mul(a.lo, b.hi), new(big.Int).Mul(a.hi, b.lo), new(big.Int).Mul(a.hi, b.hi)}
	lo, hi := c[0], c[0]
	for _, v := range c[1:] {
		lo, hi = minBig(lo, v), maxBig(hi, v)
	}
	if !res.IsConst() {
		s.refine(res, lo, hi)
	}
	return res
}

func (s *TermStore) mono(a, b *Term) *Term {
	x, y := a, b
	if x.id > y.id {
		x, y = y, x
	}
	key := [2]int{x.id, y.id}
	if s.monos == nil {
		s.monos = map[[2]int]*Term{}
	}
	if m, ok := s.monos[key]; ok {
		return m
	}
	c := []*big.Int{new(big.Int).Mul(a.lo, b.lo), new(big.Int).Mul(a.lo, b.hi), new(big.Int).Mul(a.hi, b.lo), new(big.Int).Mul(a.hi, b.hi)}
	lo, hi := c[0], c[0]
	for _, v := range c[1:] {
		lo, hi = minBig(lo, v), maxBig(hi, v)
	}
	s.monoSeq++
	m := s.IVar(fmt.Sprintf("mono!%d", s.monoSeq), lo, hi)
	s.monos[key] = m
	s.monoDefs = append(s.monoDefs, [3]*Term{m, a, b})
	s.abstracted = true
	return m
}

// IDivC: floor(x / c) for constant c > 0, through a quotient variable; IModC: x - c*floor(x/c).
func (s *TermStore) IDivC(x *Term, c *big.Int) *Term {
	if c.Sign() <= 0 {
		panic("IDivC: non-positive divisor")
	}
	if x.IsConst() {
		q, _ := new(big.Int).DivMod(x.bk, c, new(big.Int))
		return s.IConst(q)
	}
	if c.Cmp(bigOne) == 0 {
		return x
	}
	fl := func(v *big.Int) *big.Int { q, _ := new(big.Int).DivMod(v, c, new(big.Int)); return q }
	qlo, qhi := fl(x.lo), fl(x.hi)
	if qlo.Cmp(qhi) == 0 {
		return s.IConst(qlo)
	}
	// exact division when every coefficient (and the constant) is a multiple of c
	if x.op == OpLin {
		exact := new(big.Int).Mod(x.lin.c0, c).Sign() == 0
		for _, k := range x.lin.coefs {
			if new(big.Int).Mod(k, c).Sign() != 0 {
				exact = false
				break
			}
		}
		if exact {
			nl := &linT{c0: new(big.Int).Div(x.lin.c0, c), atoms: x.lin.atoms}
			for _, k := range x.lin.coefs {
				nl.coefs = append(nl.coefs, new(big.Int).Div(k, c))
			}
			return s.fromLin(nl, qlo, qhi)
		}
	}
	// split x = c*H + L with every coefficient of H*c divisible by c: floor(x/c) = H + floor(L/c)
	if x.op == OpLin {
		hi := &linT{c0: new(big.Int)}
		lo := &linT{c0: new(big.Int)}
		q0, r0 := new(big.Int).DivMod(x.lin.c0, c, new(big.Int))
		hi.c0, lo.c0 = q0, r0
		for i, a := range x.lin.atoms {
			k := x.lin.coefs[i]
			if new(big.Int).Mod(k, c).Sign() == 0 {
				hi.atoms = append(hi.atoms, a)
				hi.coefs = append(hi.coefs, new(big.Int).Div(k, c))
			} else {
				lo.atoms = append(lo.atoms, a)
				lo.coefs = append(lo.coefs, k)
			}
		}
		if len(hi.atoms) > 0 {
			// only when the low part is a proper digit (0 <= L < c): exact extraction, no new quotient
			llo, lhi := linInterval(lo)
			if llo.Sign() >= 0 && lhi.Cmp(c) < 0 {
				hlo, hhi := linInterval(hi)
				return s.fromLin(hi, hlo, hhi)
			}
		}
	}
	// floor(floor(y/c1)/c) = floor(y/(c1*c))
	if qo, ok := s.quotOf[x.id]; ok {
		return s.IDivC(qo.x, new(big.Int).Mul(qo.c, c))
	}
	key := fmt.Sprintf("%d/%s", x.id, c.String())
	if s.quots == nil {
		s.quots = map[string]*Term{}
		s.quotOf = map[int]quotDef{}
	}
	if q, ok := s.quots[key]; ok {
		return q
	}
	s.quotSeq++
	if os.Getenv("GOSYM_REFDBG") != "" {
		fmt.Fprintf(os.Stderr, "[quot] quot!%d = x#%d / %s  x in %s..%s\n", s.quotSeq, x.id, c.String(), x.lo.String(), x.hi.String())
	}
	q := s.IVar(fmt.Sprintf("quot!%d", s.quotSeq), qlo, qhi)
	// c*q <= x < c*q + c
	cq := s.IMulC(c, q)
	s.pending = append(s.pending, s.mkRaw(OpSle, 0, cq, x), s.mkRaw(OpSlt, 0, x, s.IAdd(cq, s.IConst(c))))
	s.quots[key] = q
	s.quotOf[q.id] = quotDef{x, c}
	return q
}

type quotDef struct {
	x *Term
	c *big.Int
}

func (s *TermStore) IModC(x *Term, c *big.Int) *Term {
	if x.IsConst() {
		return s.IConst(new(big.Int).Mod(x.bk, c))
	}
	if x.lo.Sign() >= 0 && x.hi.Cmp(c) < 0 {
		return x
	}
	q := s.IDivC(x, c)
	r := s.ISub(x, s.IMulC(c, q))
	if r.IsConst() {
		return r
	}
	// the remainder lies in [0, c-1] — a fact that cannot be recovered from the operands' intervals
	s.refine(r, bigZero, new(big.Int).Sub(c, bigOne))
	return r
}

// tighten returns a term equal to t whose recorded interval is [lo,hi] (a fact known to the caller).
func (s *TermStore) tighten(t *Term, lo, hi *big.Int) *Term {
	if t.lo.Cmp(lo) >= 0 && t.hi.Cmp(hi) <= 0 {
		return t
	}
	key := fmt.Sprintf("T%d", t.id)
	if x, ok := s.tab[key]; ok {
		return x
	}
	nt := *t
	nt.lo, nt.hi = maxBig(t.lo, lo), minBig(t.hi, hi)
	nt.id = s.next
	s.next++
	nt.alias = t
	s.tab[key] = &nt
	return &nt
}

// comparisons on Int terms
func (s *TermStore) ILt(a, b *Term) *Term {
	if a.hi.Cmp(b.lo) < 0 {
		return s.tt
	}
	if a.lo.Cmp(b.hi) >= 0 {
		return s.ff
	}
	if a.op == OpIte && b.IsConst() && iteOfConsts(a, 4) {
		return s.Ite(a.args[0], s.ILt(a.args[1], b), s.ILt(a.args[2], b))
	}
	if b.op == OpIte && a.IsConst() && iteOfConsts(b, 4) {
		return s.Ite(b.args[0], s.ILt(a, b.args[1]), s.ILt(a, b.args[2]))
	}
	if a.op == OpLin || b.op == OpLin {
		if d := s.ISub(a, b); d.IsConst() {
			return s.Bool(d.bk.Sign() < 0)
		}
	}
	return s.mkRaw(OpSlt, 0, a, b)
}
func (s *TermStore) ILe(a, b *Term) *Term { return s.BNot(s.ILt(b, a)) }

func (s *TermStore) IEq(a, b *Term) *Term {
	if a == b || (a.alias != nil && a.alias == b) || (b.alias != nil && b.alias == a) {
		return s.tt
	}
	if a.IsConst() && b.IsConst() {
		return s.Bool(a.bk.Cmp(b.bk) == 0)
	}
	if a.hi.Cmp(b.lo) < 0 || b.hi.Cmp(a.lo) < 0 {
		return s.ff
	}
	if a.op == OpIte && b.IsConst() && iteOfConsts(a, 4) {
		return s.Ite(a.args[0], s.IEq(a.args[1], b), s.IEq(a.args[2], b))
	}
	if b.op == OpIte && a.IsConst() && iteOfConsts(b, 4) {
		return s.Ite(b.args[0], s.IEq(a, b.args[1]), s.IEq(a, b.args[2]))
	}
	if a.op == OpLin || b.op == OpLin {
		if d := s.ISub(a, b); d.IsConst() {
			return s.Bool(d.bk.Sign() == 0)
		}
	}
	return s.mkRaw(OpEq, 0, order(a, b)...)
}

// uview: the value of a two's-complement w-bit reinterpretation as unsigned
func (s *TermStore) uview(t *Term, w int) *Term {
	if t.lo.Sign() >= 0 {
		return t
	}
	if t.hi.Sign() < 0 {
		return s.IAdd(t, s.IConst(pow2(w)))
	}
	return s.Ite(s.ILt(t, s.IConst(bigZero)), s.IAdd(t, s.IConst(pow2(w))), t)
}

// iwrap reduces an exact result to the range of a w-bit (un)signed Go integer type.
func (s *TermStore) iwrap(t *Term, w int, signed bool) *Term {
	if w <= 0 {
		return t
	}
	var lo, hi *big.Int
	if signed {
		lo = new(big.Int).Neg(pow2(w - 1))
		hi = new(big.Int).Sub(pow2(w-1), bigOne)
	} else {
		lo = bigZero
		hi = new(big.Int).Sub(pow2(w), bigOne)
	}
	if t.lo.Cmp(lo) >= 0 && t.hi.Cmp(hi) <= 0 {
		return t
	}
	s.wraps++
	if !signed {
		return s.IModC(t, pow2(w))
	}
	half := pow2(w - 1)
	return s.ISub(s.IModC(s.IAdd(t, s.IConst(half)), pow2(w)), s.IConst(half))
}

// known trailing zero bits of an Int term (multiples of 2^k)
func tzKnown(t *Term) int {
	switch {
	case t.IsConst():
		if t.bk.Sign() == 0 {
			return 1 << 20
		}
		return int(new(big.Int).Abs(t.bk).TrailingZeroBits())
	case t.op == OpLin:
		m := 1 << 20
		if t.lin.c0.Sign() != 0 {
			m = int(new(big.Int).Abs(t.lin.c0).TrailingZeroBits())
		}
		for i, a := range t.lin.atoms {
			k := int(new(big.Int).Abs(t.lin.coefs[i]).TrailingZeroBits()) + tzKnown(a)
			if k < m {
				m = k
			}
		}
		return m
	}
	if t.alias != nil {
		return tzKnown(t.alias)
	}
	return 0
}

func intLit(v *big.Int) string {
	if v.Sign() < 0 {
		return "(- " + new(big.Int).Neg(v).String() + ")"
	}
	return v.String()
}

// ISelect: constant-table lookup in Int mode (values stored as two's-complement int64).
func (s *TermStore) ISelect(tab *tableT, idx *Term) *Term {
	n := int64(len(tab.vals))
	if idx.IsConst() {
		i := idx.bk.Int64()
		if idx.bk.IsInt64() && i >= 0 && i < n {
			return s.IConst64(int64(tab.vals[i]))
		}
		return s.IConst(bigZero)
	}
	if idx.op == OpSelect && idx.w == IntW {
		inner := idx.tab
		nv := make([]uint64, len(inner.vals))
		for i, v := range inner.vals {
			if int64(v) >= 0 && int64(v) < n {
				nv[i] = tab.vals[int64(v)]
			}
		}
		return s.ISelect(internTable(nv, IntW), idx.args[0])
	}
	lo, hi := int64(0), n-1
	if idx.lo.IsInt64() && idx.lo.Int64() > lo {
		lo = idx.lo.Int64()
	}
	if idx.hi.IsInt64() && idx.hi.Int64() < hi {
		hi = idx.hi.Int64()
	}
	if lo > hi {
		return s.IConst(bigZero)
	}
	allowed := s.idomain[idx.id]
	for allowed != nil && lo <= hi && !(int(lo) < len(allowed) && allowed[lo]) {
		lo++
	}
	if lo > hi {
		return s.IConst(bigZero)
	}
	ident, constant := true, true
	mn, mx := int64(tab.vals[lo]), int64(tab.vals[lo])
	for i := lo; i <= hi; i++ {
		if allowed != nil && !(int(i) < len(allowed) && allowed[i]) {
			continue
		}
		v := int64(tab.vals[i])
		if v != i {
			ident = false
		}
		if v != int64(tab.vals[lo]) {
			constant = false
		}
		if v < mn {
			mn = v
		}
		if v > mx {
			mx = v
		}
	}
	if constant {
		return s.IConst64(int64(tab.vals[lo]))
	}
	if ident {
		return idx
	}
	t := s.mk(&Term{op: OpSelect, w: IntW, k: uint64(tab.id), args: []*Term{idx}, tab: tab, lo: big.NewInt(mn), hi: big.NewInt(mx)})
	return t
}

// refineFromFact narrows the interval of an Int term from a path fact comparing it with a constant
// (terms are per path, so path facts are sound for everything derived afterwards).
func (s *TermStore) refineFromFact(c *Term) {
	if os.Getenv("GOSYM_REFDBG") != "" {
		fmt.Fprintf(os.Stderr, "[refine] %.200s\n", c.String())
	}
	if c.op == OpBAnd {
		s.refineFromFact(c.args[0])
		s.refineFromFact(c.args[1])
		return
	}
	if c.op == OpBNot && c.args[0].op == OpBOr {
		s.refineFromFact(s.BNot(c.args[0].args[0]))
		s.refineFromFact(s.BNot(c.args[0].args[1]))
		return
	}
	neg := false
	if c.op == OpBNot {
		neg = true
		c = c.args[0]
	}
	if len(c.args) != 2 || c.args[0].w != IntW {
		return
	}
	// interval facts change what norm() can fold: reset its memo and make sure it runs
	if s.sub == nil {
		s.sub = &substCtx{m: map[int]*Term{}, memo: map[int]*Term{}}
	}
	s.sub.memo = map[int]*Term{}
	s.sub.m[-1<<40] = s.tt
	a, b := c.args[0], c.args[1]
	if c.op == OpEq && a.IsConst() && !b.IsConst() {
		a, b = b, a // equalities are stored with arguments ordered by id
	}
	one := bigOne
	// a fact about a table lookup restricts the domain of its index
	if a.op == OpSelect && a.w == IntW && b.IsConst() && b.bk.IsInt64() {
		k := b.bk.Int64()
		var pred func(v int64) bool
		switch {
		case c.op == OpSlt && !neg:
			pred = func(v int64) bool { return v < k }
		case c.op == OpSlt && neg:
			pred = func(v int64) bool { return v >= k }
		case c.op == OpEq && !neg:
			pred = func(v int64) bool { return v == k }
		case c.op == OpEq && neg:
			pred = func(v int64) bool { return v != k }
		}
		if pred != nil {
			idx := a.args[0]
			if s.idomain == nil {
				s.idomain = map[int][]bool{}
			}
			cur, ok := s.idomain[idx.id]
			if !ok {
				cur = make([]bool, len(a.tab.vals))
				for i := range cur {
					cur[i] = true
				}
			}
			for i := range cur {
				if i >= len(a.tab.vals) || !pred(int64(a.tab.vals[i])) {
					cur[i] = false
				}
			}
			s.idomain[idx.id] = cur
			if s.sub == nil {
				s.sub = &substCtx{m: map[int]*Term{}, memo: map[int]*Term{}}
			}
			s.sub.memo = map[int]*Term{}
			s.sub.m[-1-idx.id] = s.tt
		}
	}
	switch c.op {
	case OpSlt: // a < b
		if !neg {
			if b.IsConst() {
				s.refine(a, nil, new(big.Int).Sub(b.bk, one))
			}
			if a.IsConst() {
				s.refine(b, new(big.Int).Add(a.bk, one), nil)
			}
		} else { // a >= b
			if b.IsConst() {
				s.refine(a, b.bk, nil)
			}
			if a.IsConst() {
				s.refine(b, nil, a.bk)
			}
		}
	case OpSle: // a <= b (raw side conditions)
		if !neg {
			if b.IsConst() {
				s.refine(a, nil, b.bk)
			}
			if a.IsConst() {
				s.refine(b, a.bk, nil)
			}
		}
	case OpEq:
		if !neg {
			if b.IsConst() {
				s.refine(a, b.bk, b.bk)
			}
			if a.IsConst() {
				s.refine(b, a.bk, a.bk)
			}
		}
	}
}
