package main

// Int mode: scalars are mathematical integers (SMT sort Int) carrying an interval. The TermStore
// constructors dispatch on the sort, so that the interpreter's generic code works unchanged; Go's
// fixed-width wrap-around is applied explicitly (iwrap) and dropped when the interval proves it
// redundant. Division/remainder by constants use a fresh quotient variable q with
// c*q <= x < c*q + c  (remainder = x - c*q with interval [0,c-1]); products of two symbolic terms are
// abstracted to one bounded variable per unordered pair (sound over-approximation).

import (
	"fmt"
	"math/big"
)

const IntW = -1

var (
	bigZero = big.NewInt(0)
	bigOne  = big.NewInt(1)
)

func pow2(k int) *big.Int { return new(big.Int).Lsh(bigOne, uint(k)) }

func (t *Term) IsInt() bool { return t.w == IntW }

func (s *TermStore) IConst(v *big.Int) *Term {
	k := "I" + v.String()
	if t, ok := s.tab[k]; ok {
		return t
	}
	t := &Term{op: OpConst, w: IntW, bk: new(big.Int).Set(v), lo: new(big.Int).Set(v), hi: new(big.Int).Set(v)}
	t.id = s.next
	s.next++
	if v.IsUint64() {
		t.k = v.Uint64()
		t.umax = t.k
	} else if v.IsInt64() {
		t.k = uint64(v.Int64())
		t.umax = ^uint64(0)
	} else {
		t.umax = ^uint64(0)
	}
	s.tab[k] = t
	return t
}

func (s *TermStore) IConst64(v int64) *Term   { return s.IConst(big.NewInt(v)) }
func (s *TermStore) IConstU(v uint64) *Term   { return s.IConst(new(big.Int).SetUint64(v)) }

// IVar declares an integer variable with a known interval (the range constraint is queued as a side condition).
func (s *TermStore) IVar(name string, lo, hi *big.Int) *Term {
	t := s.mk(&Term{op: OpVar, w: IntW, name: name, lo: lo, hi: hi})
	if !s.ranged[name] {
		if s.ranged == nil {
			s.ranged = map[string]bool{}
		}
		s.ranged[name] = true
		s.pending = append(s.pending, s.mkRaw(OpSle, 0, s.IConst(lo), t), s.mkRaw(OpSle, 0, t, s.IConst(hi)))
	}
	return t
}

func (s *TermStore) mkRaw(op Op, w int, args ...*Term) *Term {
	return s.mk(&Term{op: op, w: w, args: args})
}

func (s *TermStore) mkI(op Op, lo, hi *big.Int, args ...*Term) *Term {
	return s.mk(&Term{op: op, w: IntW, args: args, lo: lo, hi: hi})
}

func minBig(a, b *big.Int) *big.Int {
	if a.Cmp(b) < 0 {
		return a
	}
	return b
}
func maxBig(a, b *big.Int) *big.Int {
	if a.Cmp(b) > 0 {
		return a
	}
	return b
}

func (s *TermStore) IAdd(a, b *Term) *Term {
	if a.IsConst() && b.IsConst() {
		return s.IConst(new(big.Int).Add(a.bk, b.bk))
	}
	if a.IsConst() {
		a, b = b, a
	}
	if b.IsConst() && b.bk.Sign() == 0 {
		return a
	}
	// (x + c1) + c2
	if b.IsConst() && a.op == OpAdd && a.args[1].IsConst() {
		return s.IAdd(a.args[0], s.IConst(new(big.Int).Add(a.args[1].bk, b.bk)))
	}
	return s.mkI(OpAdd, new(big.Int).Add(a.lo, b.lo), new(big.Int).Add(a.hi, b.hi), a, b)
}

func (s *TermStore) INeg(a *Term) *Term { return s.IMulC(big.NewInt(-1), a) }

func (s *TermStore) ISub(a, b *Term) *Term {
	if a == b {
		return s.IConst(bigZero)
	}
	return s.IAdd(a, s.INeg(b))
}

// IMulC: constant * term
func (s *TermStore) IMulC(k *big.Int, a *Term) *Term {
	if a.IsConst() {
		return s.IConst(new(big.Int).Mul(k, a.bk))
	}
	if k.Sign() == 0 {
		return s.IConst(bigZero)
	}
	if k.Cmp(bigOne) == 0 {
		return a
	}
	if a.op == OpMul && a.args[0].IsConst() {
		return s.IMulC(new(big.Int).Mul(k, a.args[0].bk), a.args[1])
	}
	if a.op == OpAdd {
		// distribute: keeps sums of monomials flat (needed for the product abstraction to meet the spec)
		return s.IAdd(s.IMulC(k, a.args[0]), s.IMulC(k, a.args[1]))
	}
	x, y := new(big.Int).Mul(k, a.lo), new(big.Int).Mul(k, a.hi)
	return s.mkI(OpMul, minBig(x, y), maxBig(x, y), s.IConst(k), a)
}

// IMul: product; two symbolic factors are abstracted to a bounded variable shared per unordered pair.
func (s *TermStore) IMul(a, b *Term) *Term {
	if a.IsConst() {
		return s.IMulC(a.bk, b)
	}
	if b.IsConst() {
		return s.IMulC(b.bk, a)
	}
	// factor out constant multipliers
	if a.op == OpMul && a.args[0].IsConst() {
		return s.IMulC(a.args[0].bk, s.IMul(a.args[1], b))
	}
	if b.op == OpMul && b.args[0].IsConst() {
		return s.IMulC(b.args[0].bk, s.IMul(a, b.args[1]))
	}
	if a.op == OpAdd {
		return s.IAdd(s.IMul(a.args[0], b), s.IMul(a.args[1], b))
	}
	if b.op == OpAdd {
		return s.IAdd(s.IMul(a, b.args[0]), s.IMul(a, b.args[1]))
	}
	x, y := a, b
	if x.id > y.id {
		x, y = y, x
	}
	key := [2]int{x.id, y.id}
	if s.monos == nil {
		s.monos = map[[2]int]*Term{}
	}
	if m, ok := s.monos[key]; ok {
		return m
	}
	c := []*big.Int{new(big.Int).Mul(a.lo, b.lo), new(big.Int).Mul(a.lo, b.hi), new(big.Int).Mul(a.hi, b.lo), new(big.Int).Mul(a.hi, b.hi)}
	lo, hi := c[0], c[0]
	for _, v := range c[1:] {
		lo, hi = minBig(lo, v), maxBig(hi, v)
	}
	s.monoSeq++
	m := s.IVar(fmt.Sprintf("mono!%d", s.monoSeq), lo, hi)
	s.monos[key] = m
	s.abstracted = true
	return m
}

// IDivC: floor(x / c) for constant c > 0, through a quotient variable; IModC: x - c*floor(x/c).
func (s *TermStore) IDivC(x *Term, c *big.Int) *Term {
	if c.Sign() <= 0 {
		panic("IDivC: non-positive divisor")
	}
	if x.IsConst() {
		q, _ := new(big.Int).DivMod(x.bk, c, new(big.Int))
		return s.IConst(q)
	}
	if c.Cmp(bigOne) == 0 {
		return x
	}
	fl := func(v *big.Int) *big.Int { q, _ := new(big.Int).DivMod(v, c, new(big.Int)); return q }
	qlo, qhi := fl(x.lo), fl(x.hi)
	if qlo.Cmp(qhi) == 0 {
		return s.IConst(qlo)
	}
	// exact division of a scaled term: (c*k*y) / c = k*y
	if x.op == OpMul && x.args[0].IsConst() {
		k := x.args[0].bk
		if r := new(big.Int).Mod(k, c); r.Sign() == 0 {
			return s.IMulC(new(big.Int).Div(k, c), x.args[1])
		}
	}
	key := fmt.Sprintf("%d/%s", x.id, c.String())
	if s.quots == nil {
		s.quots = map[string]*Term{}
	}
	if q, ok := s.quots[key]; ok {
		return q
	}
	s.quotSeq++
	q := s.IVar(fmt.Sprintf("quot!%d", s.quotSeq), qlo, qhi)
	// c*q <= x < c*q + c
	cq := s.IMulC(c, q)
	s.pending = append(s.pending, s.mkRaw(OpSle, 0, cq, x), s.mkRaw(OpSlt, 0, x, s.IAdd(cq, s.IConst(c))))
	s.quots[key] = q
	return q
}

func (s *TermStore) IModC(x *Term, c *big.Int) *Term {
	if x.IsConst() {
		return s.IConst(new(big.Int).Mod(x.bk, c))
	}
	if x.lo.Sign() >= 0 && x.hi.Cmp(c) < 0 {
		return x
	}
	q := s.IDivC(x, c)
	r := s.ISub(x, s.IMulC(c, q))
	if r.IsConst() {
		return r
	}
	// the remainder's interval is [0, c-1] (cannot be recovered from the operands' intervals)
	cm1 := new(big.Int).Sub(c, bigOne)
	nr := *r
	nt := &nr
	nt.lo, nt.hi = bigZero, minBig(cm1, maxBig(r.hi, bigZero))
	if r.hi.Sign() < 0 || r.hi.Cmp(cm1) > 0 {
		nt.hi = cm1
	}
	// keep identity (same id) but with the tightened interval: register as a distinct hash-consed node
	return s.tighten(r, nt.lo, nt.hi)
}

// tighten returns a term equal to t whose recorded interval is [lo,hi] (a fact known to the caller).
func (s *TermStore) tighten(t *Term, lo, hi *big.Int) *Term {
	if t.lo.Cmp(lo) >= 0 && t.hi.Cmp(hi) <= 0 {
		return t
	}
	key := fmt.Sprintf("T%d", t.id)
	if x, ok := s.tab[key]; ok {
		return x
	}
	nt := *t
	nt.lo, nt.hi = maxBig(t.lo, lo), minBig(t.hi, hi)
	nt.id = s.next
	s.next++
	nt.alias = t
	s.tab[key] = &nt
	return &nt
}

// comparisons on Int terms
func (s *TermStore) ILt(a, b *Term) *Term {
	if a.hi.Cmp(b.lo) < 0 {
		return s.tt
	}
	if a.lo.Cmp(b.hi) >= 0 {
		return s.ff
	}
	return s.mkRaw(OpSlt, 0, a, b)
}
func (s *TermStore) ILe(a, b *Term) *Term { return s.BNot(s.ILt(b, a)) }

func (s *TermStore) IEq(a, b *Term) *Term {
	if a == b || (a.alias != nil && a.alias == b) || (b.alias != nil && b.alias == a) {
		return s.tt
	}
	if a.IsConst() && b.IsConst() {
		return s.Bool(a.bk.Cmp(b.bk) == 0)
	}
	if a.hi.Cmp(b.lo) < 0 || b.hi.Cmp(a.lo) < 0 {
		return s.ff
	}
	return s.mkRaw(OpEq, 0, order(a, b)...)
}

// uview: the value of a two's-complement w-bit reinterpretation as unsigned
func (s *TermStore) uview(t *Term, w int) *Term {
	if t.lo.Sign() >= 0 {
		return t
	}
	if t.hi.Sign() < 0 {
		return s.IAdd(t, s.IConst(pow2(w)))
	}
	return s.Ite(s.ILt(t, s.IConst(bigZero)), s.IAdd(t, s.IConst(pow2(w))), t)
}

// iwrap reduces an exact result to the range of a w-bit (un)signed Go integer type.
func (s *TermStore) iwrap(t *Term, w int, signed bool) *Term {
	if w <= 0 {
		return t
	}
	var lo, hi *big.Int
	if signed {
		lo = new(big.Int).Neg(pow2(w - 1))
		hi = new(big.Int).Sub(pow2(w-1), bigOne)
	} else {
		lo = bigZero
		hi = new(big.Int).Sub(pow2(w), bigOne)
	}
	if t.lo.Cmp(lo) >= 0 && t.hi.Cmp(hi) <= 0 {
		return t
	}
	s.wraps++
	if !signed {
		return s.IModC(t, pow2(w))
	}
	half := pow2(w - 1)
	return s.ISub(s.IModC(s.IAdd(t, s.IConst(half)), pow2(w)), s.IConst(half))
}

// known trailing zero bits of an Int term (multiples of 2^k)
func tzKnown(t *Term) int {
	switch {
	case t.IsConst():
		if t.bk.Sign() == 0 {
			return 1 << 20
		}
		return int(new(big.Int).Abs(t.bk).TrailingZeroBits())
	case t.op == OpMul && t.args[0].IsConst():
		return tzKnown(t.args[0]) + tzKnown(t.args[1])
	case t.op == OpAdd:
		a, b := tzKnown(t.args[0]), tzKnown(t.args[1])
		if a < b {
			return a
		}
		return b
	}
	if t.alias != nil {
		return tzKnown(t.alias)
	}
	return 0
}

func intLit(v *big.Int) string {
	if v.Sign() < 0 {
		return "(- " + new(big.Int).Neg(v).String() + ")"
	}
	return v.String()
}
