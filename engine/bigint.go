package main

// math/big.Int as an engine cell (*BigV). BV mode: concrete values only; symbolic big integers are
// provided by Int mode (polyint.go).

import (
	"fmt"
	"go/types"
	"math/big"

	"golang.org/x/tools/go/ssa"
)

func (r *Run) bigCell(v Value, write bool) *BigV {
	p := v.(*PtrV)
	if p.obj == nil {
		r.goPanic("runtime error: invalid memory address or nil pointer dereference")
	}
	var o *Obj
	if write {
		o = r.wobj(p.obj)
	} else {
		o = r.robj(p.obj)
	}
	c, ok := navigate(o.val, p.path).(*BigV)
	if !ok {
		panic(unsupported("big.Int pointer does not address a big.Int cell"))
	}
	return c
}

func bigBin(f func(z, x, y *big.Int) *big.Int) intrinFn {
	return func(r *Run, fn *ssa.Function, a []Value) Value {
		if r.intMode != nil {
			if v, ok := r.intBig(fn, a); ok {
				return v
			}
		}
		x, y := r.bigCell(a[1], false), r.bigCell(a[2], false)
		r.needConcrete(x, y)
		z := r.bigCell(a[0], true)
		nv := f(new(big.Int), x.v, y.v)
		z.v = nv
		z.sym = nil
		return a[0]
	}
}

func bigBinDiv(f func(z, x, y *big.Int) *big.Int) intrinFn {
	g := bigBin(f)
	return func(r *Run, fn *ssa.Function, a []Value) Value {
		y := r.bigCell(a[2], false)
		if y.sym == nil && y.v.Sign() == 0 {
			r.goPanic("division by zero")
		}
		return g(r, fn, a)
	}
}

func bigUn(f func(z, x *big.Int) *big.Int) intrinFn {
	return func(r *Run, fn *ssa.Function, a []Value) Value {
		if r.intMode != nil {
			if x := r.bigCell(a[1], false); x.sym != nil {
				xt := r.bigTerm(x)
				switch fn.Name() {
				case "Neg":
					r.setBig(r.bigCell(a[0], true), r.ts.INeg(xt))
					return a[0]
				case "Abs":
					r.setBig(r.bigCell(a[0], true), r.ts.Ite(r.ts.ILt(xt, r.ts.IConst(bigZero)), r.ts.INeg(xt), xt))
					return a[0]
				}
			}
		}
		x := r.bigCell(a[1], false)
		r.needConcrete(x)
		z := r.bigCell(a[0], true)
		z.v = f(new(big.Int), x.v)
		z.sym = nil
		return a[0]
	}
}

func (r *Run) needConcrete(xs ...*BigV) {
	for _, x := range xs {
		if x.sym != nil || x.bsym != nil {
			panic(unsupported("arithmetic on a symbolic big.Int (only SetBytes/Cmp/Sign/Bytes are supported in BV mode) at " + r.curPos()))
		}
	}
}

func init() {
	B := "(*math/big.Int)."
	m := map[string]intrinFn{
		"math/big.NewInt": func(r *Run, fn *ssa.Function, a []Value) Value {
			t := a[0].(*Term)
			bt := fn.Signature.Results().At(0).Type().(*types.Pointer).Elem()
			var cell *BigV
			if t.IsConst() {
				cell = &BigV{v: big.NewInt(int64(t.k))}
			} else if r.intMode != nil {
				cell = r.intBigFromTerm(t, true)
			} else {
				panic(unsupported("big.NewInt of symbolic value in BV mode"))
			}
			o := r.newObj(bt, cell)
			return &PtrV{obj: o}
		},
		B + "Add": bigBin(func(z, x, y *big.Int) *big.Int { return z.Add(x, y) }),
		B + "Sub": bigBin(func(z, x, y *big.Int) *big.Int { return z.Sub(x, y) }),
		B + "Mul": bigBin(func(z, x, y *big.Int) *big.Int { return z.Mul(x, y) }),
		B + "Div": bigBinDiv(func(z, x, y *big.Int) *big.Int { return z.Div(x, y) }),
		B + "Mod": bigBinDiv(func(z, x, y *big.Int) *big.Int { return z.Mod(x, y) }),
		B + "Quo": bigBinDiv(func(z, x, y *big.Int) *big.Int { return z.Quo(x, y) }),
		B + "Rem": bigBinDiv(func(z, x, y *big.Int) *big.Int { return z.Rem(x, y) }),
		B + "And": bigBin(func(z, x, y *big.Int) *big.Int { return z.And(x, y) }),
		B + "Or":  bigBin(func(z, x, y *big.Int) *big.Int { return z.Or(x, y) }),
		B + "Xor": bigBin(func(z, x, y *big.Int) *big.Int { return z.Xor(x, y) }),
		B + "ModInverse": bigBin(func(z, x, y *big.Int) *big.Int {
			res := z.ModInverse(x, y)
			if res == nil {
				return new(big.Int)
			}
			return res
		}),
		B + "Set": func(r *Run, fn *ssa.Function, a []Value) Value {
			x := r.bigCell(a[1], false)
			z := r.bigCell(a[0], true)
			if x.v != nil {
				z.v = new(big.Int).Set(x.v)
			} else {
				z.v = nil
			}
			z.sym, z.bsym = x.sym, x.bsym
			return a[0]
		},
		B + "Neg":  bigUn(func(z, x *big.Int) *big.Int { return z.Neg(x) }),
		B + "Abs":  bigUn(func(z, x *big.Int) *big.Int { return z.Abs(x) }),
		B + "Not":  bigUn(func(z, x *big.Int) *big.Int { return z.Not(x) }),
		B + "Sqrt": bigUn(func(z, x *big.Int) *big.Int { return z.Sqrt(x) }),
		B + "Exp": func(r *Run, fn *ssa.Function, a []Value) Value {
			x, y := r.bigCell(a[1], false), r.bigCell(a[2], false)
			var mm *big.Int
			if mp := a[3].(*PtrV); mp.obj != nil {
				mc := r.bigCell(a[3], false)
				r.needConcrete(mc)
				mm = mc.v
			}
			r.needConcrete(x, y)
			z := r.bigCell(a[0], true)
			z.v = new(big.Int).Exp(x.v, y.v, mm)
			z.sym = nil
			return a[0]
		},
		B + "DivMod": func(r *Run, fn *ssa.Function, a []Value) Value {
			if r.intMode != nil {
				if v, ok := r.intBig(fn, a); ok {
					return v
				}
			}
			x, y := r.bigCell(a[1], false), r.bigCell(a[2], false)
			r.needConcrete(x, y)
			if y.v.Sign() == 0 {
				r.goPanic("division by zero")
			}
			z, m := r.bigCell(a[0], true), r.bigCell(a[3], true)
			q, mm := new(big.Int).DivMod(x.v, y.v, new(big.Int))
			z.v, m.v = q, mm
			z.sym, m.sym = nil, nil
			return TupleV{a[0], a[3]}
		},
		B + "QuoRem": func(r *Run, fn *ssa.Function, a []Value) Value {
			x, y := r.bigCell(a[1], false), r.bigCell(a[2], false)
			r.needConcrete(x, y)
			if y.v.Sign() == 0 {
				r.goPanic("division by zero")
			}
			z, m := r.bigCell(a[0], true), r.bigCell(a[3], true)
			q, mm := new(big.Int).QuoRem(x.v, y.v, new(big.Int))
			z.v, m.v = q, mm
			z.sym, m.sym = nil, nil
			return TupleV{a[0], a[3]}
		},
		B + "Lsh": func(r *Run, fn *ssa.Function, a []Value) Value {
			if r.intMode != nil {
				if v, ok := r.intBig(fn, a); ok {
					return v
				}
			}
			x := r.bigCell(a[1], false)
			r.needConcrete(x)
			n := uint(r.concretize(a[2].(*Term), "big shift"))
			z := r.bigCell(a[0], true)
			z.v = new(big.Int).Lsh(x.v, n)
			z.sym = nil
			return a[0]
		},
		B + "Rsh": func(r *Run, fn *ssa.Function, a []Value) Value {
			if r.intMode != nil {
				if v, ok := r.intBig(fn, a); ok {
					return v
				}
			}
			x := r.bigCell(a[1], false)
			r.needConcrete(x)
			n := uint(r.concretize(a[2].(*Term), "big shift"))
			z := r.bigCell(a[0], true)
			z.v = new(big.Int).Rsh(x.v, n)
			z.sym = nil
			return a[0]
		},
		B + "SetInt64": func(r *Run, fn *ssa.Function, a []Value) Value {
			t := a[1].(*Term)
			z := r.bigCell(a[0], true)
			if t.IsConst() {
				z.v, z.sym = big.NewInt(int64(t.k)), nil
			} else if r.intMode != nil {
				*z = *r.intBigFromTerm(t, true)
			} else {
				panic(unsupported("SetInt64 of symbolic value in BV mode"))
			}
			return a[0]
		},
		B + "SetUint64": func(r *Run, fn *ssa.Function, a []Value) Value {
			t := a[1].(*Term)
			z := r.bigCell(a[0], true)
			if t.IsConst() {
				z.v, z.sym = new(big.Int).SetUint64(t.k), nil
			} else if r.intMode != nil {
				*z = *r.intBigFromTerm(t, false)
			} else {
				panic(unsupported("SetUint64 of symbolic value in BV mode"))
			}
			return a[0]
		},
		B + "SetBytes": func(r *Run, fn *ssa.Function, a []Value) Value {
			b := r.sliceBytes(a[1].(*SliceV))
			z := r.bigCell(a[0], true)
			if cb, ok := concreteBytes(b); ok {
				z.v, z.sym = new(big.Int).SetBytes(cb), nil
			} else if r.intMode != nil {
				*z = *r.intBigFromBytes(b)
			} else {
				z.v, z.sym, z.bsym = nil, nil, append([]*Term{}, b...)
			}
			return a[0]
		},
		B + "Bytes": func(r *Run, fn *ssa.Function, a []Value) Value {
			x := r.bigCell(a[0], false)
			if x.sym != nil {
				return r.intBigBytes(x)
			}
			if x.bsym != nil {
				// strip leading zero bytes (forks on each)
				bs := x.bsym
				for len(bs) > 0 && r.branch(r.ts.Eq(bs[0], r.ts.Const(8, 0))) {
					bs = bs[1:]
				}
				return r.newByteSlice(bs, len(bs))
			}
			b := x.v.Bytes()
			return r.newByteSlice(r.constBytes(b), len(b))
		},
		B + "FillBytes": func(r *Run, fn *ssa.Function, a []Value) Value {
			x := r.bigCell(a[0], false)
			if x.sym != nil {
				// Int mode: big-endian digits of the magnitude (non-negative values only)
				s := a[1].(*SliceV)
				v := x.sym
				if v.lo.Sign() < 0 {
					if r.branch(r.ts.ILt(v, r.ts.IConst(bigZero))) {
						panic(unsupported("FillBytes of a possibly negative big.Int"))
					}
					r.ts.refine(v, bigZero, v.hi)
				}
				if v.hi.Cmp(pow2(8*s.len)) >= 0 {
					if !r.branch(r.ts.ILt(v, r.ts.IConst(pow2(8*s.len)))) {
						r.goPanic("math/big: buffer too small to fit value")
					}
				}
				arr := r.sliceArrW(s)
				for i := 0; i < s.len; i++ {
					arr.e[s.off+i] = r.ts.IModC(r.ts.IDivC(v, pow2(8*(s.len-1-i))), pow2(8))
				}
				return s
			}
			r.needConcrete(x)
			s := a[1].(*SliceV)
			if len(x.v.Bytes()) > s.len {
				r.goPanic("math/big: buffer too small to fit value")
			}
			buf := make([]byte, s.len)
			x.v.FillBytes(buf)
			arr := r.sliceArrW(s)
			for i, c := range buf {
				arr.e[s.off+i] = r.ts.Const(8, uint64(c))
			}
			return s
		},
		B + "Cmp": func(r *Run, fn *ssa.Function, a []Value) Value {
			x, y := r.bigCell(a[0], false), r.bigCell(a[1], false)
			if x.sym != nil || y.sym != nil {
				return r.intBigCmp(x, y)
			}
			if x.bsym != nil || y.bsym != nil {
				xb, xneg := r.bigMagBytes(x)
				yb, yneg := r.bigMagBytes(y)
				if xneg || yneg {
					panic(unsupported("comparison of symbolic big.Int with a negative number"))
				}
				for len(xb) < len(yb) {
					xb = append([]*Term{r.ts.Const(8, 0)}, xb...)
				}
				for len(yb) < len(xb) {
					yb = append([]*Term{r.ts.Const(8, 0)}, yb...)
				}
				lt := r.strLess(StrV{b: xb}, StrV{b: yb}, false)
				eq := r.eqVal(StrV{b: xb}, StrV{b: yb})
				return r.ts.Ite(lt, r.ts.Const(64, ^uint64(0)), r.ts.Ite(eq, r.ts.Const(64, 0), r.ts.Const(64, 1)))
			}
			return r.constI64(int64(x.v.Cmp(y.v)))
		},
		B + "CmpAbs": func(r *Run, fn *ssa.Function, a []Value) Value {
			x, y := r.bigCell(a[0], false), r.bigCell(a[1], false)
			r.needConcrete(x, y)
			return r.constI64(int64(x.v.CmpAbs(y.v)))
		},
		B + "Sign": func(r *Run, fn *ssa.Function, a []Value) Value {
			x := r.bigCell(a[0], false)
			if x.sym != nil {
				return r.intBigSign(x)
			}
			if x.bsym != nil {
				nz := r.ts.Bool(false)
				for _, b := range x.bsym {
					nz = r.ts.BOr(nz, r.ts.BNot(r.ts.Eq(b, r.ts.Const(8, 0))))
				}
				return r.ts.Ite(nz, r.ts.Const(64, 1), r.ts.Const(64, 0))
			}
			return r.constI64(int64(x.v.Sign()))
		},
		B + "Int64": func(r *Run, fn *ssa.Function, a []Value) Value {
			x := r.bigCell(a[0], false)
			if x.sym != nil {
				return r.intBigToTerm(x, 64)
			}
			return r.constI64(x.v.Int64())
		},
		B + "Uint64": func(r *Run, fn *ssa.Function, a []Value) Value {
			x := r.bigCell(a[0], false)
			if x.sym != nil {
				return r.intBigToTerm(x, 64)
			}
			return r.ts.Const(64, x.v.Uint64())
		},
		B + "IsInt64": func(r *Run, fn *ssa.Function, a []Value) Value {
			x := r.bigCell(a[0], false)
			r.needConcrete(x)
			return r.ts.Bool(x.v.IsInt64())
		},
		B + "IsUint64": func(r *Run, fn *ssa.Function, a []Value) Value {
			x := r.bigCell(a[0], false)
			r.needConcrete(x)
			return r.ts.Bool(x.v.IsUint64())
		},
		B + "BitLen": func(r *Run, fn *ssa.Function, a []Value) Value {
			x := r.bigCell(a[0], false)
			if x.sym != nil {
				return r.intBigBitLen(x)
			}
			return r.ts.Const(64, uint64(x.v.BitLen()))
		},
		B + "Bit": func(r *Run, fn *ssa.Function, a []Value) Value {
			x := r.bigCell(a[0], false)
			i := int(r.concretize(a[1].(*Term), "big bit index"))
			if x.sym != nil {
				return r.intBigBit(x, i)
			}
			return r.ts.Const(64, uint64(x.v.Bit(i)))
		},
		B + "Bits": func(r *Run, fn *ssa.Function, a []Value) Value {
			x := r.bigCell(a[0], false)
			if x.sym != nil {
				return r.intBigBits(x)
			}
			ws := x.v.Bits()
			arr := &ArrayV{e: make([]Value, len(ws))}
			for i, w := range ws {
				arr.e[i] = r.ts.Const(64, uint64(w))
			}
			o := r.newObj(nil, arr)
			return &SliceV{obj: o, len: len(ws), cap: len(ws)}
		},
		B + "SetBits": func(r *Run, fn *ssa.Function, a []Value) Value {
			s := a[1].(*SliceV)
			z := r.bigCell(a[0], true)
			ws := make([]big.Word, s.len)
			var terms []*Term
			allc := true
			if s.len > 0 {
				arr := r.sliceArr(s)
				for i := 0; i < s.len; i++ {
					t := arr.e[s.off+i].(*Term)
					terms = append(terms, t)
					if !t.IsConst() {
						allc = false
					} else {
						ws[i] = big.Word(t.k)
					}
				}
			}
			if allc {
				z.v, z.sym = new(big.Int).SetBits(ws), nil
			} else if r.intMode != nil {
				*z = *r.intBigFromWords(terms)
			} else {
				panic(unsupported("SetBits of symbolic words in BV mode"))
			}
			return a[0]
		},
		B + "String": func(r *Run, fn *ssa.Function, a []Value) Value {
			p := a[0].(*PtrV)
			if p.obj == nil {
				return r.constStr("<nil>")
			}
			x := r.bigCell(a[0], false)
			if x.sym != nil {
				return r.constStr("<symbolic big.Int>")
			}
			return r.constStr(x.v.String())
		},
		B + "Text": func(r *Run, fn *ssa.Function, a []Value) Value {
			x := r.bigCell(a[0], false)
			r.needConcrete(x)
			return r.constStr(x.v.Text(intArg(a[1])))
		},
		B + "SetString": func(r *Run, fn *ssa.Function, a []Value) Value {
			s, ok := a[1].(StrV).concrete()
			if !ok {
				panic(unsupported("big.Int.SetString of symbolic string"))
			}
			z := r.bigCell(a[0], true)
			v, good := new(big.Int).SetString(s, intArg(a[2]))
			if !good {
				return TupleV{&PtrV{}, r.ts.Bool(false)}
			}
			z.v, z.sym = v, nil
			return TupleV{a[0], r.ts.Bool(true)}
		},
		B + "ProbablyPrime": func(r *Run, fn *ssa.Function, a []Value) Value {
			x := r.bigCell(a[0], false)
			r.needConcrete(x)
			return r.ts.Bool(x.v.ProbablyPrime(intArg(a[1])))
		},
		B + "TrailingZeroBits": func(r *Run, fn *ssa.Function, a []Value) Value {
			x := r.bigCell(a[0], false)
			r.needConcrete(x)
			return r.ts.Const(64, uint64(x.v.TrailingZeroBits()))
		},
	}
	for k, v := range m {
		intrinsics[k] = v
	}
}


// bigMagBytes gives the big-endian magnitude bytes of a BV-mode big value.
func (r *Run) bigMagBytes(x *BigV) ([]*Term, bool) {
	if x.bsym != nil {
		return append([]*Term{}, x.bsym...), false
	}
	return r.constBytes(x.v.Bytes()), x.v.Sign() < 0
}

func (r *Run) constI64(v int64) *Term {
	if r.ts.intMode {
		return r.ts.IConst64(v)
	}
	return r.ts.Const(64, uint64(v))
}

var _ = fmt.Sprint
