package main

// Native replay: solver models are turned into a run of the same harness compiled by the real
// toolchain against /repo's working tree (overlay build, nothing written under /repo).

import (
	"context"
	"encoding/json"
	"fmt"
	"os"
	"os/exec"
	"path/filepath"
	"regexp"
	"strconv"
	"strings"
	"time"
)

type replayer struct {
	c    *checker
	dir  string
	bins map[string]string
	errs map[string]string
}

func newReplayer(c *checker) *replayer {
	return &replayer{c: c, bins: map[string]string{}, errs: map[string]string{}}
}

func (rp *replayer) cleanup() {
	if rp.dir != "" {
		os.RemoveAll(rp.dir)
	}
}

func (rp *replayer) build(rel string) (string, string) {
	if b, ok := rp.bins[rel]; ok {
		return b, rp.errs[rel]
	}
	if rp.dir == "" {
		d, err := os.MkdirTemp("", "gosym-replay-")
		if err != nil {
			return "", err.Error()
		}
		rp.dir = d
	}
	c := rp.c
	hdir := filepath.Join(c.verif, "harness", rel)
	files, _ := filepath.Glob(filepath.Join(hdir, "*.go"))
	ov := map[string]string{}
	var names []string
	pkgName := ""
	reF := regexp.MustCompile(`(?m)^func (H_\w+)\(\)`)
	reP := regexp.MustCompile(`(?m)^package (\w+)`)
	for _, f := range files {
		if strings.HasSuffix(f, "_test.go") {
			continue
		}
		ov[filepath.Join(c.repo, rel, filepath.Base(f))] = f
		src, _ := os.ReadFile(f)
		for _, m := range reF.FindAllStringSubmatch(string(src), -1) {
			names = append(names, m[1])
		}
		if m := reP.FindStringSubmatch(string(src)); m != nil {
			pkgName = m[1]
		}
	}
	zf, _ := filepath.Glob(filepath.Join(c.verif, "harness", "zzverif", "*.go"))
	for _, f := range zf {
		ov[filepath.Join(c.repo, "lib/others/zzverif", filepath.Base(f))] = f
	}
	var sb strings.Builder
	fmt.Fprintf(&sb, "package %s\n\nimport (\n\t\"testing\"\n\t\"github.com/piotrnar/gocoin/lib/others/zzverif\"\n)\n\n", pkgName)
	sb.WriteString("func TestZZReplay(t *testing.T) {\n\tzzverif.RunReplay(map[string]func(){\n")
	for _, n := range names {
		fmt.Fprintf(&sb, "\t\t%q: %s,\n", n, n)
	}
	sb.WriteString("\t})\n}\n")
	tf := filepath.Join(rp.dir, sanitize(rel)+"_replay_test.go")
	os.WriteFile(tf, []byte(sb.String()), 0o644)
	ov[filepath.Join(c.repo, rel, "zz_verif_replay_test.go")] = tf
	ovb, _ := json.Marshal(map[string]interface{}{"Replace": ov})
	ovf := filepath.Join(rp.dir, sanitize(rel)+"_overlay.json")
	os.WriteFile(ovf, ovb, 0o644)
	bin := filepath.Join(rp.dir, sanitize(rel)+".test")
	cmd := exec.Command("go", "test", "-c", "-tags", "verif", "-vet=off", "-overlay", ovf, "-o", bin, "./"+rel)
	cmd.Dir = c.repo
	cmd.Env = append(os.Environ(), "GOFLAGS=-mod=mod", "GOPROXY=off", "GOSUMDB=off", "GOTOOLCHAIN=local")
	out, err := cmd.CombinedOutput()
	if err != nil {
		rp.bins[rel] = ""
		rp.errs[rel] = "native build failed: " + strings.TrimSpace(string(out))
		return "", rp.errs[rel]
	}
	rp.bins[rel] = bin
	return bin, ""
}

type nativeResult struct {
	result  string
	alloc   uint64
	timeout bool
	output  string
}

func (rp *replayer) runNative(ref harnessRef, path string) (nativeResult, string) {
	nr, errs := rp.runNativeOnce(ref, path)
	if errs == "" && (nr.result == "panic:crash" || nr.result == "no-result") {
		// a process that died without a harness verdict (thread or memory limits on a loaded machine) is run once more; a
		// crash of the code under test repeats
		nr, errs = rp.runNativeOnce(ref, path)
	}
	return nr, errs
}

func (rp *replayer) runNativeOnce(ref harnessRef, path string) (nativeResult, string) {
	bin, errs := rp.build(ref.rel)
	if bin == "" {
		return nativeResult{}, errs
	}
	ctx, cancel := context.WithTimeout(context.Background(), 30*time.Second)
	defer cancel()
	cmd := exec.CommandContext(ctx, "bash", "-c", "ulimit -v 6000000; exec \"$0\" -test.run '^TestZZReplay$' -test.timeout 25s", bin)
	cmd.Dir = filepath.Join(rp.c.repo, ref.rel)
	cmd.Env = append(os.Environ(), "ZZVERIF_REPLAY="+path, "ZZVERIF_HARNESS="+ref.name, "ZZVERIF_TIER="+rp.c.tier)
	out, _ := cmd.CombinedOutput()
	nr := nativeResult{output: string(out)}
	if ctx.Err() != nil {
		nr.timeout = true
	}
	for _, l := range strings.Split(string(out), "\n") {
		if strings.HasPrefix(l, "ZZRESULT ") {
			nr.result = strings.TrimPrefix(l, "ZZRESULT ")
		}
		if strings.HasPrefix(l, "ZZALLOC ") {
			nr.alloc, _ = strconv.ParseUint(strings.TrimPrefix(l, "ZZALLOC "), 10, 64)
		}
	}
	if nr.result == "" {
		switch {
		case strings.Contains(nr.output, "test timed out") || nr.timeout:
			nr.result = "timeout"
			nr.timeout = true
		case strings.Contains(nr.output, "out of memory") || strings.Contains(nr.output, "cannot allocate memory"):
			nr.result = "out-of-memory"
		case strings.Contains(nr.output, "panic:") || strings.Contains(nr.output, "fatal error:"):
			nr.result = "panic:crash"
		default:
			nr.result = "no-result"
		}
	}
	return nr, ""
}

// replay returns "reproduced" or a description of what happened instead.
func (rp *replayer) replay(ref harnessRef, v *Violation, path string) string {
	nr, errs := rp.runNative(ref, path)
	if errs != "" {
		return errs
	}
	if os.Getenv("GOSYM_NATIVEOUT") != "" {
		fmt.Fprintf(os.Stderr, "[native output %s]\n%s\n", path, nr.output)
	}
	switch {
	case v.Label == "panic":
		if strings.HasPrefix(nr.result, "panic:") || nr.result == "out-of-memory" {
			return "reproduced"
		}
	case v.Label == "alloc":
		if nr.alloc > 32<<20 || nr.result == "out-of-memory" || strings.HasPrefix(nr.result, "panic:") || nr.timeout {
			return "reproduced"
		}
	case v.Label == "hang", v.Label == "deadlock":
		if nr.timeout {
			return "reproduced"
		}
	default:
		if nr.result == "assert-fail:"+v.Label {
			return "reproduced"
		}
	}
	return "native run gave " + nr.result
}

func (rp *replayer) replayWitness(ref harnessRef, v *Violation, path string) string {
	nr, errs := rp.runNative(ref, path)
	if errs != "" {
		return errs
	}
	if nr.result == "ok" || strings.HasPrefix(nr.result, "assert-fail:") {
		// a witness only has to reach its label natively: any completed run is accepted
		return "ok"
	}
	if nr.result == "no-result" && !strings.Contains(nr.output, "panic") && !strings.Contains(nr.output, "fatal error") {
		// the code under test ended the process itself (os.Exit in a command-line tool): accepted for witnesses
		return "ok"
	}
	return nr.result
}
